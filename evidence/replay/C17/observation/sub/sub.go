package sub

var cache = map[string]int{}

func F(x int) int { a, b := x, x+1; f := func() int { return a + b }; g := func() *int { return &b }; return f() + *g() }

func G[T any](v T) T { return v }
