module verifprog

go 1.20
