package gsub

import "verifprog/other"

func A[T any](v T) T { return other.B(v) }
