package other

func B[T any](v T) T { return v }
