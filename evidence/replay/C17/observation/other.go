package main

var second = initSecond()

func initSecond() int { return 2 }

func init() { println("other", second) }

func (t T) Extra() int { return t.a + third }

var third = first * 2
