package main

import (
	"verifprog/gsub"
	"verifprog/gsub2"
	"verifprog/sub"
)

var first = initFirst()

func initFirst() int { return second + 1 }

type T struct{ a, b int }

func (t T) M() int  { return t.a }
func (t *T) P() int { return t.b }

type I interface{ M() int }

func gen[K comparable, V any](m map[K]V) int { return len(m) }

func main() {
	total := 0
	var fs []func() int
	for i := 0; i < 3; i++ {
		v := i * 2
		w := i + 1
		x := i
		p := &w
		fs = append(fs, func() int { return v + x + *p })
		{
			v := w
			x := &v
			fs = append(fs, func() int { return *x })
		}
	}
	for _, f := range fs {
		total += f()
	}
	var i I = T{1, 2}
	m := map[string]int{"a": 1}
	n := map[int]string{1: "x"}
	println(total, i.M(), gen(m), gen(n), sub.F(3), sub.G[int8](4), sub.G[string]("s"), gsub.A(1), gsub2.D("s"), first, T{}.Extra())
}
