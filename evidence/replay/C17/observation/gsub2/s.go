package gsub2

import "verifprog/other"

func D[T any](v T) T { return other.B(v) }
