package feature

const Arch = "ecmascript"
