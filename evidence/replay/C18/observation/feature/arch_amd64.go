package feature

const Arch = "amd64"
