package feature

// #include <stdio.h>
import "C"

const Arch = "cgo"
