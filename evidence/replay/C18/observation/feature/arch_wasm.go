package feature

const Arch = "wasm"
