//go:build !fast

package feature

const Variant = "slow"
