$global.verifIncluded = "inc.js included";
