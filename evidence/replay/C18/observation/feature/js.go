package feature

import "github.com/gopherjs/gopherjs/js"

func FromJS() string { return js.Global.Get("verifIncluded").String() }
