package main

import "verifprog/feature"

func main() { println("main", variant, feature.Variant, feature.Arch, feature.FromJS()) }
