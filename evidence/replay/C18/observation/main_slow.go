//go:build !fast

package main

const variant = "slow"
