//go:build fast

package main

const variant = "fast"
