package main
import "math"
import "runtime"
var _ = math.Pi

//go:noinline
func NondetInt8(id int) int8 {
	switch id {
	case 0:
		return int8(0)
	case 1:
		return int8(0)
	case 9999:
		return int8(0)
	}
	return 0
}

//go:noinline
func NondetInt16(id int) int16 {
	switch id {
	case 0:
		return int16(0)
	case 1:
		return int16(0)
	case 9999:
		return int16(0)
	}
	return 0
}

//go:noinline
func NondetInt32(id int) int32 {
	switch id {
	case 0:
		return int32(0)
	case 1:
		return int32(0)
	case 9999:
		return int32(0)
	}
	return 0
}

//go:noinline
func NondetInt64(id int) int64 {
	switch id {
	case 0:
		return int64(0)
	case 1:
		return int64(0)
	case 9999:
		return int64(0)
	}
	return 0
}

//go:noinline
func NondetUint8(id int) uint8 {
	switch id {
	case 0:
		return uint8(0)
	case 1:
		return uint8(0)
	case 9999:
		return uint8(0)
	}
	return 0
}

//go:noinline
func NondetUint16(id int) uint16 {
	switch id {
	case 0:
		return uint16(0)
	case 1:
		return uint16(0)
	case 9999:
		return uint16(0)
	}
	return 0
}

//go:noinline
func NondetUint32(id int) uint32 {
	switch id {
	case 0:
		return uint32(0)
	case 1:
		return uint32(0)
	case 9999:
		return uint32(0)
	}
	return 0
}

//go:noinline
func NondetUint64(id int) uint64 {
	switch id {
	case 0:
		return uint64(0)
	case 1:
		return uint64(0)
	case 9999:
		return uint64(0)
	}
	return 0
}

//go:noinline
func NondetInt(id int) int {
	switch id {
	case 0:
		return int(0)
	case 1:
		return int(0)
	case 9999:
		return int(0)
	}
	return 0
}

//go:noinline
func NondetUint(id int) uint {
	switch id {
	case 0:
		return uint(0)
	case 1:
		return uint(0)
	case 9999:
		return uint(0)
	}
	return 0
}

//go:noinline
func NondetUintptr(id int) uintptr {
	switch id {
	case 0:
		return uintptr(0)
	case 1:
		return uintptr(0)
	case 9999:
		return uintptr(0)
	}
	return 0
}

//go:noinline
func NondetBool(id int) bool {
	switch id {
	}
	return false
}

//go:noinline
func NondetFloat32(id int) float32 {
	switch id {
	}
	return 0
}

//go:noinline
func NondetFloat64(id int) float64 {
	switch id {
	}
	return 0
}

//go:noinline
func NondetRange(id int, lo int, hi int) int {
	switch id {
	case 0:
		return 0
	case 1:
		return 0
	case 9999:
		return 0
	}
	return lo
}

//go:noinline
func NondetString(id int, maxLen int) string {
	switch id {

	}
	return ""
}

//go:noinline
func NondetUint32L(id int) uint32 {
	switch id {
	case 0:
		return uint32(0)
	case 1:
		return uint32(0)
	case 9999:
		return uint32(0)
	}
	return 0
}

//go:noinline
func NondetInt64R(id int, lo, hi int64) int64 {
	switch id {
	case 0:
		return 0
	case 1:
		return 0
	case 9999:
		return 0
	}
	return lo
}

//go:noinline
func NondetUint64R(id int, lo, hi uint64) uint64 {
	switch id {
	case 0:
		return 0
	case 1:
		return 0
	case 9999:
		return 0
	}
	return lo
}

//go:noinline
func VerifOutI64(tag string, v int64) { println(tag, int32(v>>32), uint32(v)) }

//go:noinline
func VerifOutU64(tag string, v uint64) { println(tag, uint32(v>>32), uint32(v)) }

//go:noinline
func VerifOutF64(tag string, v float64) {
	if v != v {
		println(tag, "NaN")
		return
	}
	b := math.Float64bits(v)
	println(tag, uint32(b>>32), uint32(b))
}

//go:noinline
func VerifOutF32(tag string, v float32) {
	if v != v {
		println(tag, "NaN")
		return
	}
	println(tag, math.Float32bits(v))
}

//go:noinline
func VerifOutC128(tag string, v complex128) { println(tag, real(v), imag(v)) }

//go:noinline
func VerifOutC64(tag string, v complex64) { println(tag, real(v), imag(v)) }

//go:noinline
func VerifAssume(b bool) {}

//go:noinline
func VerifReach(k int) {}



//go:noinline
func VerifYield() {
	i := yieldIdx
	yieldIdx++
	if i < len(yieldTable) && yieldTable[i] {
		runtime.Gosched()
	}
}

var yieldTable = []bool{true}
var yieldIdx int


//go:noinline
func yv(v int) int { VerifYield(); return v }
//go:noinline
func pf(v int) int {
	defer func() { VerifYield() }()
	if v != 12345 {
		panic("p")
	}
	return 1
}
//go:noinline
func pg(v int) (r int) {
	defer func() {
		recover()
		r = 5
	}()
	r = pf(v)
	println("after")
	return r + 100
}

func main() {
	a := int(NondetInt16(0))
	b := int(NondetInt16(1))
	_, _ = a, b
	println("g", pg(a&255))
}
