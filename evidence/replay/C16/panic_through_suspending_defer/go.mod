module replay

go 1.20
