"use strict";
(function() {

var $goVersion = "go1.23.5";
Error.stackTraceLimit = Infinity;
var $NaN = NaN;
var $global, $module;
if (typeof window !== "undefined") {
  $global = window;
} else if (typeof self !== "undefined") {
  $global = self;
} else if (typeof global !== "undefined") {
  $global = global;
  $global.require = require;
} else {
  $global = this;
}
if ($global === void 0 || $global.Array === void 0) {
  throw new Error("no global object found");
}
if (typeof module !== "undefined") {
  $module = module;
}
if (!$global.fs && $global.require) {
  try {
    var fs = $global.require("fs");
    if (typeof fs === "object" && fs !== null && Object.keys(fs).length !== 0) {
      $global.fs = fs;
    }
  } catch (e) {
  }
}
if (!$global.fs) {
  var outputBuf = "";
  var decoder = new TextDecoder("utf-8");
  $global.fs = {
    constants: { O_WRONLY: -1, O_RDWR: -1, O_CREAT: -1, O_TRUNC: -1, O_APPEND: -1, O_EXCL: -1 },
    // unused
    writeSync: function writeSync(fd, buf) {
      if ($global.gopherjsWriteSyncHook) {
        outputBuf += decoder.decode(buf);
        $global.gopherjsWriteSyncHook(fd, outputBuf);
        outputBuf = "";
        return buf.length;
      }
      outputBuf += decoder.decode(buf);
      var nl = outputBuf.lastIndexOf("\n");
      if (nl != -1) {
        console.log(outputBuf.substring(0, nl));
        outputBuf = outputBuf.substring(nl + 1);
      }
      return buf.length;
    },
    write: function write(fd, buf, offset, length, position, callback) {
      if (offset !== 0 || length !== buf.length || position !== null) {
        callback(enosys());
        return;
      }
      var n = this.writeSync(fd, buf);
      callback(null, n);
    }
  };
}
var $linknames = {};
var $packages = {}, $idCounter = 0;
var $keys = (m) => {
  return m ? Object.keys(m) : [];
};
var $flushConsole = () => {
};
var $throwRuntimeError;
var $throwNilPointerError = () => {
  $throwRuntimeError("invalid memory address or nil pointer dereference");
};
var $call = (fn, rcvr, args) => {
  return fn.apply(rcvr, args);
};
var $makeFunc = (fn) => {
  return function(...args) {
    return $externalize(fn(this, new ($sliceType($jsObjectPtr))($global.Array.prototype.slice.call(args, []))), $emptyInterface);
  };
};
var $unused = (v) => {
};
var $print = console.log;
if ($global.process !== void 0 && $global.require) {
  try {
    var util = $global.require("util");
    $print = function(...args) {
      $global.process.stderr.write(util.format.apply(this, args));
    };
  } catch (e) {
  }
}
var $println = console.log;
var $callForAllPackages = (methodName) => {
  var names = $keys($packages);
  for (var i = 0; i < names.length; i++) {
    var f = $packages[names[i]][methodName];
    if (typeof f == "function") {
      f();
    }
  }
};
var $mapArray = (array, f) => {
  var newArray = new array.constructor(array.length);
  for (var i = 0; i < array.length; i++) {
    newArray[i] = f(array[i]);
  }
  return newArray;
};
var $mapIndex = (m, key) => {
  return typeof m.get === "function" ? m.get(key) : void 0;
};
var $mapDelete = (m, key) => {
  typeof m.delete === "function" && m.delete(key);
};
var $methodVal = (recv, name) => {
  var vals = recv.$methodVals || {};
  if (Object.isExtensible(recv)) {
    recv.$methodVals = vals;
  }
  var f = vals[name];
  if (f !== void 0) {
    return f;
  }
  var method = recv[name];
  f = method.bind(recv);
  vals[name] = f;
  return f;
};
var $methodExpr = (typ, name) => {
  var method = typ.prototype[name];
  if (method.$expr === void 0) {
    method.$expr = (...args) => {
      $stackDepthOffset--;
      try {
        if (typ.wrapped) {
          args[0] = new typ(args[0]);
        }
        return Function.call.apply(method, args);
      } finally {
        $stackDepthOffset++;
      }
    };
  }
  return method.$expr;
};
var $ifaceMethodExprs = {};
var $ifaceMethodExpr = (name) => {
  var expr = $ifaceMethodExprs["$" + name];
  if (expr === void 0) {
    expr = $ifaceMethodExprs["$" + name] = (...args) => {
      $stackDepthOffset--;
      try {
        return Function.call.apply(args[0][name], args);
      } finally {
        $stackDepthOffset++;
      }
    };
  }
  return expr;
};
var $subslice = (slice, low, high, max) => {
  if (high === void 0) {
    high = slice.$length;
  }
  if (max === void 0) {
    max = slice.$capacity;
  }
  if (low < 0 || high < low || max < high || high > slice.$capacity || max > slice.$capacity) {
    $throwRuntimeError("slice bounds out of range");
  }
  if (slice === slice.constructor.nil) {
    return slice;
  }
  var s = new slice.constructor(slice.$array);
  s.$offset = slice.$offset + low;
  s.$length = high - low;
  s.$capacity = max - low;
  return s;
};
var $substring = (str, low, high) => {
  if (low < 0 || high < low || high > str.length) {
    $throwRuntimeError("slice bounds out of range");
  }
  return str.substring(low, high);
};
var $sliceToNativeArray = (slice) => {
  if (slice.$array.constructor !== Array) {
    return slice.$array.subarray(slice.$offset, slice.$offset + slice.$length);
  }
  return slice.$array.slice(slice.$offset, slice.$offset + slice.$length);
};
var $sliceToGoArray = (slice, arrayPtrType) => {
  var arrayType = arrayPtrType.elem;
  if (arrayType !== void 0 && slice.$length < arrayType.len) {
    $throwRuntimeError("cannot convert slice with length " + slice.$length + " to pointer to array with length " + arrayType.len);
  }
  if (slice == slice.constructor.nil) {
    return arrayPtrType.nil;
  }
  if (slice.$array.constructor !== Array) {
    return slice.$array.subarray(slice.$offset, slice.$offset + arrayType.len);
  }
  if (slice.$offset == 0 && slice.$length == slice.$capacity && slice.$length == arrayType.len) {
    return slice.$array;
  }
  if (arrayType.len == 0) {
    return new arrayType([]);
  }
  $throwRuntimeError("gopherjs: non-numeric slice to underlying array conversion is not supported for subslices");
};
var $convertSliceType = (slice, desiredType) => {
  if (slice == slice.constructor.nil) {
    return desiredType.nil;
  }
  return $subslice(new desiredType(slice.$array), slice.$offset, slice.$offset + slice.$length);
};
var $decodeRune = (str, pos) => {
  var c0 = str.charCodeAt(pos);
  if (c0 < 128) {
    return [c0, 1];
  }
  if (c0 !== c0 || c0 < 192) {
    return [65533, 1];
  }
  var c1 = str.charCodeAt(pos + 1);
  if (c1 !== c1 || c1 < 128 || 192 <= c1) {
    return [65533, 1];
  }
  if (c0 < 224) {
    var r = (c0 & 31) << 6 | c1 & 63;
    if (r <= 127) {
      return [65533, 1];
    }
    return [r, 2];
  }
  var c2 = str.charCodeAt(pos + 2);
  if (c2 !== c2 || c2 < 128 || 192 <= c2) {
    return [65533, 1];
  }
  if (c0 < 240) {
    var r = (c0 & 15) << 12 | (c1 & 63) << 6 | c2 & 63;
    if (r <= 2047) {
      return [65533, 1];
    }
    if (55296 <= r && r <= 57343) {
      return [65533, 1];
    }
    return [r, 3];
  }
  var c3 = str.charCodeAt(pos + 3);
  if (c3 !== c3 || c3 < 128 || 192 <= c3) {
    return [65533, 1];
  }
  if (c0 < 248) {
    var r = (c0 & 7) << 18 | (c1 & 63) << 12 | (c2 & 63) << 6 | c3 & 63;
    if (r <= 65535 || 1114111 < r) {
      return [65533, 1];
    }
    return [r, 4];
  }
  return [65533, 1];
};
var $encodeRune = (r) => {
  if (r < 0 || r > 1114111 || 55296 <= r && r <= 57343) {
    r = 65533;
  }
  if (r <= 127) {
    return String.fromCharCode(r);
  }
  if (r <= 2047) {
    return String.fromCharCode(192 | r >> 6, 128 | r & 63);
  }
  if (r <= 65535) {
    return String.fromCharCode(224 | r >> 12, 128 | r >> 6 & 63, 128 | r & 63);
  }
  return String.fromCharCode(240 | r >> 18, 128 | r >> 12 & 63, 128 | r >> 6 & 63, 128 | r & 63);
};
var $stringToBytes = (str) => {
  var array = new Uint8Array(str.length);
  for (var i = 0; i < str.length; i++) {
    array[i] = str.charCodeAt(i);
  }
  return array;
};
var $bytesToString = (slice) => {
  if (slice.$length === 0) {
    return "";
  }
  var str = "";
  for (var i = 0; i < slice.$length; i += 1e4) {
    str += String.fromCharCode.apply(void 0, slice.$array.subarray(slice.$offset + i, slice.$offset + Math.min(slice.$length, i + 1e4)));
  }
  return str;
};
var $stringToRunes = (str) => {
  var array = new Int32Array(str.length);
  var rune, j = 0;
  for (var i = 0; i < str.length; i += rune[1], j++) {
    rune = $decodeRune(str, i);
    array[j] = rune[0];
  }
  return array.subarray(0, j);
};
var $runesToString = (slice) => {
  if (slice.$length === 0) {
    return "";
  }
  var str = "";
  for (var i = 0; i < slice.$length; i++) {
    str += $encodeRune(slice.$array[slice.$offset + i]);
  }
  return str;
};
var $copyString = (dst, src) => {
  var n = Math.min(src.length, dst.$length);
  for (var i = 0; i < n; i++) {
    dst.$array[dst.$offset + i] = src.charCodeAt(i);
  }
  return n;
};
var $copySlice = (dst, src) => {
  var n = Math.min(src.$length, dst.$length);
  $copyArray(dst.$array, src.$array, dst.$offset, src.$offset, n, dst.constructor.elem);
  return n;
};
var $copyArray = (dst, src, dstOffset, srcOffset, n, elem) => {
  if (n === 0 || dst === src && dstOffset === srcOffset) {
    return;
  }
  if (src.subarray) {
    dst.set(src.subarray(srcOffset, srcOffset + n), dstOffset);
    return;
  }
  switch (elem.kind) {
    case $kindArray:
    case $kindStruct:
      if (dst === src && dstOffset > srcOffset) {
        for (var i = n - 1; i >= 0; i--) {
          elem.copy(dst[dstOffset + i], src[srcOffset + i]);
        }
        return;
      }
      for (var i = 0; i < n; i++) {
        elem.copy(dst[dstOffset + i], src[srcOffset + i]);
      }
      return;
  }
  if (dst === src && dstOffset > srcOffset) {
    for (var i = n - 1; i >= 0; i--) {
      dst[dstOffset + i] = src[srcOffset + i];
    }
    return;
  }
  for (var i = 0; i < n; i++) {
    dst[dstOffset + i] = src[srcOffset + i];
  }
};
var $clone = (src, type) => {
  var clone = type.zero();
  type.copy(clone, src);
  return clone;
};
var $pointerOfStructConversion = (obj, type) => {
  if (obj.$proxies === void 0) {
    obj.$proxies = {};
    obj.$proxies[obj.constructor.string] = obj;
  }
  var proxy = obj.$proxies[type.string];
  if (proxy === void 0) {
    var properties = {};
    for (var i = 0; i < type.elem.fields.length; i++) {
      ((fieldProp) => {
        properties[fieldProp] = {
          get() {
            return obj[fieldProp];
          },
          set(value) {
            obj[fieldProp] = value;
          }
        };
      })(type.elem.fields[i].prop);
    }
    proxy = Object.create(type.prototype, properties);
    proxy.$val = proxy;
    obj.$proxies[type.string] = proxy;
    proxy.$proxies = obj.$proxies;
  }
  return proxy;
};
var $append = function(slice) {
  return $internalAppend(slice, arguments, 1, arguments.length - 1);
};
var $appendSlice = (slice, toAppend) => {
  if (toAppend.constructor === String) {
    var bytes = $stringToBytes(toAppend);
    return $internalAppend(slice, bytes, 0, bytes.length);
  }
  return $internalAppend(slice, toAppend.$array, toAppend.$offset, toAppend.$length);
};
var $internalAppend = (slice, array, offset, length) => {
  if (length === 0) {
    return slice;
  }
  let newLength = slice.$length + length;
  let newSlice = $growSlice(slice, newLength);
  let newArray = newSlice.$array;
  $copyArray(newArray, array, newSlice.$offset + newSlice.$length, offset, length, newSlice.constructor.elem);
  newSlice.$length = newLength;
  return newSlice;
};
const $calculateNewCapacity = (minCapacity, oldCapacity) => {
  return Math.max(minCapacity, oldCapacity < 1024 ? oldCapacity * 2 : Math.floor(oldCapacity * 5 / 4));
};
var $growSlice = (slice, minCapacity) => {
  let array = slice.$array;
  let offset = slice.$offset;
  const length = slice.$length;
  let capacity = slice.$capacity;
  if (minCapacity > capacity) {
    capacity = $calculateNewCapacity(minCapacity, capacity);
    let newArray;
    if (array.constructor === Array) {
      newArray = array.slice(offset, offset + length);
      newArray.length = capacity;
      const zero = slice.constructor.elem.zero;
      for (let i = slice.$length; i < capacity; i++) {
        newArray[i] = zero();
      }
    } else {
      newArray = new array.constructor(capacity);
      newArray.set(array.subarray(offset, offset + length));
    }
    array = newArray;
    offset = 0;
  }
  let newSlice = new slice.constructor(array);
  newSlice.$offset = offset;
  newSlice.$length = length;
  newSlice.$capacity = capacity;
  return newSlice;
};
var $equal = (a, b, type) => {
  if (type === $jsObjectPtr) {
    return a === b;
  }
  switch (type.kind) {
    case $kindComplex64:
    case $kindComplex128:
      return a.$real === b.$real && a.$imag === b.$imag;
    case $kindInt64:
    case $kindUint64:
      return a.$high === b.$high && a.$low === b.$low;
    case $kindArray:
      if (a.length !== b.length) {
        return false;
      }
      for (var i = 0; i < a.length; i++) {
        if (!$equal(a[i], b[i], type.elem)) {
          return false;
        }
      }
      return true;
    case $kindStruct:
      for (var i = 0; i < type.fields.length; i++) {
        var f = type.fields[i];
        if (!$equal(a[f.prop], b[f.prop], f.typ)) {
          return false;
        }
      }
      return true;
    case $kindInterface:
      return $interfaceIsEqual(a, b);
    default:
      return a === b;
  }
};
var $interfaceIsEqual = (a, b) => {
  if (a === $ifaceNil || b === $ifaceNil) {
    return a === b;
  }
  if (a.constructor !== b.constructor) {
    return false;
  }
  if (a.constructor === $jsObjectPtr) {
    return a.object === b.object;
  }
  if (!a.constructor.comparable) {
    $throwRuntimeError("comparing uncomparable type " + a.constructor.string);
  }
  return $equal(a.$val, b.$val, a.constructor);
};
var $unsafeMethodToFunction = (typ, name, isPtr) => {
  if (isPtr) {
    return (r, ...args) => {
      var ptrType = $ptrType(typ);
      if (r.constructor != ptrType) {
        switch (typ.kind) {
          case $kindStruct:
            r = $pointerOfStructConversion(r, ptrType);
            break;
          case $kindArray:
            r = new ptrType(r);
            break;
          default:
            r = new ptrType(r.$get, r.$set, r.$target);
        }
      }
      return r[name](...args);
    };
  } else {
    return (r, ...args) => {
      var ptrType = $ptrType(typ);
      if (r.constructor != ptrType) {
        switch (typ.kind) {
          case $kindStruct:
            r = $clone(r, typ);
            break;
          case $kindSlice:
            r = $convertSliceType(r, typ);
            break;
          case $kindComplex64:
          case $kindComplex128:
            r = new typ(r.$real, r.$imag);
            break;
          default:
            r = new typ(r);
        }
      }
      return r[name](...args);
    };
  }
};
var $id = (x) => {
  return x;
};
var $instanceOf = (x, y) => {
  return x instanceof y;
};
var $typeOf = (x) => {
  return typeof x;
};
var $sliceData = (slice, typ) => {
  if (slice === typ.nil) {
    return $ptrType(typ.elem).nil;
  }
  return $indexPtr(slice.$array, slice.$offset, typ.elem);
};
var $min = Math.min;
var $mod = (x, y) => {
  return x % y;
};
var $parseInt = parseInt;
var $parseFloat = (f) => {
  if (f !== void 0 && f !== null && f.constructor === Number) {
    return f;
  }
  return parseFloat(f);
};
var $froundBuf = new Float32Array(1);
var $fround = Math.fround || ((f) => {
  $froundBuf[0] = f;
  return $froundBuf[0];
});
var $imul = Math.imul || ((a, b) => {
  var ah = a >>> 16 & 65535;
  var al = a & 65535;
  var bh = b >>> 16 & 65535;
  var bl = b & 65535;
  return al * bl + (ah * bl + al * bh << 16 >>> 0) >> 0;
});
var $floatKey = (f) => {
  if (f !== f) {
    $idCounter++;
    return "NaN$" + $idCounter;
  }
  return String(f);
};
var $flatten64 = (x) => {
  return x.$high * 4294967296 + x.$low;
};
var $shiftLeft64 = (x, y) => {
  if (y === 0) {
    return x;
  }
  if (y < 32) {
    return new x.constructor(x.$high << y | x.$low >>> 32 - y, x.$low << y >>> 0);
  }
  if (y < 64) {
    return new x.constructor(x.$low << y - 32, 0);
  }
  return new x.constructor(0, 0);
};
var $shiftRightInt64 = (x, y) => {
  if (y === 0) {
    return x;
  }
  if (y < 32) {
    return new x.constructor(x.$high >> y, (x.$low >>> y | x.$high << 32 - y) >>> 0);
  }
  if (y < 64) {
    return new x.constructor(x.$high >> 31, x.$high >> y - 32 >>> 0);
  }
  if (x.$high < 0) {
    return new x.constructor(-1, 4294967295);
  }
  return new x.constructor(0, 0);
};
var $shiftRightUint64 = (x, y) => {
  if (y === 0) {
    return x;
  }
  if (y < 32) {
    return new x.constructor(x.$high >>> y, (x.$low >>> y | x.$high << 32 - y) >>> 0);
  }
  if (y < 64) {
    return new x.constructor(0, x.$high >>> y - 32);
  }
  return new x.constructor(0, 0);
};
var $mul64 = (x, y) => {
  var x48 = x.$high >>> 16;
  var x32 = x.$high & 65535;
  var x16 = x.$low >>> 16;
  var x00 = x.$low & 65535;
  var y48 = y.$high >>> 16;
  var y32 = y.$high & 65535;
  var y16 = y.$low >>> 16;
  var y00 = y.$low & 65535;
  var z48 = 0, z32 = 0, z16 = 0, z00 = 0;
  z00 += x00 * y00;
  z16 += z00 >>> 16;
  z00 &= 65535;
  z16 += x16 * y00;
  z32 += z16 >>> 16;
  z16 &= 65535;
  z16 += x00 * y16;
  z32 += z16 >>> 16;
  z16 &= 65535;
  z32 += x32 * y00;
  z48 += z32 >>> 16;
  z32 &= 65535;
  z32 += x16 * y16;
  z48 += z32 >>> 16;
  z32 &= 65535;
  z32 += x00 * y32;
  z48 += z32 >>> 16;
  z32 &= 65535;
  z48 += x48 * y00 + x32 * y16 + x16 * y32 + x00 * y48;
  z48 &= 65535;
  var hi = (z48 << 16 | z32) >>> 0;
  var lo = (z16 << 16 | z00) >>> 0;
  var r = new x.constructor(hi, lo);
  return r;
};
var $div64 = (x, y, returnRemainder) => {
  if (y.$high === 0 && y.$low === 0) {
    $throwRuntimeError("integer divide by zero");
  }
  var s = 1;
  var rs = 1;
  var xHigh = x.$high;
  var xLow = x.$low;
  if (xHigh < 0) {
    s = -1;
    rs = -1;
    xHigh = -xHigh;
    if (xLow !== 0) {
      xHigh--;
      xLow = 4294967296 - xLow;
    }
  }
  var yHigh = y.$high;
  var yLow = y.$low;
  if (y.$high < 0) {
    s *= -1;
    yHigh = -yHigh;
    if (yLow !== 0) {
      yHigh--;
      yLow = 4294967296 - yLow;
    }
  }
  var high = 0, low = 0, n = 0;
  while (yHigh < 2147483648 && (xHigh > yHigh || xHigh === yHigh && xLow > yLow)) {
    yHigh = (yHigh << 1 | yLow >>> 31) >>> 0;
    yLow = yLow << 1 >>> 0;
    n++;
  }
  for (var i = 0; i <= n; i++) {
    high = high << 1 | low >>> 31;
    low = low << 1 >>> 0;
    if (xHigh > yHigh || xHigh === yHigh && xLow >= yLow) {
      xHigh = xHigh - yHigh;
      xLow = xLow - yLow;
      if (xLow < 0) {
        xHigh--;
        xLow += 4294967296;
      }
      low++;
      if (low === 4294967296) {
        high++;
        low = 0;
      }
    }
    yLow = (yLow >>> 1 | yHigh << 32 - 1) >>> 0;
    yHigh = yHigh >>> 1;
  }
  if (returnRemainder) {
    return new x.constructor(xHigh * rs, xLow * rs);
  }
  return new x.constructor(high * s, low * s);
};
var $divComplex = (n, d) => {
  var ninf = n.$real === Infinity || n.$real === -Infinity || n.$imag === Infinity || n.$imag === -Infinity;
  var dinf = d.$real === Infinity || d.$real === -Infinity || d.$imag === Infinity || d.$imag === -Infinity;
  var nnan = !ninf && (n.$real !== n.$real || n.$imag !== n.$imag);
  var dnan = !dinf && (d.$real !== d.$real || d.$imag !== d.$imag);
  if (nnan || dnan) {
    return new n.constructor(NaN, NaN);
  }
  if (ninf && !dinf) {
    return new n.constructor(Infinity, Infinity);
  }
  if (!ninf && dinf) {
    return new n.constructor(0, 0);
  }
  if (d.$real === 0 && d.$imag === 0) {
    if (n.$real === 0 && n.$imag === 0) {
      return new n.constructor(NaN, NaN);
    }
    return new n.constructor(Infinity, Infinity);
  }
  var a = Math.abs(d.$real);
  var b = Math.abs(d.$imag);
  if (a <= b) {
    var ratio = d.$real / d.$imag;
    var denom = d.$real * ratio + d.$imag;
    return new n.constructor((n.$real * ratio + n.$imag) / denom, (n.$imag * ratio - n.$real) / denom);
  }
  var ratio = d.$imag / d.$real;
  var denom = d.$imag * ratio + d.$real;
  return new n.constructor((n.$imag * ratio + n.$real) / denom, (n.$imag - n.$real * ratio) / denom);
};
var $kindBool = 1;
var $kindInt = 2;
var $kindInt8 = 3;
var $kindInt16 = 4;
var $kindInt32 = 5;
var $kindInt64 = 6;
var $kindUint = 7;
var $kindUint8 = 8;
var $kindUint16 = 9;
var $kindUint32 = 10;
var $kindUint64 = 11;
var $kindUintptr = 12;
var $kindFloat32 = 13;
var $kindFloat64 = 14;
var $kindComplex64 = 15;
var $kindComplex128 = 16;
var $kindArray = 17;
var $kindChan = 18;
var $kindFunc = 19;
var $kindInterface = 20;
var $kindMap = 21;
var $kindPtr = 22;
var $kindSlice = 23;
var $kindString = 24;
var $kindStruct = 25;
var $kindUnsafePointer = 26;
var $methodSynthesizers = [];
var $addMethodSynthesizer = (f) => {
  if ($methodSynthesizers === null) {
    f();
    return;
  }
  $methodSynthesizers.push(f);
};
var $synthesizeMethods = () => {
  $methodSynthesizers.forEach((f) => {
    f();
  });
  $methodSynthesizers = null;
};
var $ifaceKeyFor = (x) => {
  if (x === $ifaceNil) {
    return "nil";
  }
  var c = x.constructor;
  return c.string + "$" + c.keyFor(x.$val);
};
var $identity = (x) => {
  return x;
};
var $typeIDCounter = 0;
var $idKey = (x) => {
  if (x.$id === void 0) {
    $idCounter++;
    x.$id = $idCounter;
  }
  return String(x.$id);
};
var $arrayPtrCtor = () => {
  return function(array) {
    this.$get = () => {
      return array;
    };
    this.$set = function(v) {
      typ.copy(this, v);
    };
    this.$val = array;
  };
};
var $newType = (size, kind, string, named, pkg, exported, constructor) => {
  var typ2;
  switch (kind) {
    case $kindBool:
    case $kindInt:
    case $kindInt8:
    case $kindInt16:
    case $kindInt32:
    case $kindUint:
    case $kindUint8:
    case $kindUint16:
    case $kindUint32:
    case $kindUintptr:
    case $kindUnsafePointer:
      typ2 = function(v) {
        this.$val = v;
      };
      typ2.wrapped = true;
      typ2.keyFor = $identity;
      break;
    case $kindString:
      typ2 = function(v) {
        this.$val = v;
      };
      typ2.wrapped = true;
      typ2.keyFor = (x) => {
        return "$" + x;
      };
      break;
    case $kindFloat32:
    case $kindFloat64:
      typ2 = function(v) {
        this.$val = v;
      };
      typ2.wrapped = true;
      typ2.keyFor = (x) => {
        return $floatKey(x);
      };
      break;
    case $kindInt64:
      typ2 = function(high, low) {
        this.$high = high + Math.floor(Math.ceil(low) / 4294967296) >> 0;
        this.$low = low >>> 0;
        this.$val = this;
      };
      typ2.keyFor = (x) => {
        return x.$high + "$" + x.$low;
      };
      break;
    case $kindUint64:
      typ2 = function(high, low) {
        this.$high = high + Math.floor(Math.ceil(low) / 4294967296) >>> 0;
        this.$low = low >>> 0;
        this.$val = this;
      };
      typ2.keyFor = (x) => {
        return x.$high + "$" + x.$low;
      };
      break;
    case $kindComplex64:
      typ2 = function(real, imag) {
        this.$real = $fround(real);
        this.$imag = $fround(imag);
        this.$val = this;
      };
      typ2.keyFor = (x) => {
        return x.$real + "$" + x.$imag;
      };
      break;
    case $kindComplex128:
      typ2 = function(real, imag) {
        this.$real = real;
        this.$imag = imag;
        this.$val = this;
      };
      typ2.keyFor = (x) => {
        return x.$real + "$" + x.$imag;
      };
      break;
    case $kindArray:
      typ2 = function(v) {
        this.$val = v;
      };
      typ2.wrapped = true;
      typ2.ptr = $newType(4, $kindPtr, "*" + string, false, "", false, $arrayPtrCtor());
      typ2.init = (elem, len) => {
        typ2.elem = elem;
        typ2.len = len;
        typ2.comparable = elem.comparable;
        typ2.keyFor = (x) => {
          return Array.prototype.join.call($mapArray(x, (e) => {
            return String(elem.keyFor(e)).replace(/\\/g, "\\\\").replace(/\$/g, "\\$");
          }), "$");
        };
        typ2.copy = (dst, src) => {
          if (src.length === void 0) {
            if (src.$length < dst.length) {
              $throwRuntimeError("cannot convert slice with length " + src.$length + " to array or pointer to array with length " + dst.length);
            }
            $copyArray(dst, src.$array, 0, 0, dst.length, elem);
          } else {
            $copyArray(dst, src, 0, 0, src.length, elem);
          }
        };
        typ2.ptr.init(typ2);
        Object.defineProperty(typ2.ptr.nil, "nilCheck", { get: $throwNilPointerError });
      };
      break;
    case $kindChan:
      typ2 = function(v) {
        this.$val = v;
      };
      typ2.wrapped = true;
      typ2.keyFor = $idKey;
      typ2.init = (elem, sendOnly, recvOnly) => {
        typ2.elem = elem;
        typ2.sendOnly = sendOnly;
        typ2.recvOnly = recvOnly;
      };
      break;
    case $kindFunc:
      typ2 = function(v) {
        this.$val = v;
      };
      typ2.wrapped = true;
      typ2.init = (params, results, variadic) => {
        typ2.params = params;
        typ2.results = results;
        typ2.variadic = variadic;
        typ2.comparable = false;
      };
      break;
    case $kindInterface:
      typ2 = { implementedBy: {}, missingMethodFor: {} };
      typ2.keyFor = $ifaceKeyFor;
      typ2.init = (methods) => {
        typ2.methods = methods;
        methods.forEach((m) => {
          $ifaceNil[m.prop] = $throwNilPointerError;
        });
      };
      break;
    case $kindMap:
      typ2 = function(v) {
        this.$val = v;
      };
      typ2.wrapped = true;
      typ2.init = (key, elem) => {
        typ2.key = key;
        typ2.elem = elem;
        typ2.comparable = false;
      };
      break;
    case $kindPtr:
      typ2 = constructor || function(getter, setter, target) {
        this.$get = getter;
        this.$set = setter;
        this.$target = target;
        this.$val = this;
      };
      typ2.keyFor = $idKey;
      typ2.init = (elem) => {
        typ2.elem = elem;
        typ2.wrapped = elem.kind === $kindArray;
        typ2.nil = new typ2($throwNilPointerError, $throwNilPointerError);
      };
      break;
    case $kindSlice:
      typ2 = function(array) {
        if (array.constructor !== typ2.nativeArray) {
          array = new typ2.nativeArray(array);
        }
        this.$array = array;
        this.$offset = 0;
        this.$length = array.length;
        this.$capacity = array.length;
        this.$val = this;
      };
      typ2.init = (elem) => {
        typ2.elem = elem;
        typ2.comparable = false;
        typ2.nativeArray = $nativeArray(elem.kind);
        typ2.nil = new typ2([]);
        Object.freeze(typ2.nil);
      };
      break;
    case $kindStruct:
      typ2 = function(v) {
        this.$val = v;
      };
      typ2.wrapped = true;
      typ2.ptr = $newType(4, $kindPtr, "*" + string, false, pkg, exported, constructor);
      typ2.ptr.elem = typ2;
      typ2.ptr.prototype.$get = function() {
        return this;
      };
      typ2.ptr.prototype.$set = function(v) {
        typ2.copy(this, v);
      };
      typ2.init = (pkgPath, fields) => {
        typ2.pkgPath = pkgPath;
        typ2.fields = fields;
        fields.forEach((f) => {
          if (!f.typ.comparable) {
            typ2.comparable = false;
          }
        });
        typ2.keyFor = (x) => {
          var val = x.$val;
          return $mapArray(fields, (f) => {
            return String(f.typ.keyFor(val[f.prop])).replace(/\\/g, "\\\\").replace(/\$/g, "\\$");
          }).join("$");
        };
        typ2.copy = (dst, src) => {
          for (var i = 0; i < fields.length; i++) {
            var f = fields[i];
            switch (f.typ.kind) {
              case $kindArray:
              case $kindStruct:
                f.typ.copy(dst[f.prop], src[f.prop]);
                continue;
              default:
                dst[f.prop] = src[f.prop];
                continue;
            }
          }
        };
        var properties = {};
        fields.forEach((f) => {
          properties[f.prop] = { get: $throwNilPointerError, set: $throwNilPointerError };
        });
        typ2.ptr.nil = Object.create(constructor.prototype, properties);
        typ2.ptr.nil.$val = typ2.ptr.nil;
        $addMethodSynthesizer(() => {
          var synthesizeMethod = (target, m, f) => {
            if (target.prototype[m.prop] !== void 0) {
              return;
            }
            target.prototype[m.prop] = function(...args) {
              var v = this.$val[f.prop];
              if (f.typ === $jsObjectPtr) {
                v = new $jsObjectPtr(v);
              }
              if (v.$val === void 0) {
                v = new f.typ(v);
              }
              return v[m.prop](...args);
            };
          };
          fields.forEach((f) => {
            if (f.embedded) {
              $methodSet(f.typ).forEach((m) => {
                synthesizeMethod(typ2, m, f);
                synthesizeMethod(typ2.ptr, m, f);
              });
              $methodSet($ptrType(f.typ)).forEach((m) => {
                synthesizeMethod(typ2.ptr, m, f);
              });
            }
          });
        });
      };
      break;
    default:
      $panic(new $String("invalid kind: " + kind));
  }
  switch (kind) {
    case $kindBool:
    case $kindMap:
      typ2.zero = () => {
        return false;
      };
      break;
    case $kindInt:
    case $kindInt8:
    case $kindInt16:
    case $kindInt32:
    case $kindUint:
    case $kindUint8:
    case $kindUint16:
    case $kindUint32:
    case $kindUintptr:
    case $kindUnsafePointer:
    case $kindFloat32:
    case $kindFloat64:
      typ2.zero = () => {
        return 0;
      };
      break;
    case $kindString:
      typ2.zero = () => {
        return "";
      };
      break;
    case $kindInt64:
    case $kindUint64:
    case $kindComplex64:
    case $kindComplex128:
      var zero = new typ2(0, 0);
      typ2.zero = () => {
        return zero;
      };
      break;
    case $kindPtr:
    case $kindSlice:
      typ2.zero = () => {
        return typ2.nil;
      };
      break;
    case $kindChan:
      typ2.zero = () => {
        return $chanNil;
      };
      break;
    case $kindFunc:
      typ2.zero = () => {
        return $throwNilPointerError;
      };
      break;
    case $kindInterface:
      typ2.zero = () => {
        return $ifaceNil;
      };
      break;
    case $kindArray:
      typ2.zero = () => {
        var arrayClass = $nativeArray(typ2.elem.kind);
        if (arrayClass !== Array) {
          return new arrayClass(typ2.len);
        }
        var array = new Array(typ2.len);
        for (var i = 0; i < typ2.len; i++) {
          array[i] = typ2.elem.zero();
        }
        return array;
      };
      break;
    case $kindStruct:
      typ2.zero = () => {
        return new typ2.ptr();
      };
      break;
    default:
      $panic(new $String("invalid kind: " + kind));
  }
  typ2.id = $typeIDCounter;
  $typeIDCounter++;
  typ2.size = size;
  typ2.kind = kind;
  typ2.string = string;
  typ2.named = named;
  typ2.pkg = pkg;
  typ2.exported = exported;
  typ2.methods = [];
  typ2.methodSetCache = null;
  typ2.comparable = true;
  return typ2;
};
var $methodSet = (typ2) => {
  if (typ2.methodSetCache !== null) {
    return typ2.methodSetCache;
  }
  var base = {};
  var isPtr = typ2.kind === $kindPtr;
  if (isPtr && typ2.elem.kind === $kindInterface) {
    typ2.methodSetCache = [];
    return [];
  }
  var current = [{ typ: isPtr ? typ2.elem : typ2, indirect: isPtr }];
  var seen = {};
  while (current.length > 0) {
    var next = [];
    var mset = [];
    current.forEach((e) => {
      if (seen[e.typ.string]) {
        return;
      }
      seen[e.typ.string] = true;
      if (e.typ.named) {
        mset = mset.concat(e.typ.methods);
        if (e.indirect) {
          mset = mset.concat($ptrType(e.typ).methods);
        }
      }
      switch (e.typ.kind) {
        case $kindStruct:
          e.typ.fields.forEach((f) => {
            if (f.embedded) {
              var fTyp = f.typ;
              var fIsPtr = fTyp.kind === $kindPtr;
              next.push({ typ: fIsPtr ? fTyp.elem : fTyp, indirect: e.indirect || fIsPtr });
            }
          });
          break;
        case $kindInterface:
          mset = mset.concat(e.typ.methods);
          break;
      }
    });
    mset.forEach((m) => {
      if (base[m.name] === void 0) {
        base[m.name] = m;
      }
    });
    current = next;
  }
  typ2.methodSetCache = [];
  Object.keys(base).sort().forEach((name) => {
    typ2.methodSetCache.push(base[name]);
  });
  return typ2.methodSetCache;
};
var $Bool = $newType(1, $kindBool, "bool", true, "", false, null);
var $Int = $newType(4, $kindInt, "int", true, "", false, null);
var $Int8 = $newType(1, $kindInt8, "int8", true, "", false, null);
var $Int16 = $newType(2, $kindInt16, "int16", true, "", false, null);
var $Int32 = $newType(4, $kindInt32, "int32", true, "", false, null);
var $Int64 = $newType(8, $kindInt64, "int64", true, "", false, null);
var $Uint = $newType(4, $kindUint, "uint", true, "", false, null);
var $Uint8 = $newType(1, $kindUint8, "uint8", true, "", false, null);
var $Uint16 = $newType(2, $kindUint16, "uint16", true, "", false, null);
var $Uint32 = $newType(4, $kindUint32, "uint32", true, "", false, null);
var $Uint64 = $newType(8, $kindUint64, "uint64", true, "", false, null);
var $Uintptr = $newType(4, $kindUintptr, "uintptr", true, "", false, null);
var $Float32 = $newType(4, $kindFloat32, "float32", true, "", false, null);
var $Float64 = $newType(8, $kindFloat64, "float64", true, "", false, null);
var $Complex64 = $newType(8, $kindComplex64, "complex64", true, "", false, null);
var $Complex128 = $newType(16, $kindComplex128, "complex128", true, "", false, null);
var $String = $newType(8, $kindString, "string", true, "", false, null);
var $UnsafePointer = $newType(4, $kindUnsafePointer, "unsafe.Pointer", true, "unsafe", false, null);
var $nativeArray = (elemKind) => {
  switch (elemKind) {
    case $kindInt:
      return Int32Array;
    case $kindInt8:
      return Int8Array;
    case $kindInt16:
      return Int16Array;
    case $kindInt32:
      return Int32Array;
    case $kindUint:
      return Uint32Array;
    case $kindUint8:
      return Uint8Array;
    case $kindUint16:
      return Uint16Array;
    case $kindUint32:
      return Uint32Array;
    case $kindUintptr:
      return Uint32Array;
    case $kindFloat32:
      return Float32Array;
    case $kindFloat64:
      return Float64Array;
    default:
      return Array;
  }
};
var $toNativeArray = (elemKind, array) => {
  var nativeArray = $nativeArray(elemKind);
  if (nativeArray === Array) {
    return array;
  }
  return new nativeArray(array);
};
var $arrayTypes = {};
var $arrayType = (elem, len) => {
  var typeKey = elem.id + "$" + len;
  var typ2 = $arrayTypes[typeKey];
  if (typ2 === void 0) {
    typ2 = $newType(elem.size * len, $kindArray, "[" + len + "]" + elem.string, false, "", false, null);
    $arrayTypes[typeKey] = typ2;
    typ2.init(elem, len);
  }
  return typ2;
};
var $chanType = (elem, sendOnly, recvOnly) => {
  var string = (recvOnly ? "<-" : "") + "chan" + (sendOnly ? "<- " : " ");
  if (!sendOnly && !recvOnly && elem.string[0] == "<") {
    string += "(" + elem.string + ")";
  } else {
    string += elem.string;
  }
  var field = sendOnly ? "SendChan" : recvOnly ? "RecvChan" : "Chan";
  var typ2 = elem[field];
  if (typ2 === void 0) {
    typ2 = $newType(4, $kindChan, string, false, "", false, null);
    elem[field] = typ2;
    typ2.init(elem, sendOnly, recvOnly);
  }
  return typ2;
};
var $Chan = function(elem, capacity) {
  if (capacity < 0 || capacity > 2147483647) {
    $throwRuntimeError("makechan: size out of range");
  }
  this.$elem = elem;
  this.$capacity = capacity;
  this.$buffer = [];
  this.$sendQueue = [];
  this.$recvQueue = [];
  this.$closed = false;
};
var $chanNil = new $Chan(null, 0);
$chanNil.$sendQueue = $chanNil.$recvQueue = { length: 0, push() {
}, shift() {
  return void 0;
}, indexOf() {
  return -1;
} };
var $funcTypes = {};
var $funcType = (params, results, variadic) => {
  var typeKey = $mapArray(params, (p) => {
    return p.id;
  }).join(",") + "$" + $mapArray(results, (r) => {
    return r.id;
  }).join(",") + "$" + variadic;
  var typ2 = $funcTypes[typeKey];
  if (typ2 === void 0) {
    var paramTypes = $mapArray(params, (p) => {
      return p.string;
    });
    if (variadic) {
      paramTypes[paramTypes.length - 1] = "..." + paramTypes[paramTypes.length - 1].substring(2);
    }
    var string = "func(" + paramTypes.join(", ") + ")";
    if (results.length === 1) {
      string += " " + results[0].string;
    } else if (results.length > 1) {
      string += " (" + $mapArray(results, (r) => {
        return r.string;
      }).join(", ") + ")";
    }
    typ2 = $newType(4, $kindFunc, string, false, "", false, null);
    $funcTypes[typeKey] = typ2;
    typ2.init(params, results, variadic);
  }
  return typ2;
};
var $interfaceTypes = {};
var $interfaceType = (methods) => {
  var typeKey = $mapArray(methods, (m) => {
    return m.pkg + "," + m.name + "," + m.typ.id;
  }).join("$");
  var typ2 = $interfaceTypes[typeKey];
  if (typ2 === void 0) {
    var string = "interface {}";
    if (methods.length !== 0) {
      string = "interface { " + $mapArray(methods, (m) => {
        return (m.pkg !== "" ? m.pkg + "." : "") + m.name + m.typ.string.substring(4);
      }).join("; ") + " }";
    }
    typ2 = $newType(8, $kindInterface, string, false, "", false, null);
    $interfaceTypes[typeKey] = typ2;
    typ2.init(methods);
  }
  return typ2;
};
var $emptyInterface = $interfaceType([]);
var $ifaceNil = {};
var $error = $newType(8, $kindInterface, "error", true, "", false, null);
$error.init([{ prop: "Error", name: "Error", pkg: "", typ: $funcType([], [$String], false) }]);
var $mapTypes = {};
var $mapType = (key, elem) => {
  var typeKey = key.id + "$" + elem.id;
  var typ2 = $mapTypes[typeKey];
  if (typ2 === void 0) {
    typ2 = $newType(4, $kindMap, "map[" + key.string + "]" + elem.string, false, "", false, null);
    $mapTypes[typeKey] = typ2;
    typ2.init(key, elem);
  }
  return typ2;
};
var $makeMap = (keyForFunc, entries) => {
  var m = /* @__PURE__ */ new Map();
  for (var i = 0; i < entries.length; i++) {
    var e = entries[i];
    m.set(keyForFunc(e.k), e);
  }
  return m;
};
var $ptrType = (elem) => {
  var typ2 = elem.ptr;
  if (typ2 === void 0) {
    typ2 = $newType(4, $kindPtr, "*" + elem.string, false, "", elem.exported, null);
    elem.ptr = typ2;
    typ2.init(elem);
  }
  return typ2;
};
var $newDataPointer = (data, constructor) => {
  if (constructor.elem.kind === $kindStruct) {
    return data;
  }
  return new constructor(() => {
    return data;
  }, (v) => {
    data = v;
  });
};
var $indexPtr = (array, index, constructor) => {
  if (array.buffer) {
    var cache = array.buffer.$ptr = array.buffer.$ptr || {};
    var typeCache = cache[array.name] = cache[array.name] || {};
    var cacheIdx = array.BYTES_PER_ELEMENT * index + array.byteOffset;
    return typeCache[cacheIdx] || (typeCache[cacheIdx] = new constructor(() => {
      return array[index];
    }, (v) => {
      array[index] = v;
    }));
  } else {
    array.$ptr = array.$ptr || {};
    return array.$ptr[index] || (array.$ptr[index] = new constructor(() => {
      return array[index];
    }, (v) => {
      array[index] = v;
    }));
  }
};
var $sliceType = (elem) => {
  var typ2 = elem.slice;
  if (typ2 === void 0) {
    typ2 = $newType(12, $kindSlice, "[]" + elem.string, false, "", false, null);
    elem.slice = typ2;
    typ2.init(elem);
  }
  return typ2;
};
var $makeSlice = (typ2, length, capacity = length) => {
  if (length < 0 || length > 2147483647) {
    $throwRuntimeError("makeslice: len out of range");
  }
  if (capacity < 0 || capacity < length || capacity > 2147483647) {
    $throwRuntimeError("makeslice: cap out of range");
  }
  var array = new typ2.nativeArray(capacity);
  if (typ2.nativeArray === Array) {
    for (var i = 0; i < capacity; i++) {
      array[i] = typ2.elem.zero();
    }
  }
  var slice = new typ2(array);
  slice.$length = length;
  return slice;
};
var $structTypes = {};
var $structType = (pkgPath, fields) => {
  var typeKey = $mapArray(fields, (f) => {
    return f.name + "," + f.typ.id + "," + f.tag;
  }).join("$");
  var typ2 = $structTypes[typeKey];
  if (typ2 === void 0) {
    var string = "struct { " + $mapArray(fields, (f) => {
      var str = f.typ.string + (f.tag !== "" ? ' "' + f.tag.replace(/\\/g, "\\\\").replace(/"/g, '\\"') + '"' : "");
      if (f.embedded) {
        return str;
      }
      return f.name + " " + str;
    }).join("; ") + " }";
    if (fields.length === 0) {
      string = "struct {}";
    }
    typ2 = $newType(0, $kindStruct, string, false, "", false, function(...args) {
      this.$val = this;
      for (var i = 0; i < fields.length; i++) {
        var f = fields[i];
        if (f.name == "_") {
          continue;
        }
        var arg = args[i];
        this[f.prop] = arg !== void 0 ? arg : f.typ.zero();
      }
    });
    $structTypes[typeKey] = typ2;
    typ2.init(pkgPath, fields);
  }
  return typ2;
};
var $assertType = (value, type, returnTuple) => {
  var isInterface = type.kind === $kindInterface, ok, missingMethod = "";
  if (value === $ifaceNil) {
    ok = false;
  } else if (!isInterface) {
    ok = value.constructor === type;
  } else {
    var valueTypeString = value.constructor.string;
    ok = type.implementedBy[valueTypeString];
    if (ok === void 0) {
      ok = true;
      var valueMethodSet = $methodSet(value.constructor);
      var interfaceMethods = type.methods;
      for (var i = 0; i < interfaceMethods.length; i++) {
        var tm = interfaceMethods[i];
        var found = false;
        for (var j = 0; j < valueMethodSet.length; j++) {
          var vm = valueMethodSet[j];
          if (vm.name === tm.name && vm.pkg === tm.pkg && vm.typ === tm.typ) {
            found = true;
            break;
          }
        }
        if (!found) {
          ok = false;
          type.missingMethodFor[valueTypeString] = tm.name;
          break;
        }
      }
      type.implementedBy[valueTypeString] = ok;
    }
    if (!ok) {
      missingMethod = type.missingMethodFor[valueTypeString];
    }
  }
  if (!ok) {
    if (returnTuple) {
      return [type.zero(), false];
    }
    $panic(new $packages["runtime"].TypeAssertionError.ptr(
      $packages["runtime"]._type.ptr.nil,
      value === $ifaceNil ? $packages["runtime"]._type.ptr.nil : new $packages["runtime"]._type.ptr(value.constructor.string),
      new $packages["runtime"]._type.ptr(type.string),
      missingMethod
    ));
  }
  if (!isInterface) {
    value = value.$val;
  }
  if (type === $jsObjectPtr) {
    value = value.object;
  }
  return returnTuple ? [value, true] : value;
};
var $stackDepthOffset = 0;
var $getStackDepth = () => {
  var err = new Error();
  if (err.stack === void 0) {
    return void 0;
  }
  return $stackDepthOffset + err.stack.split("\n").length;
};
var $panicStackDepth = null, $panicValue;
var $callDeferred = (deferred, jsErr, fromPanic) => {
  if (!fromPanic && deferred !== null && $curGoroutine.deferStack.indexOf(deferred) == -1) {
    throw jsErr;
  }
  if (jsErr !== null) {
    var newErr = null;
    try {
      $panic(new $jsErrorPtr(jsErr));
    } catch (err) {
      newErr = err;
    }
    $callDeferred(deferred, newErr);
    return;
  }
  if ($curGoroutine.asleep) {
    return;
  }
  $stackDepthOffset--;
  var outerPanicStackDepth = $panicStackDepth;
  var outerPanicValue = $panicValue;
  var localPanicValue = $curGoroutine.panicStack.pop();
  if (localPanicValue !== void 0) {
    $panicStackDepth = $getStackDepth();
    $panicValue = localPanicValue;
  }
  try {
    while (true) {
      if (deferred === null) {
        deferred = $curGoroutine.deferStack[$curGoroutine.deferStack.length - 1];
        if (deferred === void 0) {
          $panicStackDepth = null;
          if (localPanicValue.Object instanceof Error) {
            throw localPanicValue.Object;
          }
          var msg;
          if (localPanicValue.constructor === $String) {
            msg = localPanicValue.$val;
          } else if (localPanicValue.Error !== void 0) {
            msg = localPanicValue.Error();
          } else if (localPanicValue.String !== void 0) {
            msg = localPanicValue.String();
          } else {
            msg = localPanicValue;
          }
          throw new Error(msg);
        }
      }
      var call = deferred.pop();
      if (call === void 0) {
        $curGoroutine.deferStack.pop();
        if (localPanicValue !== void 0) {
          deferred = null;
          continue;
        }
        return;
      }
      var r = call[0].apply(call[2], call[1]);
      if (r && r.$blk !== void 0) {
        deferred.push([r.$blk, [], r]);
        if (fromPanic) {
          throw null;
        }
        return;
      }
      if (localPanicValue !== void 0 && $panicStackDepth === null) {
        if (fromPanic) {
          throw null;
        }
        return;
      }
    }
  } catch (e) {
    if (fromPanic) {
      throw e;
    }
    $callDeferred(deferred, e, fromPanic);
  } finally {
    if (localPanicValue !== void 0) {
      if ($panicStackDepth !== null) {
        $curGoroutine.panicStack.push(localPanicValue);
      }
      $panicStackDepth = outerPanicStackDepth;
      $panicValue = outerPanicValue;
    }
    $stackDepthOffset++;
  }
};
var $panic = (value) => {
  $curGoroutine.panicStack.push(value);
  $callDeferred(null, null, true);
};
var $recover = () => {
  if ($panicStackDepth === null || $panicStackDepth !== void 0 && $panicStackDepth !== $getStackDepth() - 2) {
    return $ifaceNil;
  }
  $panicStackDepth = null;
  return $panicValue;
};
var $throw = (err) => {
  throw err;
};
var $noGoroutine = { asleep: false, exit: false, deferStack: [], panicStack: [] };
var $curGoroutine = $noGoroutine, $totalGoroutines = 0, $awakeGoroutines = 0, $checkForDeadlock = true, $exportedFunctions = 0;
var $mainFinished = false;
var $go = (fun, args) => {
  $totalGoroutines++;
  $awakeGoroutines++;
  var $goroutine = () => {
    try {
      $curGoroutine = $goroutine;
      var r = fun(...args);
      if (r && r.$blk !== void 0) {
        fun = () => {
          return r.$blk();
        };
        args = [];
        return;
      }
      $goroutine.exit = true;
    } catch (err) {
      if (!$goroutine.exit) {
        throw err;
      }
    } finally {
      $curGoroutine = $noGoroutine;
      if ($goroutine.exit) {
        $totalGoroutines--;
        $goroutine.asleep = true;
      }
      if ($goroutine.asleep) {
        $awakeGoroutines--;
        if (!$mainFinished && $awakeGoroutines === 0 && $checkForDeadlock && $exportedFunctions === 0) {
          console.error("fatal error: all goroutines are asleep - deadlock!");
          if ($global.process !== void 0) {
            $global.process.exit(2);
          }
        }
      }
    }
  };
  $goroutine.asleep = false;
  $goroutine.exit = false;
  $goroutine.deferStack = [];
  $goroutine.panicStack = [];
  $schedule($goroutine);
};
var $scheduled = [];
var $runScheduled = () => {
  var nextRun = setTimeout($runScheduled);
  try {
    var start = Date.now();
    var r;
    while ((r = $scheduled.shift()) !== void 0) {
      r();
      var elapsed = Date.now() - start;
      if (elapsed > 4 || elapsed < 0) {
        break;
      }
    }
  } finally {
    if ($scheduled.length == 0) {
      clearTimeout(nextRun);
    }
  }
};
var $schedule = (goroutine) => {
  if (goroutine.asleep) {
    goroutine.asleep = false;
    $awakeGoroutines++;
  }
  $scheduled.push(goroutine);
  if ($curGoroutine === $noGoroutine) {
    $runScheduled();
  }
};
var $setTimeout = (f, t) => {
  $awakeGoroutines++;
  return setTimeout(() => {
    $awakeGoroutines--;
    f();
  }, t);
};
var $block = () => {
  if ($curGoroutine === $noGoroutine) {
    $throwRuntimeError("cannot block in JavaScript callback, fix by wrapping code in goroutine");
  }
  $curGoroutine.asleep = true;
};
var $restore = (context, params) => {
  if (context !== void 0 && context.$blk !== void 0) {
    return context;
  }
  return params;
};
var $send = (chan, value) => {
  if (chan.$closed) {
    $throwRuntimeError("send on closed channel");
  }
  var queuedRecv = chan.$recvQueue.shift();
  if (queuedRecv !== void 0) {
    queuedRecv([value, true]);
    return;
  }
  if (chan.$buffer.length < chan.$capacity) {
    chan.$buffer.push(value);
    return;
  }
  var thisGoroutine = $curGoroutine;
  var closedDuringSend;
  chan.$sendQueue.push((closed) => {
    closedDuringSend = closed;
    $schedule(thisGoroutine);
    return value;
  });
  $block();
  return {
    $blk() {
      if (closedDuringSend) {
        $throwRuntimeError("send on closed channel");
      }
    }
  };
};
var $recv = (chan) => {
  var queuedSend = chan.$sendQueue.shift();
  if (queuedSend !== void 0) {
    chan.$buffer.push(queuedSend(false));
  }
  var bufferedValue = chan.$buffer.shift();
  if (bufferedValue !== void 0) {
    return [bufferedValue, true];
  }
  if (chan.$closed) {
    return [chan.$elem.zero(), false];
  }
  var thisGoroutine = $curGoroutine;
  var f = { $blk() {
    return this.value;
  } };
  var queueEntry = (v) => {
    f.value = v;
    $schedule(thisGoroutine);
  };
  chan.$recvQueue.push(queueEntry);
  $block();
  return f;
};
var $close = (chan) => {
  if (chan.$closed) {
    $throwRuntimeError("close of closed channel");
  }
  chan.$closed = true;
  while (true) {
    var queuedSend = chan.$sendQueue.shift();
    if (queuedSend === void 0) {
      break;
    }
    queuedSend(true);
  }
  while (true) {
    var queuedRecv = chan.$recvQueue.shift();
    if (queuedRecv === void 0) {
      break;
    }
    queuedRecv([chan.$elem.zero(), false]);
  }
};
var $select = (comms) => {
  var ready = [];
  var selection = -1;
  for (var i = 0; i < comms.length; i++) {
    var comm = comms[i];
    var chan = comm[0];
    switch (comm.length) {
      case 0:
        selection = i;
        break;
      case 1:
        if (chan.$sendQueue.length !== 0 || chan.$buffer.length !== 0 || chan.$closed) {
          ready.push(i);
        }
        break;
      case 2:
        if (chan.$closed) {
          $throwRuntimeError("send on closed channel");
        }
        if (chan.$recvQueue.length !== 0 || chan.$buffer.length < chan.$capacity) {
          ready.push(i);
        }
        break;
    }
  }
  if (ready.length !== 0) {
    selection = ready[Math.floor(Math.random() * ready.length)];
  }
  if (selection !== -1) {
    var comm = comms[selection];
    switch (comm.length) {
      case 0:
        return [selection];
      case 1:
        return [selection, $recv(comm[0])];
      case 2:
        $send(comm[0], comm[1]);
        return [selection];
    }
  }
  var entries = [];
  var thisGoroutine = $curGoroutine;
  var f = { $blk() {
    return this.selection;
  } };
  var removeFromQueues = () => {
    for (var i2 = 0; i2 < entries.length; i2++) {
      var entry = entries[i2];
      var queue = entry[0];
      var index = queue.indexOf(entry[1]);
      if (index !== -1) {
        queue.splice(index, 1);
      }
    }
  };
  for (var i = 0; i < comms.length; i++) {
    ((i2) => {
      var comm2 = comms[i2];
      switch (comm2.length) {
        case 1:
          var queueEntry = (value) => {
            f.selection = [i2, value];
            removeFromQueues();
            $schedule(thisGoroutine);
          };
          entries.push([comm2[0].$recvQueue, queueEntry]);
          comm2[0].$recvQueue.push(queueEntry);
          break;
        case 2:
          var queueEntry = () => {
            if (comm2[0].$closed) {
              $throwRuntimeError("send on closed channel");
            }
            f.selection = [i2];
            removeFromQueues();
            $schedule(thisGoroutine);
            return comm2[1];
          };
          entries.push([comm2[0].$sendQueue, queueEntry]);
          comm2[0].$sendQueue.push(queueEntry);
          break;
      }
    })(i);
  }
  $block();
  return f;
};
var $jsObjectPtr, $jsErrorPtr;
var $needsExternalization = (t) => {
  switch (t.kind) {
    case $kindBool:
    case $kindInt:
    case $kindInt8:
    case $kindInt16:
    case $kindInt32:
    case $kindUint:
    case $kindUint8:
    case $kindUint16:
    case $kindUint32:
    case $kindUintptr:
    case $kindFloat32:
    case $kindFloat64:
      return false;
    default:
      return t !== $jsObjectPtr;
  }
};
var $externalize = (v, t, makeWrapper) => {
  if (t === $jsObjectPtr) {
    return v;
  }
  switch (t.kind) {
    case $kindBool:
    case $kindInt:
    case $kindInt8:
    case $kindInt16:
    case $kindInt32:
    case $kindUint:
    case $kindUint8:
    case $kindUint16:
    case $kindUint32:
    case $kindUintptr:
    case $kindFloat32:
    case $kindFloat64:
      return v;
    case $kindInt64:
    case $kindUint64:
      return $flatten64(v);
    case $kindArray:
      if ($needsExternalization(t.elem)) {
        return $mapArray(v, (e) => {
          return $externalize(e, t.elem, makeWrapper);
        });
      }
      return v;
    case $kindFunc:
      return $externalizeFunction(v, t, false, makeWrapper);
    case $kindInterface:
      if (v === $ifaceNil) {
        return null;
      }
      if (v.constructor === $jsObjectPtr) {
        return v.$val.object;
      }
      return $externalize(v.$val, v.constructor, makeWrapper);
    case $kindMap:
      if (v.keys === void 0) {
        return null;
      }
      var m = {};
      var keys = Array.from(v.keys());
      for (var i = 0; i < keys.length; i++) {
        var entry = v.get(keys[i]);
        m[$externalize(entry.k, t.key, makeWrapper)] = $externalize(entry.v, t.elem, makeWrapper);
      }
      return m;
    case $kindPtr:
      if (v === t.nil) {
        return null;
      }
      return $externalize(v.$get(), t.elem, makeWrapper);
    case $kindSlice:
      if (v === v.constructor.nil) {
        return null;
      }
      if ($needsExternalization(t.elem)) {
        return $mapArray($sliceToNativeArray(v), (e) => {
          return $externalize(e, t.elem, makeWrapper);
        });
      }
      return $sliceToNativeArray(v);
    case $kindString:
      if ($isASCII(v)) {
        return v;
      }
      var s = "", r;
      for (var i = 0; i < v.length; i += r[1]) {
        r = $decodeRune(v, i);
        var c = r[0];
        if (c > 65535) {
          var h = Math.floor((c - 65536) / 1024) + 55296;
          var l = (c - 65536) % 1024 + 56320;
          s += String.fromCharCode(h, l);
          continue;
        }
        s += String.fromCharCode(c);
      }
      return s;
    case $kindStruct:
      var timePkg = $packages["time"];
      if (timePkg !== void 0 && v.constructor === timePkg.Time.ptr) {
        var milli = $div64(v.UnixNano(), new $Int64(0, 1e6));
        return new Date($flatten64(milli));
      }
      var noJsObject = {};
      var searchJsObject = (v2, t2) => {
        if (t2 === $jsObjectPtr) {
          return v2;
        }
        switch (t2.kind) {
          case $kindPtr:
            if (v2 === t2.nil) {
              return noJsObject;
            }
            return searchJsObject(v2.$get(), t2.elem);
          case $kindStruct:
            if (t2.fields.length === 0) {
              return noJsObject;
            }
            var f2 = t2.fields[0];
            return searchJsObject(v2[f2.prop], f2.typ);
          case $kindInterface:
            return searchJsObject(v2.$val, v2.constructor);
          default:
            return noJsObject;
        }
      };
      var o = searchJsObject(v, t);
      if (o !== noJsObject) {
        return o;
      }
      if (makeWrapper !== void 0) {
        return makeWrapper(v);
      }
      o = {};
      for (var i = 0; i < t.fields.length; i++) {
        var f = t.fields[i];
        if (!f.exported) {
          continue;
        }
        o[f.name] = $externalize(v[f.prop], f.typ, makeWrapper);
      }
      return o;
  }
  $throwRuntimeError("cannot externalize " + t.string);
};
var $externalizeFunction = (v, t, passThis, makeWrapper) => {
  if (v === $throwNilPointerError) {
    return null;
  }
  if (v.$externalizeWrapper === void 0) {
    $checkForDeadlock = false;
    v.$externalizeWrapper = function() {
      var args = [];
      for (var i = 0; i < t.params.length; i++) {
        if (t.variadic && i === t.params.length - 1) {
          var vt = t.params[i].elem, varargs = [];
          for (var j = i; j < arguments.length; j++) {
            varargs.push($internalize(arguments[j], vt, makeWrapper));
          }
          args.push(new t.params[i](varargs));
          break;
        }
        args.push($internalize(arguments[i], t.params[i], makeWrapper));
      }
      var result = v.apply(passThis ? this : void 0, args);
      switch (t.results.length) {
        case 0:
          return;
        case 1:
          return $externalize($copyIfRequired(result, t.results[0]), t.results[0], makeWrapper);
        default:
          for (var i = 0; i < t.results.length; i++) {
            result[i] = $externalize($copyIfRequired(result[i], t.results[i]), t.results[i], makeWrapper);
          }
          return result;
      }
    };
  }
  return v.$externalizeWrapper;
};
var $internalize = (v, t, recv, seen, makeWrapper) => {
  if (t === $jsObjectPtr) {
    return v;
  }
  if (t === $jsObjectPtr.elem) {
    $throwRuntimeError("cannot internalize js.Object, use *js.Object instead");
  }
  if (v && v.__internal_object__ !== void 0) {
    return $assertType(v.__internal_object__, t, false);
  }
  var timePkg = $packages["time"];
  if (timePkg !== void 0 && t === timePkg.Time) {
    if (!(v !== null && v !== void 0 && v.constructor === Date)) {
      $throwRuntimeError("cannot internalize time.Time from " + typeof v + ", must be Date");
    }
    return timePkg.Unix(new $Int64(0, 0), new $Int64(0, v.getTime() * 1e6));
  }
  if (seen === void 0) {
    seen = /* @__PURE__ */ new Map();
  }
  if (!seen.has(t)) {
    seen.set(t, /* @__PURE__ */ new Map());
  }
  if (seen.get(t).has(v)) {
    return seen.get(t).get(v);
  }
  switch (t.kind) {
    case $kindBool:
      return !!v;
    case $kindInt:
      return parseInt(v);
    case $kindInt8:
      return parseInt(v) << 24 >> 24;
    case $kindInt16:
      return parseInt(v) << 16 >> 16;
    case $kindInt32:
      return parseInt(v) >> 0;
    case $kindUint:
      return parseInt(v);
    case $kindUint8:
      return parseInt(v) << 24 >>> 24;
    case $kindUint16:
      return parseInt(v) << 16 >>> 16;
    case $kindUint32:
    case $kindUintptr:
      return parseInt(v) >>> 0;
    case $kindInt64:
    case $kindUint64:
      return new t(0, v);
    case $kindFloat32:
    case $kindFloat64:
      return parseFloat(v);
    case $kindArray:
      if (v === null || v === void 0) {
        $throwRuntimeError("cannot internalize " + v + " as a " + t.string);
      }
      if (v.length !== t.len) {
        $throwRuntimeError("got array with wrong size from JavaScript native");
      }
      return $mapArray(v, (e) => {
        return $internalize(e, t.elem, makeWrapper);
      });
    case $kindFunc:
      return function() {
        var args = [];
        for (var i2 = 0; i2 < t.params.length; i2++) {
          if (t.variadic && i2 === t.params.length - 1) {
            var vt = t.params[i2].elem, varargs = arguments[i2];
            for (var j = 0; j < varargs.$length; j++) {
              args.push($externalize(varargs.$array[varargs.$offset + j], vt, makeWrapper));
            }
            break;
          }
          args.push($externalize(arguments[i2], t.params[i2], makeWrapper));
        }
        var result = v.apply(recv, args);
        switch (t.results.length) {
          case 0:
            return;
          case 1:
            return $internalize(result, t.results[0], makeWrapper);
          default:
            for (var i2 = 0; i2 < t.results.length; i2++) {
              result[i2] = $internalize(result[i2], t.results[i2], makeWrapper);
            }
            return result;
        }
      };
    case $kindInterface:
      if (t.methods.length !== 0) {
        $throwRuntimeError("cannot internalize " + t.string);
      }
      if (v === null) {
        return $ifaceNil;
      }
      if (v === void 0) {
        return new $jsObjectPtr(void 0);
      }
      switch (v.constructor) {
        case Int8Array:
          return new ($sliceType($Int8))(v);
        case Int16Array:
          return new ($sliceType($Int16))(v);
        case Int32Array:
          return new ($sliceType($Int))(v);
        case Uint8Array:
          return new ($sliceType($Uint8))(v);
        case Uint16Array:
          return new ($sliceType($Uint16))(v);
        case Uint32Array:
          return new ($sliceType($Uint))(v);
        case Float32Array:
          return new ($sliceType($Float32))(v);
        case Float64Array:
          return new ($sliceType($Float64))(v);
        case Array:
          return $internalize(v, $sliceType($emptyInterface), makeWrapper);
        case Boolean:
          return new $Bool(!!v);
        case Date:
          if (timePkg === void 0) {
            return new $jsObjectPtr(v);
          }
          return new timePkg.Time($internalize(v, timePkg.Time, makeWrapper));
        case (() => {
        }).constructor:
          var funcType = $funcType([$sliceType($emptyInterface)], [$jsObjectPtr], true);
          return new funcType($internalize(v, funcType, makeWrapper));
        case Number:
          return new $Float64(parseFloat(v));
        case String:
          return new $String($internalize(v, $String, makeWrapper));
        default:
          if ($global.Node && v instanceof $global.Node) {
            return new $jsObjectPtr(v);
          }
          var mapType = $mapType($String, $emptyInterface);
          return new mapType($internalize(v, mapType, recv, seen, makeWrapper));
      }
    case $kindMap:
      var m = /* @__PURE__ */ new Map();
      seen.get(t).set(v, m);
      var keys = $keys(v);
      for (var i = 0; i < keys.length; i++) {
        var k = $internalize(keys[i], t.key, recv, seen, makeWrapper);
        m.set(t.key.keyFor(k), { k, v: $internalize(v[keys[i]], t.elem, recv, seen, makeWrapper) });
      }
      return m;
    case $kindPtr:
      if (t.elem.kind === $kindStruct) {
        return $internalize(v, t.elem, makeWrapper);
      }
    case $kindSlice:
      if (v == null) {
        return t.zero();
      }
      return new t($mapArray(v, (e) => {
        return $internalize(e, t.elem, makeWrapper);
      }));
    case $kindString:
      v = String(v);
      if ($isASCII(v)) {
        return v;
      }
      var s = "";
      var i = 0;
      while (i < v.length) {
        var h = v.charCodeAt(i);
        if (55296 <= h && h <= 56319) {
          var l = v.charCodeAt(i + 1);
          var c = (h - 55296) * 1024 + l - 56320 + 65536;
          s += $encodeRune(c);
          i += 2;
          continue;
        }
        s += $encodeRune(h);
        i++;
      }
      return s;
    case $kindStruct:
      var noJsObject = {};
      var searchJsObject = (t2) => {
        if (t2 === $jsObjectPtr) {
          return v;
        }
        if (t2 === $jsObjectPtr.elem) {
          $throwRuntimeError("cannot internalize js.Object, use *js.Object instead");
        }
        switch (t2.kind) {
          case $kindPtr:
            return searchJsObject(t2.elem);
          case $kindStruct:
            if (t2.fields.length === 0) {
              return noJsObject;
            }
            var f2 = t2.fields[0];
            var o2 = searchJsObject(f2.typ);
            if (o2 !== noJsObject) {
              var n2 = new t2.ptr();
              n2[f2.prop] = o2;
              return n2;
            }
            return noJsObject;
          default:
            return noJsObject;
        }
      };
      var o = searchJsObject(t);
      if (o !== noJsObject) {
        return o;
      }
      var n = new t.ptr();
      for (var i = 0; i < t.fields.length; i++) {
        var f = t.fields[i];
        if (!f.exported) {
          continue;
        }
        var jsProp = v[f.name];
        n[f.prop] = $internalize(jsProp, f.typ, recv, seen, makeWrapper);
      }
      return n;
  }
  $throwRuntimeError("cannot internalize " + t.string);
};
var $copyIfRequired = (v, typ) => {
  if (v && v.constructor && v.constructor.copy) {
    return new v.constructor($clone(v.$val, v.constructor));
  }
  if (typ.copy) {
    var clone = typ.zero();
    typ.copy(clone, v);
    return clone;
  }
  return v;
};
var $isASCII = (s) => {
  for (var i = 0; i < s.length; i++) {
    if (s.charCodeAt(i) >= 128) {
      return false;
    }
  }
  return true;
};

$packages["github.com/gopherjs/gopherjs/js"] = (function() {
	var $pkg = {}, $init, Object, Error, sliceType, ptrType, ptrType$1, init;
	Object = $newType(0, $kindStruct, "js.Object", true, "github.com/gopherjs/gopherjs/js", true, function(object_) {
		this.$val = this;
		if (arguments.length === 0) {
			this.object = null;
			return;
		}
		this.object = object_;
	});
	Error = $newType(0, $kindStruct, "js.Error", true, "github.com/gopherjs/gopherjs/js", true, function(Object_) {
		this.$val = this;
		if (arguments.length === 0) {
			this.Object = null;
			return;
		}
		this.Object = Object_;
	});
	$pkg.Object = Object;
	$pkg.Error = Error;
	$pkg.$finishSetup = function() {
		sliceType = $sliceType($emptyInterface);
		ptrType = $ptrType(Object);
		ptrType$1 = $ptrType(Error);
		$ptrType(Object).prototype.Get = function Get(key) {
			var key, o;
			o = this;
			return o.object[$externalize(key, $String)];
		};
		$ptrType(Object).prototype.Set = function Set(key, value) {
			var key, o, value;
			o = this;
			o.object[$externalize(key, $String)] = $externalize(value, $emptyInterface);
		};
		$ptrType(Object).prototype.Delete = function Delete(key) {
			var key, o;
			o = this;
			delete o.object[$externalize(key, $String)];
		};
		$ptrType(Object).prototype.Length = function Length() {
			var o;
			o = this;
			return $parseInt(o.object.length);
		};
		$ptrType(Object).prototype.Index = function Index(i) {
			var i, o;
			o = this;
			return o.object[i];
		};
		$ptrType(Object).prototype.SetIndex = function SetIndex(i, value) {
			var i, o, value;
			o = this;
			o.object[i] = $externalize(value, $emptyInterface);
		};
		$ptrType(Object).prototype.Call = function Call(name, args) {
			var args, name, o, obj;
			o = this;
			return (obj = o.object, obj[$externalize(name, $String)].apply(obj, $externalize(args, sliceType)));
		};
		$ptrType(Object).prototype.Invoke = function Invoke(args) {
			var args, o;
			o = this;
			return o.object.apply(undefined, $externalize(args, sliceType));
		};
		$ptrType(Object).prototype.New = function New(args) {
			var args, o;
			o = this;
			return new ($global.Function.prototype.bind.apply(o.object, [undefined].concat($externalize(args, sliceType))));
		};
		$ptrType(Object).prototype.Bool = function Bool() {
			var o;
			o = this;
			return !!(o.object);
		};
		$ptrType(Object).prototype.String = function String() {
			var o;
			o = this;
			return $internalize(o.object, $String);
		};
		$ptrType(Object).prototype.Int = function Int() {
			var o;
			o = this;
			return $parseInt(o.object) >> 0;
		};
		$ptrType(Object).prototype.Int64 = function Int64() {
			var o;
			o = this;
			return $internalize(o.object, $Int64);
		};
		$ptrType(Object).prototype.Uint64 = function Uint64() {
			var o;
			o = this;
			return $internalize(o.object, $Uint64);
		};
		$ptrType(Object).prototype.Float = function Float() {
			var o;
			o = this;
			return $parseFloat(o.object);
		};
		$ptrType(Object).prototype.Interface = function Interface() {
			var o;
			o = this;
			return $internalize(o.object, $emptyInterface);
		};
		$ptrType(Object).prototype.Unsafe = function Unsafe() {
			var o;
			o = this;
			return o.object;
		};
		$ptrType(Error).prototype.Error = function Error$1() {
			var err;
			err = this;
			return "JavaScript error: " + $internalize(err.Object.message, $String);
		};
		$ptrType(Error).prototype.Stack = function Stack() {
			var err;
			err = this;
			return $internalize(err.Object.stack, $String);
		};
		init = function init$1() {
			var e;
			e = new Error.ptr(null);
			$unused(e);
		};
		ptrType.methods = [{prop: "Get", name: "Get", pkg: "", typ: $funcType([$String], [ptrType], false)}, {prop: "Set", name: "Set", pkg: "", typ: $funcType([$String, $emptyInterface], [], false)}, {prop: "Delete", name: "Delete", pkg: "", typ: $funcType([$String], [], false)}, {prop: "Length", name: "Length", pkg: "", typ: $funcType([], [$Int], false)}, {prop: "Index", name: "Index", pkg: "", typ: $funcType([$Int], [ptrType], false)}, {prop: "SetIndex", name: "SetIndex", pkg: "", typ: $funcType([$Int, $emptyInterface], [], false)}, {prop: "Call", name: "Call", pkg: "", typ: $funcType([$String, sliceType], [ptrType], true)}, {prop: "Invoke", name: "Invoke", pkg: "", typ: $funcType([sliceType], [ptrType], true)}, {prop: "New", name: "New", pkg: "", typ: $funcType([sliceType], [ptrType], true)}, {prop: "Bool", name: "Bool", pkg: "", typ: $funcType([], [$Bool], false)}, {prop: "String", name: "String", pkg: "", typ: $funcType([], [$String], false)}, {prop: "Int", name: "Int", pkg: "", typ: $funcType([], [$Int], false)}, {prop: "Int64", name: "Int64", pkg: "", typ: $funcType([], [$Int64], false)}, {prop: "Uint64", name: "Uint64", pkg: "", typ: $funcType([], [$Uint64], false)}, {prop: "Float", name: "Float", pkg: "", typ: $funcType([], [$Float64], false)}, {prop: "Interface", name: "Interface", pkg: "", typ: $funcType([], [$emptyInterface], false)}, {prop: "Unsafe", name: "Unsafe", pkg: "", typ: $funcType([], [$Uintptr], false)}];
		ptrType$1.methods = [{prop: "Error", name: "Error", pkg: "", typ: $funcType([], [$String], false)}, {prop: "Stack", name: "Stack", pkg: "", typ: $funcType([], [$String], false)}];
		Object.init("github.com/gopherjs/gopherjs/js", [{prop: "object", name: "object", embedded: false, exported: false, typ: ptrType, tag: ""}]);
		Error.init("", [{prop: "Object", name: "Object", embedded: true, exported: true, typ: ptrType, tag: ""}]);
	};
	$init = function() {
		$pkg.$init = function() {};
		/* */ var $f, $c = false, $s = 0, $r; if (this !== undefined && this.$blk !== undefined) { $f = this; $c = true; $s = $f.$s; $r = $f.$r; } s: while (true) { switch ($s) { case 0:
		init();
		/* */ } return; } if ($f === undefined) { $f = { $blk: $init }; } $f.$s = $s; $f.$r = $r; return $f;
	};
	$pkg.$init = $init;
	return $pkg;
})();
$packages["runtime"] = (function() {
	var $pkg = {}, $init, js, _type, TypeAssertionError, errorString, ptrType$1, ptrType$2, buildVersion, init, throw$1;
	js = $packages["github.com/gopherjs/gopherjs/js"];
	_type = $newType(0, $kindStruct, "runtime._type", true, "runtime", false, function(str_) {
		this.$val = this;
		if (arguments.length === 0) {
			this.str = "";
			return;
		}
		this.str = str_;
	});
	TypeAssertionError = $newType(0, $kindStruct, "runtime.TypeAssertionError", true, "runtime", true, function(_interface_, concrete_, asserted_, missingMethod_) {
		this.$val = this;
		if (arguments.length === 0) {
			this._interface = ptrType$1.nil;
			this.concrete = ptrType$1.nil;
			this.asserted = ptrType$1.nil;
			this.missingMethod = "";
			return;
		}
		this._interface = _interface_;
		this.concrete = concrete_;
		this.asserted = asserted_;
		this.missingMethod = missingMethod_;
	});
	errorString = $newType(8, $kindString, "runtime.errorString", true, "runtime", false, null);
	$pkg._type = _type;
	$pkg.TypeAssertionError = TypeAssertionError;
	$pkg.errorString = errorString;
	$pkg.$finishSetup = function() {
		ptrType$1 = $ptrType(_type);
		ptrType$2 = $ptrType(TypeAssertionError);
		$ptrType(_type).prototype.string = function string() {
			var t;
			t = this;
			return t.str;
		};
		$ptrType(_type).prototype.pkgpath = function pkgpath() {
			var t;
			t = this;
			return "";
		};
		$ptrType(TypeAssertionError).prototype.RuntimeError = function RuntimeError() {
		};
		$ptrType(TypeAssertionError).prototype.Error = function Error$1() {
			var as, cs, e, inter, msg;
			e = this;
			inter = "interface";
			if (!(e._interface === ptrType$1.nil)) {
				inter = e._interface.string();
			}
			as = e.asserted.string();
			if (e.concrete === ptrType$1.nil) {
				return "interface conversion: " + inter + " is nil, not " + as;
			}
			cs = e.concrete.string();
			if (e.missingMethod === "") {
				msg = "interface conversion: " + inter + " is " + cs + ", not " + as;
				if (cs === as) {
					if (!(e.concrete.pkgpath() === e.asserted.pkgpath())) {
						msg = msg + (" (types from different packages)");
					} else {
						msg = msg + (" (types from different scopes)");
					}
				}
				return msg;
			}
			return "interface conversion: " + cs + " is not " + as + ": missing method " + e.missingMethod;
		};
		init = function init$1() {
			var e, jsPkg;
			jsPkg = $packages[$externalize("github.com/gopherjs/gopherjs/js", $String)];
			$jsObjectPtr = jsPkg.Object.ptr;
			$jsErrorPtr = jsPkg.Error.ptr;
			$throwRuntimeError = throw$1;
			buildVersion = $internalize($goVersion, $String);
			e = $ifaceNil;
			e = new TypeAssertionError.ptr(ptrType$1.nil, ptrType$1.nil, ptrType$1.nil, "");
			$unused(e);
		};
		errorString.prototype.RuntimeError = function RuntimeError$1() {
			var e;
			e = this.$val;
		};
		$ptrType(errorString).prototype.RuntimeError = function(...$args) { return new errorString(this.$get()).RuntimeError(...$args); };
		errorString.prototype.Error = function Error$2() {
			var e;
			e = this.$val;
			return "runtime error: " + (e);
		};
		$ptrType(errorString).prototype.Error = function(...$args) { return new errorString(this.$get()).Error(...$args); };
		throw$1 = function throw$2(s) {
			var s;
			$panic(new errorString((s)));
		};
		ptrType$1.methods = [{prop: "string", name: "string", pkg: "runtime", typ: $funcType([], [$String], false)}, {prop: "pkgpath", name: "pkgpath", pkg: "runtime", typ: $funcType([], [$String], false)}];
		ptrType$2.methods = [{prop: "RuntimeError", name: "RuntimeError", pkg: "", typ: $funcType([], [], false)}, {prop: "Error", name: "Error", pkg: "", typ: $funcType([], [$String], false)}];
		errorString.methods = [{prop: "RuntimeError", name: "RuntimeError", pkg: "", typ: $funcType([], [], false)}, {prop: "Error", name: "Error", pkg: "", typ: $funcType([], [$String], false)}];
		_type.init("runtime", [{prop: "str", name: "str", embedded: false, exported: false, typ: $String, tag: ""}]);
		TypeAssertionError.init("runtime", [{prop: "_interface", name: "_interface", embedded: false, exported: false, typ: ptrType$1, tag: ""}, {prop: "concrete", name: "concrete", embedded: false, exported: false, typ: ptrType$1, tag: ""}, {prop: "asserted", name: "asserted", embedded: false, exported: false, typ: ptrType$1, tag: ""}, {prop: "missingMethod", name: "missingMethod", embedded: false, exported: false, typ: $String, tag: ""}]);
	};
	$init = function() {
		$pkg.$init = function() {};
		/* */ var $f, $c = false, $s = 0, $r; if (this !== undefined && this.$blk !== undefined) { $f = this; $c = true; $s = $f.$s; $r = $f.$r; } s: while (true) { switch ($s) { case 0:
		$r = js.$init(); /* */ $s = 1; case 1: if($c) { $c = false; $r = $r.$blk(); } if ($r && $r.$blk !== undefined) { break s; }
		buildVersion = "";
		init();
		/* */ } return; } if ($f === undefined) { $f = { $blk: $init }; } $f.$s = $s; $f.$r = $r; return $f;
	};
	$pkg.$init = $init;
	return $pkg;
})();
$packages["math/bits"] = (function() {
	var $pkg = {}, $init;
	$pkg.$finishSetup = function() {
	};
	$init = function() {
		$pkg.$init = function() {};
		/* */ var $f, $c = false, $s = 0, $r; if (this !== undefined && this.$blk !== undefined) { $f = this; $c = true; $s = $f.$s; $r = $f.$r; } s: while (true) { switch ($s) { case 0:
		/* */ } return; } if ($f === undefined) { $f = { $blk: $init }; } $f.$s = $s; $f.$r = $r; return $f;
	};
	$pkg.$init = $init;
	return $pkg;
})();
$packages["math"] = (function() {
	var $pkg = {}, $init, js, bits, arrayType, arrayType$1, arrayType$2, structType, buf, math, nan, init;
	js = $packages["github.com/gopherjs/gopherjs/js"];
	bits = $packages["math/bits"];
	$pkg.$finishSetup = function() {
		arrayType = $arrayType($Uint32, 2);
		arrayType$1 = $arrayType($Float32, 2);
		arrayType$2 = $arrayType($Float64, 1);
		structType = $structType("math", [{prop: "uint32array", name: "uint32array", embedded: false, exported: false, typ: arrayType, tag: ""}, {prop: "float32array", name: "float32array", embedded: false, exported: false, typ: arrayType$1, tag: ""}, {prop: "float64array", name: "float64array", embedded: false, exported: false, typ: arrayType$2, tag: ""}]);
		init = function init$1() {
			var ab;
			ab = new ($global.ArrayBuffer)(8);
			buf.uint32array = new ($global.Uint32Array)(ab);
			buf.float32array = new ($global.Float32Array)(ab);
			buf.float64array = new ($global.Float64Array)(ab);
		};
	};
	$init = function() {
		$pkg.$init = function() {};
		/* */ var $f, $c = false, $s = 0, $r; if (this !== undefined && this.$blk !== undefined) { $f = this; $c = true; $s = $f.$s; $r = $f.$r; } s: while (true) { switch ($s) { case 0:
		$r = js.$init(); /* */ $s = 1; case 1: if($c) { $c = false; $r = $r.$blk(); } if ($r && $r.$blk !== undefined) { break s; }
		$r = bits.$init(); /* */ $s = 2; case 2: if($c) { $c = false; $r = $r.$blk(); } if ($r && $r.$blk !== undefined) { break s; }
		buf = new structType.ptr(arrayType.zero(), arrayType$1.zero(), arrayType$2.zero());
		math = $global.Math;
		nan = $parseFloat($NaN);
		init();
		/* */ } return; } if ($f === undefined) { $f = { $blk: $init }; } $f.$s = $s; $f.$r = $r; return $f;
	};
	$pkg.$init = $init;
	return $pkg;
})();
$packages["replay"] = (function() {
	var $pkg = {}, $init, math, NondetInt, NondetString, main;
	math = $packages["math"];
	$pkg.$finishSetup = function() {
		NondetInt = function NondetInt$1(id) {
			var _1, id;
			_1 = id;
			if (_1 === (1)) {
				return -1;
			}
			return 0;
		};
		$pkg.NondetInt = NondetInt;
		NondetString = function NondetString$1(id, maxLen) {
			var _1, id, maxLen;
			_1 = id;
			if (_1 === (0)) {
				return "\x00\x00\x00\x00";
			}
			return "";
		};
		$pkg.NondetString = NondetString;
		main = function main$1() {
			var i, s;
			s = NondetString(0, 4);
			i = NondetInt(1);
			console.log("l", s.length);
			console.log("b", s.charCodeAt(i));
		};
	};
	$init = function() {
		$pkg.$init = function() {};
		/* */ var $f, $c = false, $s = 0, $r; if (this !== undefined && this.$blk !== undefined) { $f = this; $c = true; $s = $f.$s; $r = $f.$r; } s: while (true) { switch ($s) { case 0:
		$r = math.$init(); /* */ $s = 1; case 1: if($c) { $c = false; $r = $r.$blk(); } if ($r && $r.$blk !== undefined) { break s; }
		if ($pkg === $mainPkg) {
			main();
			$mainFinished = true;
		}
		/* */ } return; } if ($f === undefined) { $f = { $blk: $init }; } $f.$s = $s; $f.$r = $r; return $f;
	};
	$pkg.$init = $init;
	return $pkg;
})();
$callForAllPackages("$finishSetup");
$synthesizeMethods();
$callForAllPackages("$initLinknames");
var $mainPkg = $packages["replay"];
$packages["runtime"].$init();
$go($mainPkg.$init, []);
$flushConsole();

}).call(this);
//# sourceMappingURL=out.js.map
