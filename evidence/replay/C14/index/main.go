package main
import "math"
var _ = math.Pi

//go:noinline
func NondetInt8(id int) int8 {
	switch id {
	}
	return 0
}

//go:noinline
func NondetInt16(id int) int16 {
	switch id {
	}
	return 0
}

//go:noinline
func NondetInt32(id int) int32 {
	switch id {
	}
	return 0
}

//go:noinline
func NondetInt64(id int) int64 {
	switch id {
	}
	return 0
}

//go:noinline
func NondetUint8(id int) uint8 {
	switch id {
	}
	return 0
}

//go:noinline
func NondetUint16(id int) uint16 {
	switch id {
	}
	return 0
}

//go:noinline
func NondetUint32(id int) uint32 {
	switch id {
	}
	return 0
}

//go:noinline
func NondetUint64(id int) uint64 {
	switch id {
	}
	return 0
}

//go:noinline
func NondetInt(id int) int {
	switch id {
	case 1:
		return int(-1)
	}
	return 0
}

//go:noinline
func NondetUint(id int) uint {
	switch id {
	}
	return 0
}

//go:noinline
func NondetUintptr(id int) uintptr {
	switch id {
	}
	return 0
}

//go:noinline
func NondetBool(id int) bool {
	switch id {
	}
	return false
}

//go:noinline
func NondetFloat32(id int) float32 {
	switch id {
	}
	return 0
}

//go:noinline
func NondetFloat64(id int) float64 {
	switch id {
	}
	return 0
}

//go:noinline
func NondetRange(id int, lo int, hi int) int {
	switch id {
	case 1:
		return -1
	case 9999:
		return 0
	}
	return lo
}

//go:noinline
func NondetString(id int, maxLen int) string {
	switch id {
	case 0:
		return "\x00\x00\x00\x00"
	}
	return ""
}

//go:noinline
func NondetInt64R(id int, lo, hi int64) int64 {
	switch id {
	case 1:
		return -1
	case 9999:
		return 0
	}
	return lo
}

//go:noinline
func NondetUint64R(id int, lo, hi uint64) uint64 {
	switch id {
	case 9999:
		return 0
	}
	return lo
}

//go:noinline
func VerifOutI64(tag string, v int64) { println(tag, int32(v>>32), uint32(v)) }

//go:noinline
func VerifOutU64(tag string, v uint64) { println(tag, uint32(v>>32), uint32(v)) }

//go:noinline
func VerifOutF64(tag string, v float64) { println(tag, v) }

//go:noinline
func VerifOutF32(tag string, v float32) { println(tag, v) }

//go:noinline
func VerifOutC128(tag string, v complex128) { println(tag, real(v), imag(v)) }

//go:noinline
func VerifOutC64(tag string, v complex64) { println(tag, real(v), imag(v)) }

//go:noinline
func VerifAssume(b bool) {}

//go:noinline
func VerifReach(k int) {}

func main() {
	s := NondetString(0, 4)
	i := NondetInt(1)
	println("l", len(s))
	println("b", s[i])
}
