"""Go's UTF-8 decoding/encoding rules (language spec: range over string, conversions; package unicode/utf8's
documented behaviour) as SMT-LIB terms over integer byte variables."""


def ite(c, a, b):
    return '(ite %s %s %s)' % (c, a, b)


def between(x, lo, hi):
    return '(and (<= %d %s) (<= %s %d))' % (lo, x, x, hi)


def decode_at(bs, i):
    """bs: list of byte terms (concrete length), i: concrete position < len.  -> (rune term, width term)"""
    n = len(bs)
    b0 = bs[i]
    bad = ('65533', '1')
    cont = lambda x: between(x, 0x80, 0xBF)
    # 2 bytes
    if i + 1 < n:
        b1 = bs[i + 1]
        ok2 = '(and %s %s)' % (between(b0, 0xC2, 0xDF), cont(b1))
        r2 = '(+ (* (- %s 192) 64) (- %s 128))' % (b0, b1)
    else:
        ok2, r2 = 'false', '0'
    if i + 2 < n:
        b1, b2 = bs[i + 1], bs[i + 2]
        ok3 = '(and %s (or (and (= %s 224) %s) (and %s %s) (and (= %s 237) %s)))' % (
            cont(b2), b0, between(b1, 0xA0, 0xBF),
            '(or %s %s)' % (between(b0, 0xE1, 0xEC), between(b0, 0xEE, 0xEF)), cont(b1),
            b0, between(b1, 0x80, 0x9F))
        r3 = '(+ (* (- %s 224) 4096) (* (- %s 128) 64) (- %s 128))' % (b0, b1, b2)
    else:
        ok3, r3 = 'false', '0'
    if i + 3 < n:
        b1, b2, b3 = bs[i + 1], bs[i + 2], bs[i + 3]
        ok4 = '(and %s %s (or (and (= %s 240) %s) (and %s %s) (and (= %s 244) %s)))' % (
            cont(b2), cont(b3), b0, between(b1, 0x90, 0xBF), between(b0, 0xF1, 0xF3), cont(b1), b0, between(b1, 0x80, 0x8F))
        r4 = '(+ (* (- %s 240) 262144) (* (- %s 128) 4096) (* (- %s 128) 64) (- %s 128))' % (b0, b1, b2, b3)
    else:
        ok4, r4 = 'false', '0'
    rune = ite('(< %s 128)' % b0, b0, ite(ok2, r2, ite(ok3, r3, ite(ok4, r4, bad[0]))))
    width = ite('(< %s 128)' % b0, '1', ite(ok2, '2', ite(ok3, '3', ite(ok4, '4', bad[1]))))
    return rune, width


def select(pos, terms):
    """terms[k] when pos == k (pos symbolic, terms concrete-indexed); last element is the default"""
    t = terms[-1]
    for k in range(len(terms) - 2, -1, -1):
        t = ite('(= %s %d)' % (pos, k), terms[k], t)
    return t


def encode(r):
    """-> (length term, [b0,b1,b2,b3] terms) for string(rune r), r any int32 (invalid -> U+FFFD)"""
    v = '(ite (or (< %s 0) (> %s 1114111) (and (<= 55296 %s) (<= %s 57343))) 65533 %s)' % (r, r, r, r, r)
    ln = '(ite (<= {v} 127) 1 (ite (<= {v} 2047) 2 (ite (<= {v} 65535) 3 4)))'.format(v=v)
    b0 = '(ite (<= {v} 127) {v} (ite (<= {v} 2047) (+ 192 (div {v} 64)) (ite (<= {v} 65535) (+ 224 (div {v} 4096)) (+ 240 (div {v} 262144)))))'.format(v=v)
    b1 = '(ite (<= {v} 2047) (+ 128 (mod {v} 64)) (ite (<= {v} 65535) (+ 128 (mod (div {v} 64) 64)) (+ 128 (mod (div {v} 4096) 64))))'.format(v=v)
    b2 = '(ite (<= {v} 65535) (+ 128 (mod {v} 64)) (+ 128 (mod (div {v} 64) 64)))'.format(v=v)
    b3 = '(+ 128 (mod {v} 64))'.format(v=v)
    return ln, [b0, b1, b2, b3]
