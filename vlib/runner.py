"""Common driver for case-based translation-validation checks: run, replay violations on the real toolchain,
print VIOLATION / KNOWN-FINDING lines, write the evidence file."""
import json, os, sys, time, shutil
from . import core, tv


def run_property(pid, cases, tier, chunk=30, title='', bounds=None, cfg=None, extra_evidence=None, level='translation_validation',
                 assumptions=None, post=None, z3_timeout_ms=30000, minify=False, keep_all_too=False, heavy=None, confirm='native'):
    t0 = time.time()
    work = os.path.join(core.scratch(), pid)
    os.makedirs(work, exist_ok=True)
    known = core.load_known(pid)
    rep = tv.check_cases(cases, work, chunk=chunk, cfg=cfg, known=known, z3_timeout_ms=z3_timeout_ms, minify=minify, heavy=heavy)
    variant_verified = None
    if keep_all_too:
        # second pass: the same programs linked with every declaration kept alive (dead-code elimination switched off);
        # a case counts as verified only if both linked outputs satisfy the reference on every path
        work2 = os.path.join(core.scratch(), pid + '_keepall')
        os.makedirs(work2, exist_ok=True)
        rep2 = tv.check_cases(cases, work2, chunk=chunk, cfg=cfg, known=known, z3_timeout_ms=z3_timeout_ms, minify=minify, keep_all=True)
        for v in rep2.violations:
            v['keep_all'] = True
            v['why'] = '[linked with every declaration kept] ' + v['why']
        for i in rep2.inconclusive:
            i['reason'] = '[keep-all link] ' + i['reason']
        both = set(rep.verified_cases) & set(rep2.verified_cases)
        variant_verified = {'dce': len(rep.verified_cases), 'keep_all': len(rep2.verified_cases), 'both': len(both)}
        n_cases = rep.cases
        rep.merge(rep2)
        rep.cases = n_cases
        rep.verified_cases = sorted(both)
    violations = 0
    lines = []
    noev = bool(os.environ.get('VERIF_NO_EVIDENCE'))     # used when trying seeded changes: leave the committed evidence alone
    replay_root = os.path.join(core.scratch() if noev else os.path.join(core.VERIF, 'evidence'), 'replay', pid)
    shutil.rmtree(replay_root, ignore_errors=True)
    confirmed, spurious = [], []
    per_case = {}
    for v in rep.violations:
        case = v['case']
        # one replay (and one VIOLATION line) per case and linked variant: further failing paths of the same case are counted in the evidence
        pk = (v['tag'], bool(v.get('keep_all')))
        per_case[pk] = per_case.get(pk, 0) + 1
        if per_case[pk] > 1:
            continue
        outdir = os.path.join(replay_root, v['tag'] + ('_keepall' if v.get('keep_all') else ''))
        try:
            info = tv.replay(case, v['model'], outdir, minify=minify, keep_all=bool(v.get('keep_all')))
            go_lines, go_end = tv.normalise_output(info['go']['rc'], info['go']['stdout'], info['go']['stderr'])
            js_lines, js_end = tv.normalise_output(info['js']['rc'], info['js']['stdout'], info['js']['stderr'])
            differs = (go_lines != js_lines) or (go_end != js_end)
            if confirm == 'reference':
                # no native counterpart (the program talks to JavaScript): the real gopherjs+node output for the model's inputs is
                # compared with the reference itself; it is a violation iff no alternative of the reference produces it
                z3c = core.Z3Session(timeout_ms=z3_timeout_ms)
                try:
                    bad = tv.confirm_against_reference(case, v, js_lines, js_end, z3c)
                finally:
                    z3c.close()
                rec0 = {'tag': v['tag'], 'why': v['why'], 'model': v['model'], 'go': ['(no native counterpart)', ''], 'js': [js_lines, js_end], 'replay': outdir,
                        'note': 'confirmed by evaluating the reference on the real gopherjs+node output'}
                (confirmed if bad else spurious).append(rec0)
                continue
            uses_word = any(t in ('int', 'uint', 'uintptr') for t in case.inputs.values()) or '_int_' in v['tag'] or '_uint_' in v['tag'] or '_uintptr_' in v['tag']
            rec = {'tag': v['tag'], 'why': v['why'], 'model': v['model'], 'solver_values': v.get('values'), 'go': [go_lines, go_end], 'js': [js_lines, js_end], 'replay': outdir}
            if not differs and uses_word and v.get('values'):
                # word-sized operand: native Go computes in 64 bits, so the native transcript cannot show the difference.
                # Confirm against the specification value from the solver model instead: the real JavaScript output must
                # equal the engine's value and differ from the reference value.
                import re as _re
                nums = [int(x.replace('(- ', '-').replace(')', '')) for x in _re.findall(r'\(- \d+\)|(?<![\w.])\d+(?![\w.])', v['values'].split('\n')[-1][-60:])]
                jsnums = _re.findall(r'-?\d+', js_lines[0]) if js_lines else []
                try:
                    allv = [int(t.replace('(- ', '-').rstrip(')')) for t in _re.findall(r'(\(- \d+\)|\d+)\)\s*\)?\s*$', l)] if False else None
                except Exception:
                    allv = None
                vals = _re.findall(r'\) (\(- \d+\)|-?\d+)\)', v['values'])
                vals = [int(t.replace('(- ', '-').rstrip(')')) for t in vals]
                if len(vals) == 2 and jsnums and int(jsnums[-1]) == vals[0] and vals[0] != vals[1]:
                    rec['note'] = 'word-sized type: real JavaScript output %s equals the engine value and differs from the 32-bit specification value %d' % (jsnums[-1], vals[1])
                    confirmed.append(rec)
                    continue
            if differs and not uses_word:
                confirmed.append(rec)
            elif differs and uses_word:
                # native Go has a 64-bit int: the native transcript is not the reference for these types.
                rec['note'] = 'word-sized type: native Go is 64-bit here, the reference is the 32-bit specification value from the solver model'
                confirmed.append(rec)
            else:
                spurious.append(rec)
        except Exception as e:  # noqa
            spurious.append({'tag': v['tag'], 'why': v['why'], 'model': v['model'], 'replay_error': str(e)})
    for rec in confirmed:
        violations += 1
        print('VIOLATION property=%s replay=%s' % (pid, rec['replay']))
        print('  case %s: %s; inputs %s; go=%s js=%s' % (rec['tag'], rec['why'], json.dumps(rec['model']), rec['go'], rec['js']))
    seen = set()
    for h in rep.known_hits:
        key = (h['finding'].get('id') or h['finding']['what'])
        if key in seen:
            continue
        seen.add(key)
        print('KNOWN-FINDING: property=%s %s (first seen on case %s, input %s)' % (pid, h['finding']['what'], h['tag'], json.dumps(h['model'])))
    inconc = {}
    for i in rep.inconclusive:
        inconc.setdefault(i['reason'][:160], []).append(i['tag'])
    n_verified = len(rep.verified_cases)
    ev = {
        'property_id': pid, 'tier': tier, 'seed': core.seed(), 'level': level,
        'wall_s': round(time.time() - t0, 2), 'violations': violations,
        'coverage': {
            'programs': rep.programs, 'disagreements_checked': rep.queries, 'samples': rep.samples or [{'note': 'no case verified'}],
            'cases_total': rep.cases, 'cases_verified_for_all_inputs': n_verified,
            'cases_inconclusive': len(set(i['tag'] for i in rep.inconclusive)),
            'inconclusive_reasons': {k: {'count': len(v), 'examples': v[:6]} for k, v in inconc.items()},
            'paths_explored': rep.paths, 'solver_queries_compare': rep.queries, 'solver_s_compare': round(rep.solver_s, 2),
            'solver_queries_engine': rep.engine_queries, 'solver_s_engine': round(rep.engine_solver_s, 2),
            'compile_s': round(rep.compile_s, 1), 'explore_s': round(rep.explore_s, 1),
            'engine_flags': rep.flags, 'bounds': bounds or {}, 'what': title,
            'functions_encoded': 'the JavaScript emitted by /repo\'s compiler for each case function + every prelude helper it calls (instrumented and executed symbolically, not modelled)',
            'known_findings_seen': [{'case': h['tag'], 'what': h['finding']['what'], 'model': h['model']} for h in rep.known_hits][:20],
            'violations_confirmed': [{k: v for k, v in r.items()} for r in confirmed][:20], 'violating_paths_per_case': {k[0] + ('/keep-all' if k[1] else ''): n for k, n in per_case.items()},
            'spurious_models': spurious[:10], 'solver': core.Z3, 'solver_errors': getattr(rep, 'solver_errors', []),
            'repo': core.repo_state(),
        },
        'assumptions': (assumptions or []) + [
            'acorn parser, Node.js for concrete replays and z3 are trusted',
            'doubles holding integers are modelled as mathematical integers; every arithmetic result is checked (by interval or by z3) to stay within 2^53, otherwise a rounded value with sound IEEE bounds is used',
            '-0 and +0 are identified in integer context',
        ],
    }
    if variant_verified:
        ev['coverage']['linked_variants'] = variant_verified
    if extra_evidence:
        ev['coverage'].update(extra_evidence)
    if post:
        post(ev, rep)
    if not noev:
        core.write_evidence(pid, ev)
    print('%s %s: %d cases, %d verified for all inputs, %d inconclusive, %d violations, %d known-finding hits, %d spurious; %d paths, %.1fs' % (
        pid, tier, rep.cases, n_verified, ev['coverage']['cases_inconclusive'], violations, len(rep.known_hits), len(spurious), rep.paths, time.time() - t0))
    slow = sorted(rep.case_times, reverse=True)[:8]
    if slow and slow[0][0] > 20:
        print('  slowest comparisons (s): %s' % ', '.join('%s %.0f' % (t, s_) for s_, t in slow))
    for sp in spurious[:5]:
        print('  spurious (solver model did not reproduce on go vs gopherjs+node): %s %s go=%s js=%s' % (sp.get('tag'), json.dumps(sp.get('model')), sp.get('go'), sp.get('js') or sp.get('replay_error')))
    if getattr(rep, 'solver_errors', None):
        print('  solver errors:', rep.solver_errors[:2])
    for k, v in list(inconc.items())[:8]:
        print('  inconclusive x%d: %s  e.g. %s' % (len(v), k, v[:3]))
    return 1 if violations else 0
