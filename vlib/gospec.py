"""Reference semantics of Go's numeric operators, written from the language specification as SMT-LIB terms
over mathematical integers (and bit-vectors for the bitwise operators).  Independent of both engines."""

INT_TYPES = {
    'int8': ('i', 8), 'int16': ('i', 16), 'int32': ('i', 32), 'int64': ('i', 64),
    'uint8': ('u', 8), 'uint16': ('u', 16), 'uint32': ('u', 32), 'uint64': ('u', 64),
    'int': ('i', 32), 'uint': ('u', 32), 'uintptr': ('u', 32),   # documented: 32 bits wide under GopherJS
}
NONDET = {'int8': 'Int8', 'int16': 'Int16', 'int32': 'Int32', 'int64': 'Int64', 'uint8': 'Uint8', 'uint16': 'Uint16',
          'uint32': 'Uint32', 'uint64': 'Uint64', 'int': 'Int', 'uint': 'Uint', 'uintptr': 'Uintptr',
          'float32': 'Float32', 'float64': 'Float64', 'bool': 'Bool'}

PREAMBLE = '\n'.join([
    '(define-fun go_tdiv ((a Int) (b Int)) Int (ite (>= a 0) (ite (> b 0) (div a b) (- (div a (- b)))) (ite (> b 0) (- (div (- a) b)) (div (- a) (- b)))))',
    '(define-fun go_p2 ((k Int)) Int ' + ''.join('(ite (= k %d) %d ' % (i, 2 ** i) for i in range(64)) + '0' + ')' * 64 + ')',
])


def lit(n):
    return '(- %d)' % (-n) if n < 0 else '%d' % n


def rng(t):
    s, w = INT_TYPES[t]
    return (-(1 << (w - 1)), (1 << (w - 1)) - 1) if s == 'i' else (0, (1 << w) - 1)


def wrap(t, v):
    s, w = INT_TYPES[t]
    m = 1 << w
    if s == 'u':
        return '(mod %s %d)' % (v, m)
    return '(- (mod (+ %s %d) %d) %d)' % (v, m >> 1, m, m >> 1)


def to_bv(t, v):
    return '((_ int2bv %d) %s)' % (INT_TYPES[t][1], v)


def from_bv(t, b):
    s, w = INT_TYPES[t]
    if s == 'u':
        return '(bv2int %s)' % b
    return '(let ((uu (bv2int %s))) (ite (>= uu %d) (- uu %d) uu))' % (b, 1 << (w - 1), 1 << w)


def binop(op, t, x, y, ty=None):
    """-> (panic_condition or None, result_term, result_kind) for `x op y` with x of type t (y of type ty for shifts)."""
    s, w = INT_TYPES[t]
    if op == '+':
        return None, wrap(t, '(+ %s %s)' % (x, y)), 'int'
    if op == '-':
        return None, wrap(t, '(- %s %s)' % (x, y)), 'int'
    if op == '*':
        return None, wrap(t, '(* %s %s)' % (x, y)), 'int'
    if op == '/':
        # truncated toward zero; the one overflow case (most negative / -1) wraps, per the spec
        return '(= %s 0)' % y, wrap(t, '(go_tdiv %s %s)' % (x, y)), 'int'
    if op == '%':
        return '(= %s 0)' % y, '(- %s (* %s (go_tdiv %s %s)))' % (x, y, x, y), 'int'
    if op in ('&', '|', '^', '&^'):
        bx, by = to_bv(t, x), to_bv(t, y)
        if op == '&^':
            e = '(bvand %s (bvnot %s))' % (bx, by)
        else:
            e = '(%s %s %s)' % ({'&': 'bvand', '|': 'bvor', '^': 'bvxor'}[op], bx, by)
        return None, from_bv(t, e), 'int'
    if op == '<<':
        # count y is unsigned (type ty); shifting by >= width gives 0.  Stated per count so that every branch is linear.
        t_ = '0'
        for k in range(w - 1, -1, -1):
            t_ = '(ite (= %s %d) %s %s)' % (y, k, wrap(t, '(* %s %d)' % (x, 1 << k)), t_)
        return None, t_, 'int'
    if op == '>>':
        # arithmetic for signed, logical for unsigned: floor division by 2^y
        t_ = '(ite (< %s 0) (- 1) 0)' % x if s == 'i' else '0'
        for k in range(w - 1, -1, -1):
            t_ = '(ite (= %s %d) (div %s %d) %s)' % (y, k, x, 1 << k, t_)
        return None, t_, 'int'
    if op in ('==', '!=', '<', '<=', '>', '>='):
        m = {'==': '(= %s %s)', '!=': '(not (= %s %s))', '<': '(< %s %s)', '<=': '(<= %s %s)', '>': '(> %s %s)', '>=': '(>= %s %s)'}[op]
        return None, m % (x, y), 'bool'
    raise ValueError(op)


def unop(op, t, x):
    s, w = INT_TYPES[t]
    if op == '-':
        return None, wrap(t, '(- %s)' % x), 'int'
    if op == '+':
        return None, x, 'int'
    if op == '^':
        if s == 'i':
            return None, '(- (- %s) 1)' % x, 'int'
        return None, '(- %d %s)' % ((1 << w) - 1, x), 'int'
    raise ValueError(op)


def convert(t_from, t_to, x):
    return None, wrap(t_to, x), 'int'


# ---- concrete evaluation (used to cross-check the reference itself against native Go in replays)
def py_wrap(t, v):
    s, w = INT_TYPES[t]
    m = 1 << w
    v %= m
    if s == 'i' and v >= m >> 1:
        v -= m
    return v
