"""Translation validation of "case programs": each case is a small Go function compiled by the real compiler;
its JavaScript is executed symbolically (engine/jsx) for ALL inputs and each path is compared, by z3, with a
reference written from the Go specification (vlib/gospec.py) or supplied by the harness."""
import json, os, sys, time, shutil, multiprocessing
from . import core, gospec

NONDET_DECLS = '''
//go:noinline
func NondetInt8(id int) int8 { return 0 }

//go:noinline
func NondetInt16(id int) int16 { return 0 }

//go:noinline
func NondetInt32(id int) int32 { return 0 }

//go:noinline
func NondetInt64(id int) int64 { return 0 }

//go:noinline
func NondetUint8(id int) uint8 { return 0 }

//go:noinline
func NondetUint16(id int) uint16 { return 0 }

//go:noinline
func NondetUint32(id int) uint32 { return 0 }

//go:noinline
func NondetUint64(id int) uint64 { return 0 }

//go:noinline
func NondetInt(id int) int { return 0 }

//go:noinline
func NondetUint(id int) uint { return 0 }

//go:noinline
func NondetUintptr(id int) uintptr { return 0 }

//go:noinline
func NondetBool(id int) bool { return false }

//go:noinline
func NondetFloat32(id int) float32 { return 0 }

//go:noinline
func NondetFloat64(id int) float64 { return 0 }

//go:noinline
func NondetRange(id int, lo int, hi int) int { return lo }

//go:noinline
func NondetString(id int, maxLen int) string { return "" }

//go:noinline
func VerifOutI64(tag string, v int64) { println(tag, int32(v>>32), uint32(v)) }

//go:noinline
func VerifOutU64(tag string, v uint64) { println(tag, uint32(v>>32), uint32(v)) }

//go:noinline
func VerifOutF64(tag string, v float64) { println(tag, v) }

//go:noinline
func VerifOutF32(tag string, v float32) { println(tag, v) }

//go:noinline
func VerifOutC128(tag string, v complex128) { println(tag, real(v), imag(v)) }

//go:noinline
func VerifOutC64(tag string, v complex64) { println(tag, real(v), imag(v)) }

//go:noinline
func VerifAssume(b bool) {}

//go:noinline
func VerifReach(k int) {}
'''

SEL_ID = 9999


class Case:
    def __init__(self, tag, decl, body, inputs, ref, note=None):
        self.tag = tag          # unique identifier, printed by the case
        self.decl = decl        # Go declarations
        self.body = body        # Go statements run when the case is selected
        self.inputs = inputs    # {id: gotype}
        self.ref = ref          # f(names: {id: smt var}) -> dict(panic=cond|None, value=term, kind=...)
        self.note = note


def program_source(cases):
    parts = ['package main\n', NONDET_DECLS]
    for c in cases:
        parts.append(c.decl)
    parts.append('\nfunc main() {\n\tswitch NondetRange(%d, 0, %d) {\n' % (SEL_ID, max(len(cases) - 1, 0)))
    for i, c in enumerate(cases):
        parts.append('\tcase %d:\n%s\n' % (i, '\n'.join('\t\t' + ln for ln in c.body.split('\n'))))
    parts.append('\t}\n}\n')
    return ''.join(parts)


def obs_term(a):
    """SMT term + sort for one serialised observation argument."""
    if 'i64' in a:
        h, l = a['i64']
        return '(+ (* %s 4294967296) %s)' % (h['i'], l['i']), 'int'
    if 'i' in a:
        return a['i'], 'int'
    if 'b' in a:
        return a['b'], 'bool'
    if 'f' in a:
        return a['f'], 'f64'
    if 'cplx' in a:
        return (obs_term(a['cplx'][0])[0], obs_term(a['cplx'][1])[0]), 'cplx'
    if 's' in a:
        return a['s'], 'str'
    return None, 'other'


def f64_of(term, kind):
    if kind == 'f64':
        return term
    if kind == 'int':
        return '((_ to_fp 11 53) RNE (to_real %s))' % term
    raise ValueError(kind)


def _explore_chunk(args):
    idx, cases_src, ncases, workdir, cfg = args
    d = os.path.join(workdir, 'prog%d' % idx)
    core.write_pkg(d, {'main.go': cases_src})
    t0 = time.time()
    ok, out = core.compile_js(d)
    if not ok:
        return idx, {'compile_error': out}
    t1 = time.time()
    try:
        res = core.explore(out, cfg)
    except Exception as e:  # noqa
        return idx, {'engine_error': str(e)}
    res['compile_s'] = t1 - t0
    res['explore_s'] = time.time() - t1
    return idx, res


class Report:
    def __init__(self):
        self.programs = 0
        self.cases = 0
        self.paths = 0
        self.queries = 0
        self.solver_s = 0.0
        self.engine_queries = 0
        self.engine_solver_s = 0.0
        self.violations = []      # dicts
        self.inconclusive = []    # dicts (tag, reason)
        self.verified_cases = []  # tags fully verified
        self.samples = []
        self.spurious = []
        self.flags = {}
        self.compile_s = 0.0
        self.explore_s = 0.0
        self.known = []
        self.known_hits = []


def check_cases(cases, workdir, chunk=40, cfg=None, jobs=None, z3_timeout_ms=30000, report=None, progress=None, known=None):
    """Compile, explore and verify all cases.  Returns a Report."""
    rep = report or Report()
    rep.known = known or []
    cfg = dict(cfg or {})
    chunks = [cases[i:i + chunk] for i in range(0, len(cases), chunk)]
    work = [(i, program_source(ch), len(ch), workdir, cfg) for i, ch in enumerate(chunks)]
    jobs = jobs or min(len(work), max(1, (os.cpu_count() or 4)))
    # make sure the compiler is built once, before forking
    core.gopherjs_bin()
    t0 = time.time()
    if jobs > 1 and len(work) > 1:
        with multiprocessing.Pool(jobs) as pool:
            results = pool.map(_explore_chunk, work)
    else:
        results = [_explore_chunk(w) for w in work]
    results.sort()
    z3 = core.Z3Session(timeout_ms=z3_timeout_ms)
    z3.send(gospec.PREAMBLE)
    try:
        for (idx, res), ch in zip(results, chunks):
            rep.programs += 1
            if 'compile_error' in res:
                for c in ch:
                    rep.inconclusive.append({'tag': c.tag, 'reason': 'template does not compile: ' + res['compile_error'][-400:]})
                continue
            if 'engine_error' in res:
                for c in ch:
                    rep.inconclusive.append({'tag': c.tag, 'reason': 'engine error: ' + res['engine_error'][-400:]})
                continue
            rep.compile_s += res.get('compile_s', 0)
            rep.explore_s += res.get('explore_s', 0)
            rep.engine_queries += res['queries']
            rep.engine_solver_s += res['solverMs'] / 1000.0
            _verify_program(rep, z3, res, ch)
    finally:
        rep.queries += z3.queries
        rep.solver_s += z3.solver_s
        rep.solver_errors = z3.errors[:5]
        z3.close()
    rep.wall_s = time.time() - t0
    return rep


def path_selector(p):
    return None


def _verify_program(rep, z3, res, cases):
    smt_prelude = res['smtPrelude']
    by_case = {}
    unrouted = []
    for p in res['paths']:
        rep.paths += 1
        for k, v in p.get('flags', {}).items():
            rep.flags[k] = rep.flags.get(k, 0) + 1
        # which case does the path belong to?  decided by the solver from the selector
        by_case.setdefault(_route(z3, smt_prelude, p, len(cases)), []).append(p)
    if res.get('truncated') or res.get('pendingLeft'):
        for c in cases:
            rep.inconclusive.append({'tag': c.tag, 'reason': 'path budget exhausted (%d paths left unexplored)' % res.get('pendingLeft', 0)})
        return
    for i, c in enumerate(cases):
        rep.cases += 1
        paths = by_case.get(i, [])
        ok = True
        if not paths:
            rep.inconclusive.append({'tag': c.tag, 'reason': 'no path reached this case (vacuous)'})
            continue
        names = {k: 'in_%d' % k for k in c.inputs}
        ref = c.ref(names)
        all_inputs = {}
        for p in paths:
            all_inputs.update(p['inputs'])
        for p in paths:
            verdict = _verify_path(rep, z3, smt_prelude, p, c, ref)
            if verdict not in ('ok', 'known'):
                ok = False
        # coverage: every input of the case lies on some explored path
        z3.push()
        z3.send(smt_prelude)
        for d in core.input_decls(all_inputs):
            z3.send(d)
        seen = set()
        for p in paths:
            for d in p['defs']:
                if d not in seen:
                    seen.add(d)
                    z3.send(d)
        z3.send('(assert (= in_%d %d))' % (SEL_ID, i))
        z3.send('(assert (not (or false %s)))' % ' '.join('(and true %s)' % ' '.join(p['pc']) for p in paths))
        r = z3.check()
        z3.pop()
        if r != 'unsat':
            ok = False
            rep.inconclusive.append({'tag': c.tag, 'reason': 'coverage of the input space not shown (%s)' % r})
        if ok:
            rep.verified_cases.append(c.tag)
            if len(rep.samples) < 12:
                rep.samples.append({'case': c.tag, 'go': c.decl.strip()[:200], 'paths': len(paths), 'ref': str(ref.get('value'))[:200],
                                    'js_value': json.dumps(paths[0]['obs'][-1]['args'][-1])[:300] if paths[0]['obs'] else None})


def _route(z3, prelude, p, n):
    sel = p['inputs'].get('in_%d' % SEL_ID)
    if sel is None:
        return 0 if n == 1 else None
    z3.push()
    z3.send(prelude)
    for d in core.input_decls(p['inputs']):
        z3.send(d)
    for d in p['defs']:
        z3.send(d)
    for c in p['pc']:
        z3.send('(assert %s)' % c)
    r = z3.check()
    k = None
    if r == 'sat':
        k = z3.model(['in_%d' % SEL_ID]).get('in_%d' % SEL_ID)
    z3.pop()
    return k


def _verify_path(rep, z3, prelude, p, c, ref):
    term = p['term']
    kind = term['kind']
    if kind in ('unsupported', 'bound', 'assume'):
        if kind == 'assume':
            return 'ok'
        rep.inconclusive.append({'tag': c.tag, 'reason': '%s: %s' % (kind, term.get('detail'))})
        return 'inconclusive'
    panic = ref.get('panic')
    z3.push()
    z3.send(prelude)
    for d in core.input_decls(p['inputs']):
        z3.send(d)
    for d in p['defs']:
        z3.send(d)
    for cnd in p['pc']:
        z3.send('(assert %s)' % cnd)
    names = sorted(p['inputs'].keys())
    verdict = 'ok'
    try:
        if kind == 'uncaught':
            msg = term['msg'].get('c', '')
            want = ref.get('panic_msg', 'runtime error: integer divide by zero')
            if panic is None or want not in msg:
                # JS panics where Go never does (or with another error): any input on this path is a counterexample
                if panic is None:
                    z3.send('(assert true)')
                else:
                    z3.send('(assert true)')
                r = z3.check()
                if r == 'sat':
                    verdict = _violation(rep, z3, p, c, names, 'JavaScript raises %r where the reference %s' % (msg, 'never panics' if panic is None else 'panics with ' + want), None, None)
                elif r == 'unknown':
                    verdict = _inconclusive(rep, c, 'solver unknown on panic path')
            else:
                z3.send('(assert (not %s))' % panic)
                r = z3.check()
                if r == 'sat':
                    verdict = _violation(rep, z3, p, c, names, 'JavaScript raises %r on an input where Go does not panic' % msg, None, None)
                elif r == 'unknown':
                    verdict = _inconclusive(rep, c, 'solver unknown on panic path')
        elif kind == 'normal':
            outs = [o for o in p['obs'] if o['k'] in ('log', 'out')]
            if len(outs) != 1:
                verdict = _inconclusive(rep, c, 'expected exactly one output, got %d' % len(outs))
            else:
                args = outs[0]['args']
                tagarg = args[0].get('c')
                if tagarg != c.tag:
                    verdict = _inconclusive(rep, c, 'output tag %r does not match case' % tagarg)
                else:
                    jsv, jk = obs_term(args[-1])
                    cmp_ = _compare(jsv, jk, ref)
                    if cmp_ is None:
                        verdict = _inconclusive(rep, c, 'cannot compare JS %s with reference %s' % (jk, ref.get('kind')))
                    else:
                        if panic is not None:
                            z3.send('(assert (or %s (not %s)))' % (panic, cmp_))
                        else:
                            z3.send('(assert (not %s))' % cmp_)
                        r = z3.check()
                        if r == 'sat':
                            verdict = _violation(rep, z3, p, c, names, 'value differs from the Go specification', jsv, ref)
                        elif r == 'unknown':
                            verdict = _inconclusive(rep, c, 'solver unknown/timeout on value comparison')
        else:
            verdict = _violation_noquery(rep, p, c, 'unexpected termination %s' % json.dumps(term)[:300])
    finally:
        z3.pop()
    return verdict


def _compare(jsv, jk, ref):
    k = ref.get('kind')
    v = ref.get('value')
    if k == 'int' and jk == 'int':
        return '(= %s %s)' % (jsv, v)
    if k == 'bool' and jk == 'bool':
        return '(= %s %s)' % (jsv, v)
    if k == 'bool' and jk == 'int':
        return '(= (not (= %s 0)) %s)' % (jsv, v)
    if k in ('f64', 'f32') and jk in ('f64', 'int'):
        # IEEE equality up to NaN (any NaN equals any NaN), signed zeros distinguished
        a = f64_of(jsv, jk)
        return '(or (and (fp.isNaN %s) (fp.isNaN %s)) (= %s %s))' % (a, v, a, v)
    if k == 'cplx' and jk == 'cplx':
        parts = []
        for a, b in zip(jsv, v):
            parts.append('(or (and (fp.isNaN %s) (fp.isNaN %s)) (= %s %s))' % (a, b, a, b))
        return '(and %s)' % ' '.join(parts)
    return None


def _inconclusive(rep, c, why):
    rep.inconclusive.append({'tag': c.tag, 'reason': why})
    return 'inconclusive'


def _violation(rep, z3, p, c, names, why, jsv, ref):
    """Called with the violating condition asserted and `sat`.  Splits the violating inputs into the classes listed in
    known_findings.jsonl (reported as KNOWN-FINDING) and anything else (a VIOLATION)."""
    import re
    classes = [k for k in rep.known if k.get('status', 'known') == 'known' and re.fullmatch(k['harness'], c.tag)]
    if classes:
        z3.push()
        for k in classes:
            z3.send('(assert (not %s))' % k['class_smt'])
        r = z3.check()
        if r == 'unsat':
            z3.pop()
            for k in classes:
                z3.push()
                z3.send('(assert %s)' % k['class_smt'])
                if z3.check() == 'sat':
                    rep.known_hits.append({'tag': c.tag, 'finding': k, 'model': z3.model(names)})
                z3.pop()
            return 'known'
        if r == 'unknown':
            z3.pop()
            return _inconclusive(rep, c, 'solver unknown while separating known findings')
        # sat outside the known classes: fall through with this model
    model = z3.model(names)
    extra = None
    if jsv is not None and isinstance(jsv, str):
        extra = z3.ask('(get-value (%s %s))' % (jsv, ref['value']))
    if classes:
        z3.pop()
    rep.violations.append({'tag': c.tag, 'why': why, 'model': {k: v for k, v in model.items()}, 'values': extra,
                           'case': c, 'term': p['term']})
    return 'violation'


def _violation_noquery(rep, p, c, why):
    rep.violations.append({'tag': c.tag, 'why': why, 'model': {}, 'values': None, 'case': c, 'term': p['term']})
    return 'violation'


# ------------------------------------------------------------------ replay on the real toolchain
GO_LIT = {
    'int8': 'int8(%d)', 'int16': 'int16(%d)', 'int32': 'int32(%d)', 'int64': 'int64(%d)', 'uint8': 'uint8(%d)', 'uint16': 'uint16(%d)',
    'uint32': 'uint32(%d)', 'uint64': 'uint64(%d)', 'int': 'int(%d)', 'uint': 'uint(%d)', 'uintptr': 'uintptr(%d)',
}


def replay_program(case, model):
    """The case as a closed Go program: Nondet* return the model's values (through variables, so nothing is constant-folded)."""
    src = ['package main\n', 'import "math"\n', 'var _ = math.Pi\n']
    tables = []
    decls = NONDET_DECLS
    # replace each Nondet function by a table look-up
    import re
    vals = {}
    for k, t in case.inputs.items():
        v = model.get('in_%d' % k)
        vals[k] = (t, v)

    def body_for(gotype):
        lines = ['\tswitch id {']
        for k, (t, v) in sorted(vals.items()):
            if t != gotype or v is None:
                continue
            lines.append('\tcase %d:\n\t\treturn %s' % (k, go_value(t, v)))
        lines.append('\t}')
        return '\n'.join(lines)

    def repl(m):
        name, rett = m.group(1), m.group(2)
        gotype = rett
        return 'func Nondet%s(id int) %s {\n%s\n\treturn %s\n}' % (name, rett, body_for(gotype), m.group(3))
    decls = re.sub(r'func Nondet(\w+)\(id int\) (\w+) \{ return ([^}]+) \}', repl, decls)
    src.append(decls)
    src.append(case.decl)
    src.append('\nfunc main() {\n%s\n}\n' % '\n'.join('\t' + ln for ln in case.body.split('\n')))
    return ''.join(src)


def go_value(t, v):
    if t in GO_LIT:
        return GO_LIT[t] % v
    if t == 'bool':
        return 'true' if v else 'false'
    if t in ('float64', 'float32'):
        bits = fp_bits(v, t)
        if t == 'float64':
            return 'math.Float64frombits(%d)' % bits
        return 'math.Float32frombits(%d)' % bits
    raise ValueError(t)


def fp_bits(v, t):
    if isinstance(v, dict) and 'fp' in v:
        sb, eb, ew, mb, mw = v['fp']
        return (sb << (ew + mw)) | (eb << mw) | mb
    if isinstance(v, dict) and 'fpspecial' in v:
        ew, sw = v['eb'], v['sb'] - 1
        k = v['fpspecial']
        if k == 'NaN':
            return (((1 << ew) - 1) << sw) | (1 << (sw - 1))
        if k == '+oo':
            return ((1 << ew) - 1) << sw
        if k == '-oo':
            return (1 << (ew + sw)) | (((1 << ew) - 1) << sw)
        if k == '+zero':
            return 0
        if k == '-zero':
            return 1 << (ew + sw)
    raise ValueError(v)


def replay(case, model, outdir):
    """Build the closed program with native go and with the real gopherjs; return both transcripts."""
    os.makedirs(outdir, exist_ok=True)
    src = replay_program(case, model)
    core.write_pkg(outdir, {'main.go': src}, module='replay')
    go_rc, go_out, go_err = core.go_run(outdir)
    ok, js = core.compile_js(outdir)
    if not ok:
        js_rc, js_out, js_err = None, '', js
    else:
        js_rc, js_out, js_err = core.node_run(js)
    for f in ('native.bin', 'out.js.map'):
        try:
            os.remove(os.path.join(outdir, f))
        except OSError:
            pass
    info = {'go': {'rc': go_rc, 'stdout': go_out, 'stderr': go_err[-1500:]}, 'js': {'rc': js_rc, 'stdout': js_out, 'stderr': js_err[-1500:]}}
    with open(os.path.join(outdir, 'transcript.json'), 'w') as f:
        json.dump(info, f, indent=1)
    return info


def normalise_output(rc, out, err):
    """Observable behaviour of a run: printed lines (println goes to stderr natively, stdout+stderr under node) + how it ended."""
    text = (out or '') + (err or '')
    lines = [ln.strip() for ln in text.split('\n') if ln.strip()]
    end = 'normal'
    keep = []
    for ln in lines:
        if 'integer divide by zero' in ln:
            end = 'panic: integer divide by zero'
        elif ln.startswith('panic:') or 'runtime error' in ln:
            if end == 'normal':
                end = 'panic: ' + ln.split('runtime error:')[-1].strip() if 'runtime error' in ln else ln
        elif ln.startswith('at ') or ln.startswith('goroutine ') or ln.startswith('main.') or ln.startswith('/') or ln.startswith('exit status') \
                or ln.startswith('throw ') or ln.startswith('^') or ln.startswith('Node.js') or ln.startswith('[') or ln.startswith('Error'):
            continue
        else:
            keep.append(ln)
    if rc not in (0, None) and end == 'normal':
        end = 'exit %s' % rc
    return keep, end
