"""Translation validation of "case programs": each case is a small Go function compiled by the real compiler;
its JavaScript is executed symbolically (engine/jsx) for ALL inputs and each path is compared, by z3, with a
reference written from the Go specification (vlib/gospec.py) or supplied by the harness."""
import json, os, sys, time, shutil, multiprocessing
from . import core, gospec

NONDET_DECLS = '''
//go:noinline
func NondetInt8(id int) int8 { return 0 }

//go:noinline
func NondetInt16(id int) int16 { return 0 }

//go:noinline
func NondetInt32(id int) int32 { return 0 }

//go:noinline
func NondetInt64(id int) int64 { return 0 }

//go:noinline
func NondetUint8(id int) uint8 { return 0 }

//go:noinline
func NondetUint16(id int) uint16 { return 0 }

//go:noinline
func NondetUint32(id int) uint32 { return 0 }

//go:noinline
func NondetUint64(id int) uint64 { return 0 }

//go:noinline
func NondetInt(id int) int { return 0 }

//go:noinline
func NondetUint(id int) uint { return 0 }

//go:noinline
func NondetUintptr(id int) uintptr { return 0 }

//go:noinline
func NondetBool(id int) bool { return false }

//go:noinline
func NondetFloat32(id int) float32 { return 0 }

//go:noinline
func NondetFloat64(id int) float64 { return 0 }

//go:noinline
func NondetRange(id int, lo int, hi int) int { return lo }

//go:noinline
func NondetString(id int, maxLen int) string { return "" }

//go:noinline
func NondetUint32L(id int) uint32 { return 0 }

//go:noinline
func NondetInt64R(id int, lo, hi int64) int64 { return lo }

//go:noinline
func NondetUint64R(id int, lo, hi uint64) uint64 { return lo }

//go:noinline
func VerifOutI64(tag string, v int64) { println(tag, int32(v>>32), uint32(v)) }

//go:noinline
func VerifOutU64(tag string, v uint64) { println(tag, uint32(v>>32), uint32(v)) }

//go:noinline
func VerifOutF64(tag string, v float64) { println(tag, v) }

//go:noinline
func VerifOutF32(tag string, v float32) { println(tag, v) }

//go:noinline
func VerifOutC128(tag string, v complex128) { println(tag, real(v), imag(v)) }

//go:noinline
func VerifOutC64(tag string, v complex64) { println(tag, real(v), imag(v)) }

//go:noinline
func VerifAssume(b bool) {}

//go:noinline
func VerifReach(k int) {}
'''

SEL_ID = 9999


class Mismatch(Exception):
    """raised by a reference when the shape of the JS trace (tags, kinds, counts) cannot equal the reference's"""


def arg(ev, k, kind='int'):
    """k-th argument term of a JS event, required to be of the given kind"""
    if k >= len(ev['args']):
        raise Mismatch()
    t, jk = ev['args'][k]
    if jk != kind:
        raise Mismatch()
    return t


def alts_match(evs, end, alts):
    """Reference given as alternatives [(condition, [(tag, [value terms])...], end)], end = 'normal' | ('panic', substring) |
    ('exit', code).  -> formula: some alternative has this path's shape, its condition holds and all values agree."""
    out = []
    for cond, events, aend in alts:
        if aend == 'normal':
            if end[0] != 'normal':
                continue
        elif aend[0] == 'panic':
            if end[0] != 'panic' or aend[1] not in (end[1] or ''):
                continue
        elif aend[0] == 'exit':
            if end[0] != 'exit' or end[1] != aend[1]:
                continue
        if len(events) != len(evs):
            continue
        cs = [cond]
        ok = True
        for e, (tag, vals) in zip(evs, events):
            if e['tag'] != tag or len(e['args']) != len(vals):
                ok = False
                break
            for (jt, jk), v in zip(e['args'], vals):
                if v is None:
                    continue        # the reference leaves this value open on this alternative
                if isinstance(v, tuple) and v[0] == 'bv':
                    # integer reference given as a bit-vector term ('bv', term, width, signed): compared inside the bit-vector theory when
                    # the JavaScript value carries a bit-vector view of that width, as integers otherwise
                    if jk != 'int':
                        ok = False
                        break
                    _, bt, bw, bsigned = v
                    if getattr(jt, 'bv', None) and jt.w == bw:
                        cs.append('(= %s %s)' % (jt.bv, bt))
                    elif bsigned:
                        cs.append('(= %s (let ((u (bv2int %s))) (ite (>= u %d) (- u %d) u)))' % (jt, bt, 1 << (bw - 1), 1 << bw))
                    else:
                        cs.append('(= %s (bv2int %s))' % (jt, bt))
                    continue
                if isinstance(v, tuple) and v[0] == 'f64eq':
                    # numeric equality of doubles (fp.eq: +0 = -0): for integer results compared in the floating-point domain
                    if jk not in ('f64', 'int'):
                        ok = False
                        break
                    cs.append('(fp.eq %s %s)' % (f64_of(jt, jk), v[1]))
                    continue
                if isinstance(v, tuple) and v[0] == 'f64':
                    # floating-point reference value; the JavaScript side may hold the number as an exact integer
                    if jk not in ('f64', 'int'):
                        ok = False
                        break
                    a_ = f64_of(jt, jk)
                    cs.append('(or (and (fp.isNaN %s) (fp.isNaN %s)) (= %s %s))' % (a_, v[1], a_, v[1]))
                    continue
                if jk in ('int', 'bool'):
                    cs.append('(= %s %s)' % (jt, v))
                elif jk == 'f64':
                    # floating-point observation: equal as IEEE values (any NaN equals any NaN, the sign of zero is distinguished)
                    cs.append('(or (and (fp.isNaN %s) (fp.isNaN %s)) (= %s %s))' % (jt, v, jt, v))
                elif jk == 'str':
                    # v: list of byte terms / ints, or a Python str
                    want = [str(ord(ch)) for ch in v] if isinstance(v, str) else [str(x) for x in v]
                    if len(want) != len(jt):
                        ok = False
                        break
                    cs += ['(= %s %s)' % (a, b) for a, b in zip([str(x) for x in jt], want)]
                else:
                    ok = False
                    break
            if not ok:
                break
        if ok:
            out.append('(and %s)' % ' '.join(c for c in cs) if cs else 'true')
    if not out:
        return 'false'
    return '(or %s)' % ' '.join(out) if len(out) > 1 else out[0]


def trace_case(tag, decl, body, alts_fn, inputs=None, files=None):
    """Case whose reference is alts_fn(inputs_of_path) -> alternatives (see alts_match).
    files: extra source files of the program ({'sub/sub.go': text}); the module is named verifprog."""
    c = Case(tag, decl, body, inputs or {}, lambda names: {'trace': lambda evs, end, inp: alts_match(evs, end, alts_fn(inp))})
    c.files = files or {}
    return c


class Case:
    def __init__(self, tag, decl, body, inputs, ref, note=None):
        self.tag = tag          # unique identifier, printed by the case
        self.decl = decl        # Go declarations
        self.body = body        # Go statements run when the case is selected
        self.inputs = inputs    # {id: gotype}
        self.ref = ref          # f(names: {id: smt var}) -> dict(panic=cond|None, value=term, kind=...)
        self.note = note
        self.files = {}         # extra files (other packages / other files of package main)


def _hoist_imports(text):
    import re
    imps = re.findall(r'^import "[^"]+"[ \t]*$', text, flags=re.M)
    return sorted(set(i.strip() for i in imps)), re.sub(r'^import "[^"]+"[ \t]*$', '', text, flags=re.M)


def program_source(cases):
    alld = []
    for c in cases:
        alld += list(c.decl) if isinstance(c.decl, (list, tuple)) else [c.decl]
    imps, _ = _hoist_imports('\n'.join(alld))
    parts = ['package main\n', '\n'.join(imps) + '\n', NONDET_DECLS]
    seen = set()
    for c in cases:
        for d in (c.decl if isinstance(c.decl, (list, tuple)) else [c.decl]):
            if d not in seen:      # shared declaration blocks are emitted once per program
                seen.add(d)
                parts.append(_hoist_imports(d)[1])
    parts.append('\nfunc main() {\n\tswitch NondetRange(%d, 0, %d) {\n' % (SEL_ID, max(len(cases) - 1, 0)))
    for i, c in enumerate(cases):
        parts.append('\tcase %d:\n%s\n' % (i, '\n'.join('\t\t' + ln for ln in c.body.split('\n'))))
    parts.append('\t}\n}\n')
    return ''.join(parts)


class TermBV(str):
    """An Int term that also has a bit-vector view (attribute bv, width w) with the same two's-complement pattern, and/or a condition
    (negz) under which the JavaScript number is -0 rather than +0 (only visible when the value is used as a double)."""
    bv = None
    w = 0
    negz = None


def obs_term(a):
    """SMT term + sort for one serialised observation argument."""
    if 'i64' in a:
        h, l = a['i64']
        t = '(+ (* %s 4294967296) %s)' % (h['i'], l['i'])
        if h.get('bv32') and l.get('bv32'):
            t = TermBV(t)
            t.bv, t.w = '(concat %s %s)' % (h['bv32'], l['bv32']), 64
        return t, 'int'
    if 'i' in a:
        if a.get('bv32') or a.get('negz'):
            t = TermBV(a['i'])
            if a.get('bv32'):
                t.bv, t.w = a['bv32'], 32
            t.negz = a.get('negz')
            return t, 'int'
        return a['i'], 'int'
    if 'b' in a:
        return a['b'], 'bool'
    if 'f' in a:
        return a['f'], 'f64'
    if 'cplx' in a:
        return (obs_term(a['cplx'][0])[0], obs_term(a['cplx'][1])[0]), 'cplx'
    if 's' in a:
        return a['s'], 'str'
    return None, 'other'


def f64_of(term, kind):
    if kind == 'f64':
        return term
    if kind == 'int':
        conv = '((_ to_fp 11 53) RNE ((_ int2bv 66) %s))' % term       # observed integers are Go integers of at most 64 bits
        if getattr(term, 'negz', None):
            return '(ite %s (fp.neg ((_ to_fp 11 53) RNE 0.0)) %s)' % (term.negz, conv)
        return conv
    raise ValueError(kind)


_WORK = {}


def _explore_chunk(idx):
    """Worker: compile, explore and verify one chunk of cases; returns a Report (cases referenced by tag only)."""
    ch, workdir, cfg, known, z3_timeout_ms = _WORK['chunks'][idx], _WORK['workdir'], _WORK['cfg'], _WORK['known'], _WORK['z3_timeout_ms']
    rep = Report()
    rep.known = known
    rep.programs = 1
    d = os.path.join(workdir, 'prog%d' % idx)
    files = {'main.go': program_source(ch)}
    for c in ch:
        files.update(getattr(c, 'files', None) or {})
    core.write_pkg(d, files)
    t0 = time.time()
    ok, out = core.compile_js(d, minify=bool(_WORK.get('minify')), keep_all=bool(_WORK.get('keep_all')))
    if not ok:
        import re as _re
        # an internal error is either reported by the compiler's own bailout or is a Go panic that kills the compiler process
        crash = _re.search(r'(?m)^panic: [^\n]*', out) if 'goroutine ' in out and 'gopherjs/compiler' in out else None
        internal = '[compiler panic]' in out or 'internal compiler error' in out or bool(crash)
        for c in ch:
            rep.cases += 1
            if internal and len(ch) == 1:
                # the compiler aborted with an internal error on a valid program: a violation of "accepted without an internal error"
                # (replayed like any other: native go builds and runs it, the real gopherjs fails)
                m = _re.search(r'\[compiler panic\][^\n]*', out) or crash
                kn = [k for k in known if k.get('status', 'known') == 'known' and _re.fullmatch(k['harness'], c.tag) and k.get('class_smt') == 'true']
                if kn:
                    rep.known_hits.append({'tag': c.tag, 'finding': kn[0], 'model': {}})
                else:
                    rep.violations.append({'tag': c.tag, 'why': 'the compiler fails with an internal error: ' + (m.group(0) if m else out[-200:]), 'model': {}, 'values': None, 'case': c, 'term': {'kind': 'build'}})
            else:
                rep.inconclusive.append({'tag': c.tag, 'reason': 'template does not compile: ' + out[-400:]})
        for v in rep.violations:
            v['case'] = v['case'].tag
        return rep
    t1 = time.time()
    try:
        res = core.explore(out, cfg)
    except Exception as e:  # noqa
        # the engine could not even load the file: if node itself rejects it, the compiler emitted invalid JavaScript (a violation, replayed
        # like any other: native go runs the program, node does not)
        chk = core.run(['node', '--check', out], check=False)
        for c in ch:
            rep.cases += 1
            if chk.returncode != 0 and len(ch) == 1:
                msg = [ln for ln in chk.stderr.split('\n') if 'Error' in ln]
                rep.violations.append({'tag': c.tag, 'why': 'the emitted file is not syntactically valid JavaScript: ' + (msg[0] if msg else chk.stderr[-200:]), 'model': {}, 'values': None, 'case': c.tag, 'term': {'kind': 'syntax'}})
            else:
                rep.inconclusive.append({'tag': c.tag, 'reason': 'engine error: ' + str(e)[-400:]})
        return rep
    rep.compile_s = t1 - t0
    rep.explore_s = time.time() - t1
    rep.engine_queries = res['queries']
    rep.engine_solver_s = res['solverMs'] / 1000.0
    if res.get('solverErrors'):
        rep.solver_errors = res['solverErrors'][:3]
    # a case may ask for a longer comparison budget (attribute z3_timeout_ms); it applies to the chunk the case is in (heavy cases are alone)
    z3 = core.Z3Session(timeout_ms=max([z3_timeout_ms] + [getattr(c, 'z3_timeout_ms', 0) for c in ch]))
    try:
        _verify_program(rep, z3, res, ch)
    finally:
        rep.queries = z3.queries
        rep.solver_s = z3.solver_s
        rep.solver_errors = getattr(rep, 'solver_errors', []) + z3.errors[:3]
        z3.close()
    for v in rep.violations:
        v['case'] = v['case'].tag
    shutil.rmtree(d, ignore_errors=True)
    sys.stderr.write('[chunk %d] %d cases, %d paths, %d verified, explore %.1fs, compare %.1fs (%s)\n' % (
        idx, len(ch), rep.paths, len(rep.verified_cases), rep.explore_s, rep.solver_s, ch[0].tag))
    return rep


class Report:
    def __init__(self):
        self.programs = 0
        self.cases = 0
        self.paths = 0
        self.queries = 0
        self.solver_s = 0.0
        self.engine_queries = 0
        self.engine_solver_s = 0.0
        self.violations = []      # dicts
        self.inconclusive = []    # dicts (tag, reason)
        self.verified_cases = []  # tags fully verified
        self.samples = []
        self.spurious = []
        self.flags = {}
        self.compile_s = 0.0
        self.explore_s = 0.0
        self.known = []
        self.known_hits = []
        self.solver_errors = []
        self.case_times = []

    def merge(self, o):
        for k in ('programs', 'cases', 'paths', 'queries', 'solver_s', 'engine_queries', 'engine_solver_s', 'compile_s', 'explore_s'):
            setattr(self, k, getattr(self, k) + getattr(o, k))
        for k in ('violations', 'inconclusive', 'verified_cases', 'known_hits', 'solver_errors', 'case_times'):
            getattr(self, k).extend(getattr(o, k))
        for s_ in o.samples:
            if len(self.samples) < 12:
                self.samples.append(s_)
        for k, v in o.flags.items():
            self.flags[k] = self.flags.get(k, 0) + v


def check_cases(cases, workdir, chunk=40, cfg=None, jobs=None, z3_timeout_ms=30000, report=None, progress=None, known=None, minify=False, keep_all=False, heavy=None):
    """Compile, explore and verify all cases (in parallel, one process per chunk).  Returns a Report."""
    rep = report or Report()
    rep.known = known or []
    # cases named by `heavy` get a program (and worker) of their own and are started first, so that one slow comparison
    # does not serialise behind others
    hv = [c for c in cases if heavy and heavy(c)]
    rest = [c for c in cases if not (heavy and heavy(c))]
    chunks = [[c] for c in hv] + [rest[i:i + chunk] for i in range(0, len(rest), chunk)]
    _WORK.update(chunks=chunks, workdir=workdir, cfg=dict(cfg or {}), known=known or [], z3_timeout_ms=z3_timeout_ms, minify=minify, keep_all=keep_all)
    if keep_all:
        core.gopherjs_keepall_bin()
    jobs = jobs or min(len(chunks), max(1, (os.cpu_count() or 4)))
    core.gopherjs_bin()     # build the compiler once, before forking
    t0 = time.time()
    results = []
    if jobs > 1 and len(chunks) > 1:
        import concurrent.futures
        ctx = multiprocessing.get_context('fork')
        with concurrent.futures.ProcessPoolExecutor(max_workers=jobs, mp_context=ctx) as ex:
            futs = {ex.submit(_explore_chunk, i): i for i in range(len(chunks))}
            for f in concurrent.futures.as_completed(futs):
                i = futs[f]
                try:
                    results.append(f.result())
                except Exception as e:  # noqa  (worker crashed)
                    r = Report()
                    r.programs = 1
                    for c in chunks[i]:
                        r.cases += 1
                        r.inconclusive.append({'tag': c.tag, 'reason': 'worker failed: %s' % str(e)[:200]})
                    results.append(r)
    else:
        results = [_explore_chunk(i) for i in range(len(chunks))]
    bytag = {c.tag: c for c in cases}
    for r in results:
        rep.merge(r)
    for v in rep.violations:
        v['case'] = bytag[v['case']]
    rep.wall_s = time.time() - t0
    return rep


def path_selector(p):
    return None


def _verify_program(rep, z3, res, cases):
    smt_prelude = res['smtPrelude']
    by_case = {}
    unrouted = []
    for p in res['paths']:
        rep.paths += 1
        for k, v in p.get('flags', {}).items():
            rep.flags[k] = rep.flags.get(k, 0) + 1
        # which case does the path belong to?  decided by the solver from the selector
        by_case.setdefault(_route(z3, smt_prelude, p, len(cases)), []).append(p)
    if res.get('truncated') or res.get('pendingLeft'):
        for c in cases:
            rep.cases += 1
            rep.inconclusive.append({'tag': c.tag, 'reason': 'path budget exhausted (%d paths left unexplored)' % res.get('pendingLeft', 0)})
        return
    for i, c in enumerate(cases):
        rep.cases += 1
        paths = by_case.get(i, [])
        ok = True
        _t_case = time.time()
        if not paths:
            rep.inconclusive.append({'tag': c.tag, 'reason': 'no path reached this case (vacuous)'})
            continue
        names = {k: 'in_%d' % k for k in c.inputs}
        ref = c.ref(names)
        all_inputs = {}
        for p in paths:
            all_inputs.update(p['inputs'])
        for p in paths:
            verdict = _verify_path(rep, z3, smt_prelude, p, c, ref)
            if verdict not in ('ok', 'known'):
                ok = False
        # coverage: every input of the case lies on some explored path
        lines = [gospec.PREAMBLE, smt_prelude] + core.input_decls(all_inputs)
        seen = set()
        for p in paths:
            for d in p['defs']:
                if d not in seen:
                    seen.add(d)
                    lines.append(d)
        lines.append('(assert (= in_%d %d))' % (SEL_ID, i))
        lines.append('(assert (not (or false %s)))' % ' '.join('(and true %s)' % ' '.join(p['pc']) for p in paths))
        r, _, _ = z3.solve(lines)
        if r != 'unsat':
            ok = False
            rep.inconclusive.append({'tag': c.tag, 'reason': 'coverage of the input space not shown (%s)' % r})
        rep.case_times.append((round(time.time() - _t_case, 1), c.tag))
        if ok:
            rep.verified_cases.append(c.tag)
            if len(rep.samples) < 12:
                rep.samples.append({'case': c.tag, 'go': (''.join(c.decl) if isinstance(c.decl, (list, tuple)) else c.decl).strip()[-200:] + ' | ' + c.body[:200], 'paths': len(paths), 'ref': str(ref.get('value'))[:200],
                                    'js_value': json.dumps(paths[0]['obs'][-1]['args'][-1])[:300] if paths[0]['obs'] else None})


def _base(prelude, p):
    return [gospec.PREAMBLE, prelude] + core.input_decls(p['inputs']) + list(p['defs']) + ['(assert %s)' % c for c in p['pc']]


def _route(z3, prelude, p, n):
    sel = p['inputs'].get('in_%d' % SEL_ID)
    if sel is None:
        return 0 if n == 1 else None
    r, model, _ = z3.solve(_base(prelude, p), get=['in_%d' % SEL_ID])
    if r == 'sat':
        return model.get('in_%d' % SEL_ID)
    return None


def _verify_path(rep, z3, prelude, p, c, ref):
    term = p['term']
    kind = term['kind']
    if kind in ('unsupported', 'bound', 'assume'):
        if kind == 'assume':
            return 'ok'
        rep.inconclusive.append({'tag': c.tag, 'reason': '%s: %s' % (kind, term.get('detail'))})
        return 'inconclusive'
    panic = ref.get('panic')
    base = _base(prelude, p)
    names = [k for k, d in p['inputs'].items() if not d.get('assert')]
    if ref.get('trace') is not None:
        # general form: the harness states, as one SMT formula over the inputs, that the reference produces exactly the
        # events of this path (same tags, same values) and ends the same way
        if kind not in ('normal', 'uncaught', 'exit'):
            rep.violations.append({'tag': c.tag, 'why': 'unexpected termination %s' % json.dumps(term)[:300], 'model': {}, 'values': None, 'case': c, 'term': term})
            return 'violation'
        evs = []
        for o in p['obs']:
            if o['k'] not in ('log', 'out', 'err'):
                continue
            args = [obs_term(a) for a in o['args']]
            evs.append({'k': o['k'], 'tag': o['args'][0].get('c') if o['args'] else None, 'args': args[1:], 'raw': o['args']})
        if kind == 'normal':
            end = ('normal', None)
        elif kind == 'exit':
            end = ('exit', term.get('code'))
        else:
            end = ('panic', term['msg'].get('c', ''))
        try:
            m = ref['trace'](evs, end, p['inputs'])
        except Mismatch:
            m = 'false'
        except Exception as e:  # noqa
            return _inconclusive(rep, c, 'reference could not be evaluated on this path: %s' % str(e)[:200])
        if m is None:
            m = 'false'
        return _decide(rep, z3, base, '(not %s)' % m, p, c, names, 'trace differs from the reference (events=%d, end=%s)' % (len(evs), end[0]), None, ref)
    if kind == 'uncaught':
        msg = term['msg'].get('c', '')
        want = ref.get('panic_msg', 'runtime error: integer divide by zero')
        if panic is None or want not in msg:
            cond = 'true'
            why = 'JavaScript raises %r where the reference %s' % (msg, 'never panics' if panic is None else 'panics with ' + want)
        else:
            cond = '(not %s)' % panic
            why = 'JavaScript raises %r on an input where Go does not panic' % msg
        return _decide(rep, z3, base, cond, p, c, names, why, None, ref)
    if kind == 'normal':
        outs = [o for o in p['obs'] if o['k'] in ('log', 'out')]
        if len(outs) != 1:
            return _inconclusive(rep, c, 'expected exactly one output, got %d' % len(outs))
        args = outs[0]['args']
        tagarg = args[0].get('c')
        if tagarg != c.tag:
            return _inconclusive(rep, c, 'output tag %r does not match case' % tagarg)
        jsv, jk = obs_term(args[-1])
        cmp_ = _compare(jsv, jk, ref)
        if cmp_ is None:
            return _inconclusive(rep, c, 'cannot compare JS %s with reference %s' % (jk, ref.get('kind')))
        cond = '(or %s (not %s))' % (panic, cmp_) if panic is not None else '(not %s)' % cmp_
        if ref.get('via') and ref.get('kind') == 'int' and jk == 'int':
            # the equality is proved through intermediate terms (each step a separate obligation); a failing step is
            # re-examined against the real reference with the inputs pinned to the solver's model
            steps = [jsv] + list(ref['via']) + [ref['value']]
            allok = True
            for a, b in zip(steps, steps[1:]):
                r, model, _ = z3.solve(base + ['(assert (not (= %s %s)))' % (a, b)], get=names)
                if r == 'unsat':
                    continue
                allok = False
                if r == 'sat':
                    pins = ['(assert (= %s %s))' % (k, core.lit(v)) for k, v in model.items() if isinstance(v, int) and not isinstance(v, bool)]
                    r2, _, _ = z3.solve(base + pins + ['(assert %s)' % cond])
                    if r2 == 'sat':
                        return _decide(rep, z3, base + pins, cond, p, c, names, 'value differs from the Go specification', jsv, ref)
                break
            if allok and panic is None:
                return 'ok'
            if allok:
                return _decide(rep, z3, base, panic, p, c, names, 'JavaScript returns a value where Go panics', jsv, ref)
            return _inconclusive(rep, c, 'a lemma step of the comparison was not discharged')
        return _decide(rep, z3, base, cond, p, c, names, 'value differs from the Go specification', jsv, ref)
    rep.violations.append({'tag': c.tag, 'why': 'unexpected termination %s' % json.dumps(term)[:300], 'model': {}, 'values': None, 'case': c, 'term': term})
    return 'violation'


def _decide(rep, z3, base, cond, p, c, names, why, jsv, ref):
    """cond = the violating condition.  unsat -> ok; sat -> split into known-finding classes and anything else."""
    import re
    classes = [k for k in rep.known if k.get('status', 'known') == 'known' and re.fullmatch(k['harness'], c.tag)]
    exprs = [jsv, ref['value']] if (jsv is not None and isinstance(jsv, str) and isinstance(ref.get('value'), str)) else None
    lines = base + ['(assert %s)' % cond] + ['(assert (not %s))' % k['class_smt'] for k in classes]
    r, model, vals = z3.solve(lines, get=names, exprs=exprs)
    if r == 'unknown':
        return _inconclusive(rep, c, 'solver unknown/timeout on comparison')
    if r == 'sat':
        rep.violations.append({'tag': c.tag, 'why': why, 'model': model, 'values': vals, 'case': c, 'term': p['term'], 'inputs': p['inputs']})
        return 'violation'
    if not classes:
        return 'ok'
    # nothing outside the listed classes; which of them occur on this path?
    hit = False
    for k in classes:
        r2, model2, _ = z3.solve(base + ['(assert %s)' % cond, '(assert %s)' % k['class_smt']], get=names)
        if r2 == 'sat':
            hit = True
            rep.known_hits.append({'tag': c.tag, 'finding': k, 'model': model2})
        elif r2 == 'unknown':
            return _inconclusive(rep, c, 'solver unknown while separating known findings')
    return 'known' if hit else 'ok'


def _compare(jsv, jk, ref):
    k = ref.get('kind')
    v = ref.get('value')
    if k == 'int' and jk == 'int':
        return '(= %s %s)' % (jsv, v)
    if k == 'bool' and jk == 'bool':
        return '(= %s %s)' % (jsv, v)
    if k == 'bool' and jk == 'int':
        return '(= (not (= %s 0)) %s)' % (jsv, v)
    if k in ('f64', 'f32') and jk in ('f64', 'int'):
        # IEEE equality up to NaN (any NaN equals any NaN), signed zeros distinguished
        a = f64_of(jsv, jk)
        return '(or (and (fp.isNaN %s) (fp.isNaN %s)) (= %s %s))' % (a, v, a, v)
    if k == 'cplx' and jk == 'cplx':
        parts = []
        for a, b in zip(jsv, v):
            parts.append('(or (and (fp.isNaN %s) (fp.isNaN %s)) (= %s %s))' % (a, b, a, b))
        return '(and %s)' % ' '.join(parts)
    return None


def _inconclusive(rep, c, why):
    rep.inconclusive.append({'tag': c.tag, 'reason': why})
    return 'inconclusive'


# ------------------------------------------------------------------ replay on the real toolchain
GO_LIT = {
    'int8': 'int8(%d)', 'int16': 'int16(%d)', 'int32': 'int32(%d)', 'int64': 'int64(%d)', 'uint8': 'uint8(%d)', 'uint16': 'uint16(%d)',
    'uint32': 'uint32(%d)', 'uint64': 'uint64(%d)', 'int': 'int(%d)', 'uint': 'uint(%d)', 'uintptr': 'uintptr(%d)',
}


def replay_program(case, model):
    """The case as a closed Go program: Nondet* return the model's values (through variables, so nothing is constant-folded)."""
    src = ['package main\n', 'import "math"\n', 'var _ = math.Pi\n']
    tables = []
    decls = NONDET_DECLS
    # replace each Nondet function by a table look-up
    import re
    RANGES = {'int8': (-128, 127), 'int16': (-32768, 32767), 'int32': (-2**31, 2**31 - 1), 'int64': (-2**63, 2**63 - 1), 'int': (-2**31, 2**31 - 1),
              'uint8': (0, 255), 'uint16': (0, 65535), 'uint32': (0, 2**32 - 1), 'uint64': (0, 2**64 - 1), 'uint': (0, 2**32 - 1), 'uintptr': (0, 2**32 - 1)}
    ids = {}
    for name, v in model.items():
        m_ = re.fullmatch(r'in_(\d+)', name)
        if m_:
            ids[int(m_.group(1))] = v

    def body_for(gotype):
        lines = ['\tswitch id {']
        for k, v in sorted(ids.items()):
            declared = case.inputs.get(k)
            if declared is not None and declared != gotype:
                continue
            if gotype in RANGES:
                if isinstance(v, bool) or not isinstance(v, int) or not (RANGES[gotype][0] <= v <= RANGES[gotype][1]):
                    continue
            elif gotype == 'bool':
                if not isinstance(v, bool):
                    continue
            elif gotype in ('float32', 'float64'):
                if not isinstance(v, dict):
                    continue
                ew = v['fp'][2] if 'fp' in v else v.get('eb')
                if ew != (8 if gotype == 'float32' else 11):
                    continue
            else:
                continue
            try:
                lines.append('\tcase %d:\n\t\treturn %s' % (k, go_value(gotype, v)))
            except ValueError:
                pass
        lines.append('\t}')
        return '\n'.join(lines)

    def repl(m):
        name, rett = m.group(1), m.group(2)
        gotype = rett
        return 'func Nondet%s(id int) %s {\n%s\n\treturn %s\n}' % (name, rett, body_for(gotype), m.group(3))
    decls = re.sub(r'func Nondet(\w+)\(id int\) (\w+) \{ return ([^}]+) \}', repl, decls)
    # ranges and strings: look the values up in the model by input id
    rng_lines, str_lines, r64_lines = [], [], {'Int64R': [], 'Uint64R': []}
    for name, v in sorted(model.items()):
        m = re.fullmatch(r'in_(\d+)', name)
        if m and isinstance(v, int) and not isinstance(v, bool):
            rng_lines.append('\tcase %s:\n\t\treturn %d' % (m.group(1), v) if -(1 << 31) <= v < (1 << 31) else '')
            if -(1 << 63) <= v < (1 << 63):
                r64_lines['Int64R'].append('\tcase %s:\n\t\treturn %d' % (m.group(1), v))
            if 0 <= v < (1 << 64):
                r64_lines['Uint64R'].append('\tcase %s:\n\t\treturn %d' % (m.group(1), v))
        m = re.fullmatch(r'in_(\d+)_len', name)
        if m:
            n = v if isinstance(v, int) else 0
            bs = [model.get('in_%s_%d' % (m.group(1), k), 0) for k in range(n)]
            str_lines.append('\tcase %s:\n\t\treturn "%s"' % (m.group(1), ''.join('\\x%02x' % (b & 255) for b in bs)))
    decls = decls.replace('func NondetRange(id int, lo int, hi int) int { return lo }',
                          'func NondetRange(id int, lo int, hi int) int {\n\tswitch id {\n%s\n\t}\n\treturn lo\n}' % '\n'.join(x for x in rng_lines if x))
    decls = decls.replace('func NondetString(id int, maxLen int) string { return "" }',
                          'func NondetString(id int, maxLen int) string {\n\tswitch id {\n%s\n\t}\n\treturn ""\n}' % '\n'.join(str_lines))
    decls = decls.replace('func NondetInt64R(id int, lo, hi int64) int64 { return lo }',
                          'func NondetInt64R(id int, lo, hi int64) int64 {\n\tswitch id {\n%s\n\t}\n\treturn lo\n}' % '\n'.join(r64_lines['Int64R']))
    decls = decls.replace('func NondetUint64R(id int, lo, hi uint64) uint64 { return lo }',
                          'func NondetUint64R(id int, lo, hi uint64) uint64 {\n\tswitch id {\n%s\n\t}\n\treturn lo\n}' % '\n'.join(r64_lines['Uint64R']))
    # floating-point outputs are replayed as bit patterns: the documented difference in how println renders floats must not
    # show up as a difference between the two toolchains
    decls = decls.replace('func VerifOutF64(tag string, v float64) { println(tag, v) }',
                          'func VerifOutF64(tag string, v float64) {\n\tif v != v {\n\t\tprintln(tag, "NaN")\n\t\treturn\n\t}\n\tb := math.Float64bits(v)\n\tprintln(tag, uint32(b>>32), uint32(b))\n}')
    decls = decls.replace('func VerifOutF32(tag string, v float32) { println(tag, v) }',
                          'func VerifOutF32(tag string, v float32) {\n\tif v != v {\n\t\tprintln(tag, "NaN")\n\t\treturn\n\t}\n\tprintln(tag, math.Float32bits(v))\n}')
    src.append(decls)
    cdecl = ''.join(case.decl) if isinstance(case.decl, (list, tuple)) else case.decl
    imps, cdecl = _hoist_imports(cdecl)
    for i in imps:
        if i not in src[1]:
            src[1] += i + '\n'
    cdecl = bake_yields(cdecl, model)
    src.append(cdecl)
    src.append('\nfunc main() {\n%s\n}\n' % '\n'.join('\t' + ln for ln in case.body.split('\n')))
    return ''.join(src)


def bake_yields(text, model):
    """Replace the yield intrinsic by a table look-up that yields exactly at the dynamic calls the model selects."""
    if 'func VerifYield() { runtime.Gosched() }' not in text:
        return text
    ys = sorted((int(k[6:]), v) for k, v in model.items() if k.startswith('yield_'))
    n = (ys[-1][0] + 1) if ys else 0
    tab = ', '.join('true' if dict(ys).get(i) else 'false' for i in range(n))
    return text.replace('func VerifYield() { runtime.Gosched() }',
                        'func VerifYield() {\n\ti := yieldIdx\n\tyieldIdx++\n\tif i < len(yieldTable) && yieldTable[i] {\n\t\truntime.Gosched()\n\t}\n}\n\nvar yieldTable = []bool{%s}\nvar yieldIdx int\n' % tab)


def go_value(t, v):
    if t in GO_LIT:
        return GO_LIT[t] % v
    if t == 'bool':
        return 'true' if v else 'false'
    if t in ('float64', 'float32'):
        bits = fp_bits(v, t)
        if t == 'float64':
            return 'math.Float64frombits(%d)' % bits
        return 'math.Float32frombits(%d)' % bits
    raise ValueError(t)


def fp_bits(v, t):
    if isinstance(v, dict) and 'fp' in v:
        sb, eb, ew, mb, mw = v['fp']
        return (sb << (ew + mw)) | (eb << mw) | mb
    if isinstance(v, dict) and 'fpspecial' in v:
        ew, sw = v['eb'], v['sb'] - 1
        k = v['fpspecial']
        if k == 'NaN':
            return (((1 << ew) - 1) << sw) | (1 << (sw - 1))
        if k == '+oo':
            return ((1 << ew) - 1) << sw
        if k == '-oo':
            return (1 << (ew + sw)) | (((1 << ew) - 1) << sw)
        if k == '+zero':
            return 0
        if k == '-zero':
            return 1 << (ew + sw)
    raise ValueError(v)


def replay(case, model, outdir, minify=False, keep_all=False):
    """Build the closed program with native go and with the real gopherjs; return both transcripts."""
    os.makedirs(outdir, exist_ok=True)
    src = replay_program(case, model)
    files = {'main.go': src}
    files.update({k: bake_yields(v, model) for k, v in (getattr(case, 'files', None) or {}).items()})
    core.write_pkg(outdir, files, module='verifprog' if getattr(case, 'files', None) else 'replay')
    go_rc, go_out, go_err = core.go_run(outdir)
    ok, js = core.compile_js(outdir, minify=minify, keep_all=keep_all)
    if not ok:
        js_rc, js_out, js_err = None, '', js
    else:
        js_rc, js_out, js_err = core.node_run(js)
    for f in ('native.bin', 'out.js.map'):
        try:
            os.remove(os.path.join(outdir, f))
        except OSError:
            pass
    info = {'go': {'rc': go_rc, 'stdout': go_out, 'stderr': go_err[-1500:]}, 'js': {'rc': js_rc, 'stdout': js_out, 'stderr': js_err[-1500:]}}
    with open(os.path.join(outdir, 'transcript.json'), 'w') as f:
        json.dump(info, f, indent=1)
    return info


def smt_value(v):
    if isinstance(v, bool):
        return 'true' if v else 'false'
    if isinstance(v, int):
        return core.lit(v)
    if isinstance(v, dict) and 'fp' in v:
        sb, eb, ew, mb, mw = v['fp']
        return '(fp #b%s #b%s #b%s)' % (format(sb, 'b'), format(eb, '0%db' % ew), format(mb, '0%db' % mw))
    if isinstance(v, dict) and 'fpspecial' in v:
        return '(_ %s %d %d)' % (v['fpspecial'], v['eb'], v['sb'])
    return None


def f64_literal(x):
    import struct
    bits = struct.unpack('>Q', struct.pack('>d', x))[0]
    return '(fp #b%s #b%s #b%s)' % (format(bits >> 63, 'b'), format((bits >> 52) & 0x7ff, '011b'), format(bits & ((1 << 52) - 1), '052b'))


def concrete_events(case, lines):
    """Printed lines of a real run -> events in the shape the references consume (tag + typed concrete values)."""
    import re as _re
    text = (''.join(case.decl) if isinstance(case.decl, (list, tuple)) else case.decl) + case.body
    t64 = set(_re.findall(r'VerifOut[IU]64\("(\w+)"', text))
    tf = set(_re.findall(r'VerifOutF(?:64|32)\("(\w+)"', text))
    evs = []
    for ln in lines:
        toks = ln.split(' ')
        tag, rest = toks[0], toks[1:]
        args = []
        if tag in t64 and len(rest) == 2 and all(_re.fullmatch(r'-?\d+', t) for t in rest):
            args.append((core.lit(int(rest[0]) * 4294967296 + int(rest[1])), 'int'))
        elif tag in tf and len(rest) == 1:
            try:
                args.append((f64_literal(float(rest[0].replace('Infinity', 'inf'))), 'f64'))
            except ValueError:
                args.append(([ord(ch) for ch in rest[0]], 'str'))
        else:
            for t in rest:
                if t in ('true', 'false'):
                    args.append((t, 'bool'))
                elif _re.fullmatch(r'-?\d+', t):
                    args.append((core.lit(int(t)), 'int'))
                else:
                    args.append(([b for b in t.encode('utf8', 'surrogateescape')], 'str'))
        evs.append({'k': 'log', 'tag': tag, 'args': args, 'raw': ln})
    return evs


def confirm_against_reference(case, v, js_lines, js_end, z3):
    """True if NO alternative of the reference produces the real JavaScript output for the model's inputs."""
    ref = case.ref({})
    if ref.get('trace') is None:
        return None
    evs = concrete_events(case, js_lines)
    if js_end == 'normal':
        end = ('normal', None)
    elif js_end.startswith('panic'):
        end = ('panic', js_end)
    elif js_end.startswith('exit'):
        end = ('exit', int(js_end.split()[1]))
    else:
        end = ('panic', js_end)
    try:
        m = ref['trace'](evs, end, v.get('inputs') or {})
    except Mismatch:
        m = 'false'
    lines = [gospec.PREAMBLE] + core.input_decls(v.get('inputs') or {})
    for k, val in v['model'].items():
        sv = smt_value(val)
        if sv is not None and k in (v.get('inputs') or {}) and (v['inputs'][k].get('def') is None):
            lines.append('(assert (= %s %s))' % (k, sv))
    lines.append('(assert %s)' % (m or 'false'))
    r, _, _ = z3.solve(lines)
    if r == 'unsat':
        return True
    if r == 'sat':
        return False
    return None


def normalise_output(rc, out, err):
    """Observable behaviour of a run: printed lines (println goes to stderr natively, stdout+stderr under node) + how it ended."""
    text = (out or '') + (err or '')
    lines = [ln.strip() for ln in text.split('\n') if ln.strip()]
    end = 'normal'
    keep = []
    for ln in lines:
        if 'integer divide by zero' in ln:
            end = 'panic: integer divide by zero'
        elif ln.startswith('panic:') or 'runtime error' in ln:
            if end == 'normal':
                end = 'panic: ' + ln.split('runtime error:')[-1].strip() if 'runtime error' in ln else ln
        elif ln.startswith('at ') or ln.startswith('goroutine ') or ln.startswith('main.') or ln.startswith('/') or ln.startswith('exit status') \
                or ln.startswith('throw ') or ln.startswith('^') or ln.startswith('Node.js') or ln.startswith('[') or ln.startswith('Error'):
            continue
        else:
            keep.append(ln)
    if rc not in (0, None) and end == 'normal':
        end = 'exit %s' % rc
    return keep, end
