"""Kernel checks with the gosym engine: in-package Go harnesses (harness/<id>/*.go, build tag verif) are injected into
/repo's package tree through an overlay (nothing is written to /repo), the package is loaded from /repo's CURRENT source
with go/packages, built to go/ssa, and the harness functions are executed symbolically by engine/gosym (a fork of
x/tools' ssa interpreter with symbolic scalars and an SMT solver deciding every branch, concretisation and assertion).
A violation's model is replayed natively: the same harness runs as ordinary Go code against the real package
(`go test -overlay`), and only what reproduces is reported."""
import json, os, re, shutil, subprocess, sys, time
from . import core

GOSYM_SRC = os.path.join(core.VERIF, 'engine', 'gosym')
TMPL = os.path.join(core.VERIF, 'vlib', 'goharness')
_bin = None


def gosym_bin():
    global _bin
    if _bin is None:
        out = os.path.join(core.scratch(), 'gosym')
        t0 = time.time()
        core.run(['go', 'build', '-o', out, './cmd/gosym'], cwd=GOSYM_SRC)
        sys.stderr.write('[build] gosym in %.1fs\n' % (time.time() - t0))
        _bin = out
    return _bin


def package_name(pkgdir):
    for f in sorted(os.listdir(os.path.join(core.REPO, pkgdir))):
        if f.endswith('.go') and not f.endswith('_test.go'):
            m = re.search(r'^package (\w+)', open(os.path.join(core.REPO, pkgdir, f)).read(), flags=re.M)
            if m:
                return m.group(1)
    raise RuntimeError('no package clause in ' + pkgdir)


class Kernel:
    """One target package + its harness files."""

    def __init__(self, pid, pkgdir, harness_files, init=(), stubs=(), native_patches=(), maporder=False, extra_overlay=None):
        self.pid, self.pkgdir = pid, pkgdir
        self.harness_files = list(harness_files)      # paths under /verif/harness/<pid>/
        self.init = list(init)
        self.stubs = list(stubs)                      # [(ssa function string, harness function name)]
        self.native_patches = list(native_patches)    # [(absolute real file, old text, new text)] for the native replay of stubs
        self.maporder = maporder
        self.extra_overlay = extra_overlay or {}      # {virtual abs path: text}
        self.work = os.path.join(core.scratch(), 'gokernel_%s_%s' % (pid, pkgdir.replace('/', '_')))
        os.makedirs(self.work, exist_ok=True)
        self.pkgname = package_name(pkgdir)

    def _materialise(self):
        files = {}
        names = []
        for hf in self.harness_files:
            text = open(os.path.join(core.VERIF, 'harness', self.pid, hf)).read()
            names += re.findall(r'^func (VHarness\w*)\(\)', text, flags=re.M)
            files['zz_verif_' + os.path.basename(hf)] = text
        files['zz_verif_intrinsics.go'] = open(os.path.join(TMPL, 'intrinsics.go.tmpl')).read().replace('PKGNAME', self.pkgname)
        files['zz_verif_registry.go'] = '//go:build verif\n\npackage %s\n\nvar vHarnesses = map[string]func(){\n%s}\n' % (
            self.pkgname, ''.join('\t"%s": %s,\n' % (n, n) for n in names))
        test = {'zz_verif_replay_test.go': open(os.path.join(TMPL, 'replay_test.go.tmpl')).read().replace('PKGNAME', self.pkgname)}
        mapping = {}
        for name, text in list(files.items()) + list(test.items()):
            real = os.path.join(self.work, name)
            with open(real, 'w') as f:
                f.write(text)
            mapping[os.path.join(core.REPO, self.pkgdir, name)] = real
        for virt, text in self.extra_overlay.items():
            real = os.path.join(self.work, 'extra_' + os.path.basename(virt))
            with open(real, 'w') as f:
                f.write(text)
            mapping[virt] = real
        self.names = names
        self.mapping = mapping
        return mapping

    def run(self, harness_re='^VHarness', maxpaths=200000, maxseconds=600, maxdecisions=4000, timeout_ms=20000, workers=None):
        workers = workers or min(12, os.cpu_count() or 4)
        mapping = self._materialise()
        sym_map = {k: v for k, v in mapping.items() if not k.endswith('_test.go')}
        ov = os.path.join(self.work, 'overlay.json')
        with open(ov, 'w') as f:
            json.dump(sym_map, f)
        out = os.path.join(self.work, 'result.json')
        cmd = [gosym_bin(), '-dir', core.REPO, '-pkg', './' + self.pkgdir, '-overlay', ov, '-harness', harness_re, '-out', out,
               '-solver', core.Z3, '-maxpaths', str(maxpaths), '-maxseconds', str(maxseconds), '-maxdecisions', str(maxdecisions), '-timeout', str(timeout_ms), '-workers', str(workers)]
        if self.init:
            cmd += ['-init', ','.join(self.init)]
        if self.stubs:
            cmd += ['-stub', ','.join('%s=%s' % (a, b) for a, b in self.stubs)]
        if self.maporder:
            cmd += ['-maporder']
        t0 = time.time()
        p = core.run(cmd, check=False, timeout=maxseconds * 8 + 600)
        self.stderr = p.stderr
        if p.returncode == 3:
            return {'skipped': 'harness does not build against the current tree: ' + p.stderr[-600:], 'results': []}
        if p.returncode != 0:
            return {'error': 'gosym failed (%d): %s' % (p.returncode, p.stderr[-1500:]), 'results': []}
        res = json.load(open(out))
        res['total_s'] = round(time.time() - t0, 1)
        return res

    def replay(self, harness, model, outdir):
        """Native replay of a model: -> (reproduced: bool|None, transcript)"""
        os.makedirs(outdir, exist_ok=True)
        mapping = dict(self.mapping)
        for realfile, old, new in self.native_patches:
            text = open(realfile).read()
            if old not in text:
                return None, 'native patch anchor not found in %s' % realfile
            dst = os.path.join(outdir, 'patched_' + os.path.basename(realfile))
            with open(dst, 'w') as f:
                f.write(text.replace(old, new, 1))
            mapping[realfile] = dst
        # keep copies of the harness so that the replay directory is self-contained
        repl = {}
        for virt, real in mapping.items():
            dst = os.path.join(outdir, os.path.basename(real))
            if os.path.abspath(real) != os.path.abspath(dst):
                shutil.copy(real, dst)
            repl[virt] = dst
        with open(os.path.join(outdir, 'overlay.json'), 'w') as f:
            json.dump({'Replace': repl}, f, indent=1)
        with open(os.path.join(outdir, 'model.json'), 'w') as f:
            json.dump({'harness': harness, 'model': model}, f, indent=1)
        # a counterexample that consists of a map iteration order cannot be forced natively (Go randomises it): the replay is repeated
        count = '40' if any(k_.startswith('maporder_') for k_ in model) else '1'
        cmd = ['go', 'test', '-tags', 'verif', '-vet=off', '-count=' + count, '-overlay', os.path.join(outdir, 'overlay.json'), '-run', '^TestVerifReplay$', '-v', './' + self.pkgdir]
        with open(os.path.join(outdir, 'README.txt'), 'w') as f:
            f.write('cd %s && VERIF_REPLAY_FILE=%s %s\n' % (core.REPO, os.path.join(outdir, 'model.json'), ' '.join(cmd)))
        env = dict(core.GOENV, VERIF_REPLAY_FILE=os.path.join(outdir, 'model.json'))
        p = core.run(cmd, cwd=core.REPO, env=env, check=False, timeout=600)
        text = p.stdout + p.stderr
        with open(os.path.join(outdir, 'transcript.txt'), 'w') as f:
            f.write(text)
        if 'REPLAY-VIOLATION' in text:
            return True, text[-1500:]
        if 'REPLAY:' in text:
            return False, text[-1500:]
        return None, text[-1500:]


def run_kernels(pid, kernels, tier, title, bounds, level='other', explanation='', assumptions=None, extra=None, harness_re='^VHarness', budgets=None, write=True):
    """Run all kernels of a property; print VIOLATION / KNOWN-FINDING lines; write evidence.  -> exit code"""
    t0 = time.time()
    known = core.load_known(pid)
    noev = bool(os.environ.get('VERIF_NO_EVIDENCE'))
    replay_root = os.path.join(core.scratch() if noev else os.path.join(core.VERIF, 'evidence'), 'replay', pid)
    shutil.rmtree(replay_root, ignore_errors=True)
    budgets = budgets or {}
    per = []
    violations, known_hits, spurious, skipped, inconclusive = [], [], [], [], []
    tot = {'paths': 0, 'asserts_ok': 0, 'queries': 0, 'solver_ms': 0, 'unknowns': 0}
    for k in kernels:
        only = os.environ.get('VERIF_ONLY')
        res = k.run(harness_re=only if (only and only.startswith('VHarness')) else harness_re, **budgets)
        if res.get('skipped'):
            skipped.append({'package': k.pkgdir, 'reason': res['skipped']})
            print('SKIP kernel %s: %s' % (k.pkgdir, res['skipped'][:300]))
            continue
        if res.get('error'):
            inconclusive.append({'package': k.pkgdir, 'reason': res['error']})
            print('  inconclusive: %s' % res['error'][:600])
            continue
        for r in res['results']:
            ends = r['ends']
            bad_ends = {e: n for e, n in r.get('end_detail', {}).items() if e.split(':')[0] in ('unsupported', 'bound')}
            rec = {'harness': r['harness'], 'package': k.pkgdir, 'paths': r['paths'], 'ends': ends, 'asserts_discharged': r['asserts_ok'], 'solver_queries': r['queries'],
                   'solver_ms': r['solver_ms'], 'wall_ms': r['wall_ms'], 'reached': r['reached'], 'inputs': len(r['inputs'] or []), 'max_decisions_on_a_path': r['max_decisions_on_a_path'],
                   'truncated': r['truncated'], 'unknown_answers': r['unknowns'], 'violations': len(r['violations'] or [])}
            complete = not r['truncated'] and not bad_ends and r['unknowns'] == 0 and r['pending_left'] == 0
            vacuous = not r['reached']
            rec['complete'] = complete and not vacuous
            if bad_ends:
                rec['not_explored'] = dict(list(bad_ends.items())[:6])
            if vacuous:
                rec['vacuous'] = 'no VReach marker was reached: the harness proves nothing'
            per.append(rec)
            for key in ('paths', 'queries', 'solver_ms', 'unknowns'):
                tot[key] += r[key if key != 'unknowns' else 'unknowns']
            tot['asserts_ok'] += r['asserts_ok']
            if not rec['complete']:
                inconclusive.append({'harness': r['harness'], 'reason': 'truncated' if r['truncated'] else ('vacuous' if vacuous else (list(bad_ends)[:2] or 'solver unknown'))})
            seen_msgs = set()
            for v in r['violations'] or []:
                if v['msg'] in seen_msgs:
                    continue
                seen_msgs.add(v['msg'])
                kn = [x for x in known if x.get('status', 'known') == 'known' and x.get('harness') == r['harness'] and x.get('assert') == v['msg']]
                outdir = os.path.join(replay_root, '%s_%d' % (r['harness'], len(seen_msgs)))
                ok, transcript = k.replay(r['harness'], v['model'], outdir)
                item = {'harness': r['harness'], 'assert': v['msg'], 'model': v['model'], 'replay': outdir, 'native': transcript[-400:]}
                if ok is True and kn:
                    known_hits.append((kn[0], item))
                elif ok is True:
                    violations.append(item)
                else:
                    spurious.append(item)
    for item in violations:
        print('VIOLATION property=%s replay=%s' % (pid, item['replay']))
        print('  harness %s: assertion %r fails; inputs %s' % (item['harness'], item['assert'], json.dumps(item['model'])[:400]))
    seen = set()
    for kn, item in known_hits:
        key = kn.get('id') or kn.get('what')
        if key in seen:
            continue
        seen.add(key)
        print('KNOWN-FINDING: property=%s %s (harness %s, inputs %s)' % (pid, kn['what'], item['harness'], json.dumps(item['model'])[:300]))
    ev = {
        'property_id': pid, 'tier': tier, 'seed': core.seed(), 'level': level, 'wall_s': round(time.time() - t0, 2), 'violations': len(violations),
        'coverage': {
            'explanation': explanation or title,
            'what': title, 'functions_encoded': 'go/ssa of the harness functions and of everything they call in /repo (and the standard library), built from the current working tree: ' + ', '.join(sorted(set(k.pkgdir for k in kernels))),
            'bounds': bounds, 'harnesses': per, 'obligations': tot['asserts_ok'] + len(violations) + len(spurious), 'discharged': tot['asserts_ok'],
            'paths_explored': tot['paths'], 'solver_queries': tot['queries'], 'solver_s': round(tot['solver_ms'] / 1000.0, 2), 'solver': core.Z3,
            'unwinding_assertions': 'every path is followed to its end; a path exceeding the decision/call-depth budget is reported as "bound" and makes its harness incomplete (never silently cut)',
            'stubs': [{'package': k.pkgdir, 'replaced': a, 'by': b} for k in kernels for a, b in k.stubs],
            'packages_initialised': sorted(set(p for k in kernels for p in k.init)),
            'harnesses_complete': sum(1 for r in per if r['complete']), 'harnesses_total': len(per),
            'inconclusive': inconclusive[:20], 'skipped_kernels': skipped, 'spurious_models': spurious[:10],
            'violations_confirmed': violations[:20], 'known_findings_seen': [{'what': kn['what'], 'model': it['model']} for kn, it in known_hits][:10],
            'repo': core.repo_state(),
        },
        'assumptions': (assumptions or []) + ['go/packages, go/ssa (x/tools v0.29.0) and z3 are trusted', 'the interpreter fork (engine/gosym/interp) is trusted; constructs it cannot follow end the path as "unsupported" and make the harness incomplete',
                                               'int/uint are 64 bits wide in kernel checks (the compiler runs on the developer\'s machine)'],
    }
    if extra:
        ev['coverage'].update(extra)
    if not noev and write:
        core.write_evidence(pid, ev)
    print('%s %s (kernels): %d harnesses, %d complete, %d paths, %d assertions discharged, %d violations, %d known-finding hits, %d spurious, %d inconclusive; %.1fs' % (
        pid, tier, len(per), ev['coverage']['harnesses_complete'], tot['paths'], tot['asserts_ok'], len(violations), len(known_hits), len(spurious), len(inconclusive), time.time() - t0))
    for i in inconclusive[:6]:
        print('  inconclusive: %s' % json.dumps(i)[:400])
    for s_ in spurious[:4]:
        print('  spurious (did not reproduce natively): %s %r %s' % (s_['harness'], s_['assert'], json.dumps(s_['model'])[:200]))
    return 1 if violations else 0, ev
