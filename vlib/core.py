"""Shared machinery: scratch space, building the real compiler from /repo's working tree,
compiling templates, running the symbolic JS engine, talking to z3, evidence files."""
import atexit, json, os, shutil, subprocess, sys, tempfile, time, hashlib, re

VERIF = os.path.dirname(os.path.dirname(os.path.abspath(__file__)))
REPO = os.environ.get('VERIF_REPO', '/repo')
JSX = os.path.join(VERIF, 'engine', 'jsx')
Z3 = os.environ.get('VERIF_Z3', 'z3-new')

GOENV = dict(os.environ, GOFLAGS='-mod=mod', GOPROXY='off', GOSUMDB='off', GOTOOLCHAIN='local',
             GOPHERJS_SKIP_VERSION_CHECK='true', GO111MODULE='on')

_scratch = None


def scratch():
    """Per-run scratch directory outside /repo and /verif; removed at exit."""
    global _scratch
    if _scratch is None:
        base = os.environ.get('TMPDIR', '/tmp')
        _scratch = tempfile.mkdtemp(prefix='verif-', dir=base)
        GOENV['GOCACHE'] = os.environ.get('GOCACHE', os.path.join(os.path.expanduser('~'), '.cache', 'go-build'))
        atexit.register(lambda: shutil.rmtree(_scratch, ignore_errors=True))
    return _scratch


def run(cmd, cwd=None, env=None, timeout=600, check=True, input=None):
    p = subprocess.run(cmd, cwd=cwd, env=env or GOENV, stdout=subprocess.PIPE, stderr=subprocess.PIPE,
                       timeout=timeout, input=input, text=True)
    if check and p.returncode != 0:
        raise RuntimeError('command failed (%d): %s\n%s\n%s' % (p.returncode, ' '.join(cmd), p.stdout[-4000:], p.stderr[-4000:]))
    return p


_gopherjs = None


def gopherjs_bin():
    """Build the gopherjs command from /repo's *current working tree* (every run)."""
    global _gopherjs
    if _gopherjs is None:
        out = os.path.join(scratch(), 'gopherjs')
        t0 = time.time()
        run(['go', 'build', '-o', out, '.'], cwd=REPO)
        _gopherjs = out
        sys.stderr.write('[build] gopherjs from %s in %.1fs\n' % (REPO, time.time() - t0))
    return _gopherjs


def repo_state():
    """Identify the tree being checked (commit + dirty hash) for the evidence file."""
    try:
        head = run(['git', '-C', REPO, 'rev-parse', 'HEAD']).stdout.strip()
        diff = run(['git', '-C', REPO, 'diff', 'HEAD']).stdout
        return {'head': head, 'dirty_sha1': hashlib.sha1(diff.encode()).hexdigest() if diff else None}
    except Exception as e:  # noqa
        return {'head': None, 'error': str(e)}


def write_pkg(dirpath, files, module='verifprog'):
    os.makedirs(dirpath, exist_ok=True)
    for name, text in files.items():
        p = os.path.join(dirpath, name)
        os.makedirs(os.path.dirname(p), exist_ok=True)
        with open(p, 'w') as f:
            f.write(text)
    if 'go.mod' not in files:
        with open(os.path.join(dirpath, 'go.mod'), 'w') as f:
            f.write('module %s\n\ngo 1.20\n' % module)


def compile_js(dirpath, minify=False, tags=None, out='out.js', timeout=300):
    """Compile the package in dirpath with the real compiler.  Returns (ok, path-or-error)."""
    cmd = [gopherjs_bin(), 'build', '-o', out]
    if minify:
        cmd.append('-m')
    if tags:
        cmd += ['--tags', tags]
    cmd.append('.')
    p = run(cmd, cwd=dirpath, check=False, timeout=timeout)
    if p.returncode != 0:
        return False, (p.stdout + p.stderr)
    return True, os.path.join(dirpath, out)


def explore(outjs, cfg=None, timeout=1800):
    """Run the symbolic JS engine on a linked program; returns the result dict."""
    cfg = dict(cfg or {})
    cfg.setdefault('solver', Z3)
    d = os.path.dirname(outjs)
    cfgp = os.path.join(d, os.path.basename(outjs) + '.cfg.json')
    resp = os.path.join(d, os.path.basename(outjs) + '.res.json')
    with open(cfgp, 'w') as f:
        json.dump(cfg, f)
    p = run(['node', '--expose-internals', '--stack-size=8000', os.path.join(JSX, 'run.js'), outjs, cfgp, resp],
            check=False, timeout=timeout, env=dict(os.environ, TMPDIR=scratch()))
    if p.returncode != 0:
        raise RuntimeError('jsx engine failed: ' + p.stderr[-3000:])
    with open(resp) as f:
        return json.load(f)


def node_run(outjs, timeout=60):
    p = run(['node', outjs], check=False, timeout=timeout, env=dict(os.environ))
    return p.returncode, p.stdout, p.stderr


def go_run(dirpath, timeout=120):
    exe = os.path.join(dirpath, 'native.bin')
    p = run(['go', 'build', '-o', exe, '.'], cwd=dirpath, check=False, timeout=timeout)
    if p.returncode != 0:
        return None, '', p.stderr
    p = run([exe], check=False, timeout=timeout)
    return p.returncode, p.stdout, p.stderr


# ------------------------------------------------------------------ SMT session
class Z3Session:
    """One persistent solver process; queries are SMT-LIB text.  Any `(error` line makes the query inconclusive."""

    def __init__(self, timeout_ms=20000, binary=None):
        self.p = subprocess.Popen([binary or Z3, '-in'], stdin=subprocess.PIPE, stdout=subprocess.PIPE,
                                  stderr=subprocess.STDOUT, text=True, bufsize=1)
        self.queries = 0
        self.solver_s = 0.0
        self.errors = []
        self.results = {'sat': 0, 'unsat': 0, 'unknown': 0}
        self.send('(set-option :timeout %d)' % timeout_ms)

    def send(self, text):
        self.p.stdin.write(text + '\n')

    def ask(self, text):
        t0 = time.time()
        self.p.stdin.write(text + '\n(echo "@@")\n')
        self.p.stdin.flush()
        lines = []
        while True:
            ln = self.p.stdout.readline()
            if ln == '':
                raise RuntimeError('solver died: ' + ''.join(lines)[-2000:])
            if ln.strip() == '@@':
                break
            lines.append(ln)
        out = ''.join(lines).strip()
        self.solver_s += time.time() - t0
        if '(error' in out:
            self.errors.append(out[:500] + ' <= ' + text[-300:])
        return out

    def check(self, extra=''):
        self.queries += 1
        r = self.ask(extra + '\n(check-sat)')
        last = r.strip().split('\n')[-1].strip() if r.strip() else 'unknown'
        if '(error' in r or last not in ('sat', 'unsat'):
            last = 'unknown'
        self.results[last] += 1
        return last

    def model(self, names):
        if not names:
            return {}
        r = self.ask('(get-value (%s))' % ' '.join(names))
        return parse_values(r)

    def push(self):
        self.send('(push 1)')

    def pop(self):
        self.send('(pop 1)')

    def close(self):
        try:
            self.p.stdin.write('(exit)\n')
            self.p.stdin.flush()
            self.p.wait(timeout=5)
        except Exception:
            self.p.kill()


def tokenize(s):
    return re.findall(r'\(|\)|[^\s()]+', s)


def parse_sexp(tokens, i=0):
    if tokens[i] == '(':
        out = []
        i += 1
        while tokens[i] != ')':
            v, i = parse_sexp(tokens, i)
            out.append(v)
        return out, i + 1
    return tokens[i], i + 1


def sexp_value(v):
    """Evaluate a z3 model value (Int / Bool / FP literal) to a Python value."""
    if isinstance(v, str):
        if v == 'true':
            return True
        if v == 'false':
            return False
        if re.fullmatch(r'-?\d+', v):
            return int(v)
        if v.startswith('#x'):
            return int(v[2:], 16)
        if v.startswith('#b'):
            return int(v[2:], 2)
        return v
    if len(v) == 2 and v[0] == '-':
        return -sexp_value(v[1])
    if len(v) == 4 and v[0] == 'fp':
        s, e, m = v[1], v[2], v[3]
        bits = lambda x: (x[2:], 4 * len(x[2:])) if x.startswith('#x') else (x[2:], len(x[2:]))
        sb = int(s[2:], 2)
        eb, ew = (int(e[2:], 16), 4 * len(e[2:])) if e.startswith('#x') else (int(e[2:], 2), len(e[2:]))
        mb, mw = (int(m[2:], 16), 4 * len(m[2:])) if m.startswith('#x') else (int(m[2:], 2), len(m[2:]))
        return {'fp': (sb, eb, ew, mb, mw)}
    if len(v) == 4 and v[0] == '_' and v[1] in ('NaN', '+oo', '-oo', '+zero', '-zero'):
        return {'fpspecial': v[1], 'eb': int(v[2]), 'sb': int(v[3])}
    if len(v) == 3 and v[0] == '/':
        return {'ratio': (sexp_value(v[1]), sexp_value(v[2]))}
    return v


def parse_values(text):
    toks = tokenize(text)
    if not toks:
        return {}
    tree, _ = parse_sexp(toks, 0)
    out = {}
    for pair in tree:
        if isinstance(pair, list) and len(pair) == 2 and isinstance(pair[0], str):
            out[pair[0]] = sexp_value(pair[1])
    return out


def lit(n):
    return '(- %d)' % (-n) if n < 0 else '%d' % n


def input_decls(inputs):
    """SMT declarations + range constraints for a path's input table (as exported by the JS engine)."""
    out = []
    for name, d in inputs.items():
        if d.get('def') is not None:
            out.append('(define-fun %s () %s %s)' % (name, d['sort'], d['def']))
            continue
        out.append('(declare-const %s %s)' % (name, d['sort']))
        if d.get('lo') is not None:
            out.append('(assert (and (<= %s %s) (<= %s %s)))' % (lit(int(d['lo'])), name, name, lit(int(d['hi']))))
    return out


# ------------------------------------------------------------------ evidence
def write_evidence(pid, data):
    os.makedirs(os.path.join(VERIF, 'evidence'), exist_ok=True)
    p = os.path.join(VERIF, 'evidence', pid + '.json')
    tmp = p + '.tmp'
    with open(tmp, 'w') as f:
        json.dump(data, f, indent=1, sort_keys=True)
    os.replace(tmp, p)
    return p


def load_known(pid):
    p = os.path.join(VERIF, 'known_findings.jsonl')
    out = []
    if os.path.exists(p):
        for ln in open(p):
            ln = ln.strip()
            if ln and not ln.startswith('#'):
                d = json.loads(ln)
                if d.get('property') == pid:
                    out.append(d)
    return out


def tier():
    return os.environ.get('VERIF_TIER', 'quick')


def seed():
    try:
        return int(os.environ.get('VERIF_SEED', '0'))
    except ValueError:
        return 0
