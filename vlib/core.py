"""Shared machinery: scratch space, building the real compiler from /repo's working tree,
compiling templates, running the symbolic JS engine, talking to z3, evidence files."""
import atexit, json, os, shutil, subprocess, sys, tempfile, time, hashlib, re

VERIF = os.path.dirname(os.path.dirname(os.path.abspath(__file__)))
REPO = os.environ.get('VERIF_REPO', '/repo')
JSX = os.path.join(VERIF, 'engine', 'jsx')
Z3 = os.environ.get('VERIF_Z3', 'z3-new')

GOENV = dict(os.environ, GOFLAGS='-mod=mod', GOPROXY='off', GOSUMDB='off', GOTOOLCHAIN='local',
             GOPHERJS_SKIP_VERSION_CHECK='true', GO111MODULE='on')

_scratch = None


def scratch():
    """Per-run scratch directory outside /repo and /verif; removed at exit."""
    global _scratch
    if _scratch is None:
        base = os.environ.get('TMPDIR', '/tmp')
        _scratch = tempfile.mkdtemp(prefix='verif-', dir=base)
        GOENV['GOCACHE'] = os.environ.get('GOCACHE', os.path.join(os.path.expanduser('~'), '.cache', 'go-build'))
        atexit.register(lambda: shutil.rmtree(_scratch, ignore_errors=True))
    return _scratch


def _die_with_parent():
    try:
        import ctypes, signal
        ctypes.CDLL('libc.so.6').prctl(1, signal.SIGKILL)
    except Exception:
        pass


def run(cmd, cwd=None, env=None, timeout=600, check=True, input=None):
    p = subprocess.run(cmd, cwd=cwd, env=env or GOENV, stdout=subprocess.PIPE, stderr=subprocess.PIPE,
                       timeout=timeout, input=input, text=True, preexec_fn=_die_with_parent)
    if check and p.returncode != 0:
        raise RuntimeError('command failed (%d): %s\n%s\n%s' % (p.returncode, ' '.join(cmd), p.stdout[-4000:], p.stderr[-4000:]))
    return p


_gopherjs = None


def gopherjs_bin():
    """Build the gopherjs command from /repo's *current working tree* (every run)."""
    global _gopherjs
    if _gopherjs is None:
        out = os.path.join(scratch(), 'gopherjs')
        t0 = time.time()
        run(['go', 'build', '-o', out, '.'], cwd=REPO)
        _gopherjs = out
        sys.stderr.write('[build] gopherjs from %s in %.1fs\n' % (REPO, time.time() - t0))
    return _gopherjs


_gopherjs_keepall = None
KEEPALL_ANCHOR = 'dceSelection := sel.AliveDecls()'


def gopherjs_keepall_bin():
    """A variant of the compiler in which dead-code elimination keeps every declaration: /repo's current
    compiler/compiler.go with one statement added after the DCE selection, injected with `go build -overlay`
    (nothing is written to /repo).  Returns None if the anchor statement is not found in the current source."""
    global _gopherjs_keepall
    if _gopherjs_keepall is None:
        src_path = os.path.join(REPO, 'compiler', 'compiler.go')
        src = open(src_path).read()
        if src.count(KEEPALL_ANCHOR) != 1:
            _gopherjs_keepall = False
            return None
        patched = src.replace(KEEPALL_ANCHOR, KEEPALL_ANCHOR + "\n\tfor _, verifPkg := range pkgs { // verif: keep every declaration alive\n\t\tfor _, verifDecl := range verifPkg.Declarations {\n\t\t\tdceSelection[verifDecl] = struct{}{}\n\t\t}\n\t}")
        d = os.path.join(scratch(), 'keepall')
        os.makedirs(d, exist_ok=True)
        with open(os.path.join(d, 'compiler.go'), 'w') as f:
            f.write(patched)
        with open(os.path.join(d, 'overlay.json'), 'w') as f:
            json.dump({'Replace': {src_path: os.path.join(d, 'compiler.go')}}, f)
        out = os.path.join(scratch(), 'gopherjs-keepall')
        run(['go', 'build', '-overlay', os.path.join(d, 'overlay.json'), '-o', out, '.'], cwd=REPO)
        _gopherjs_keepall = out
    return _gopherjs_keepall or None


def repo_state():
    """Identify the tree being checked (commit + dirty hash) for the evidence file."""
    try:
        head = run(['git', '-C', REPO, 'rev-parse', 'HEAD']).stdout.strip()
        diff = run(['git', '-C', REPO, 'diff', 'HEAD']).stdout
        return {'head': head, 'dirty_sha1': hashlib.sha1(diff.encode()).hexdigest() if diff else None}
    except Exception as e:  # noqa
        return {'head': None, 'error': str(e)}


def write_pkg(dirpath, files, module='verifprog'):
    os.makedirs(dirpath, exist_ok=True)
    for name, text in files.items():
        p = os.path.join(dirpath, name)
        os.makedirs(os.path.dirname(p), exist_ok=True)
        with open(p, 'w') as f:
            f.write(text)
    if 'go.mod' not in files:
        with open(os.path.join(dirpath, 'go.mod'), 'w') as f:
            f.write('module %s\n\ngo 1.20\n' % module)
            if any('github.com/gopherjs/gopherjs/' in t for t in files.values()):
                # packages of the repository itself (nosync, js) are taken from /repo's working tree
                f.write('\nrequire github.com/gopherjs/gopherjs v0.0.0\n\nreplace github.com/gopherjs/gopherjs => %s\n' % REPO)
        if any('github.com/gopherjs/gopherjs/' in t for t in files.values()):
            try:
                shutil.copy(os.path.join(REPO, 'go.sum'), os.path.join(dirpath, 'go.sum'))
            except OSError:
                pass


def compile_js(dirpath, minify=False, tags=None, out='out.js', timeout=300, keep_all=False):
    """Compile the package in dirpath with the real compiler.  Returns (ok, path-or-error)."""
    binary = gopherjs_bin()
    if keep_all:
        binary = gopherjs_keepall_bin()
        if binary is None:
            return False, 'keep-all variant unavailable: anchor %r not found in compiler/compiler.go' % KEEPALL_ANCHOR
    cmd = [binary, 'build', '-o', out]
    if minify:
        cmd.append('-m')
    if tags:
        cmd += ['--tags', tags]
    cmd.append('.')
    p = run(cmd, cwd=dirpath, check=False, timeout=timeout)
    if p.returncode != 0:
        return False, (p.stdout + p.stderr)
    return True, os.path.join(dirpath, out)


def explore(outjs, cfg=None, timeout=1800):
    """Run the symbolic JS engine on a linked program; returns the result dict."""
    cfg = dict(cfg or {})
    cfg.setdefault('solver', Z3)
    d = os.path.dirname(outjs)
    cfgp = os.path.join(d, os.path.basename(outjs) + '.cfg.json')
    resp = os.path.join(d, os.path.basename(outjs) + '.res.json')
    with open(cfgp, 'w') as f:
        json.dump(cfg, f)
    p = run(['node', '--expose-internals', '--stack-size=8000', os.path.join(JSX, 'run.js'), outjs, cfgp, resp],
            check=False, timeout=timeout, env=dict(os.environ, TMPDIR=scratch()))
    if p.returncode != 0:
        raise RuntimeError('jsx engine failed: ' + p.stderr[-3000:])
    with open(resp) as f:
        return json.load(f)


def node_run(outjs, timeout=60):
    p = run(['node', outjs], check=False, timeout=timeout, env=dict(os.environ))
    return p.returncode, p.stdout, p.stderr


def go_run(dirpath, timeout=120):
    exe = os.path.join(dirpath, 'native.bin')
    p = run(['go', 'build', '-o', exe, '.'], cwd=dirpath, check=False, timeout=timeout)
    if p.returncode != 0:
        return None, '', p.stderr
    p = run([exe], check=False, timeout=timeout)
    return p.returncode, p.stdout, p.stderr


# ------------------------------------------------------------------ SMT session
class Z3Session:
    """One persistent solver process; queries are SMT-LIB text.  Any `(error` line makes the query inconclusive.
    z3's own :timeout/:rlimit are not honoured by every tactic, so a wall-clock watchdog kills and restarts the
    process (replaying the assertion stack) when a query overruns; such a query counts as `unknown`."""

    def __init__(self, timeout_ms=20000, binary=None, rlimit=0):
        self.binary = binary or Z3
        self.timeout_ms = timeout_ms
        self.rlimit = rlimit
        self.queries = 0
        self.solver_s = 0.0
        self.errors = []
        self.restarts = 0
        self.results = {'sat': 0, 'unsat': 0, 'unknown': 0}
        self.frames = [[]]
        self._start()

    def _start(self):
        self.p = subprocess.Popen([self.binary, '-in'], stdin=subprocess.PIPE, stdout=subprocess.PIPE,
                                  stderr=subprocess.STDOUT, bufsize=0, preexec_fn=_die_with_parent)
        self._raw('(set-option :timeout %d)' % self.timeout_ms)
        if self.rlimit:
            self._raw('(set-option :rlimit %d)' % self.rlimit)
        self.buf = b''

    def _raw(self, text):
        try:
            self.p.stdin.write((text + '\n').encode())
        except BrokenPipeError:
            pass

    def _restart(self):
        try:
            self.p.kill()
            self.p.wait(timeout=5)
        except Exception:
            pass
        self.restarts += 1
        self._start()
        for i, fr in enumerate(self.frames):
            if i > 0:
                self._raw('(push 1)')
            for c in fr:
                self._raw(c)

    def send(self, text):
        self.frames[-1].append(text)
        self._raw(text)

    def ask(self, text, record=False):
        import select
        t0 = time.time()
        if record:
            self.frames[-1].append(text)
        self._raw(text + '\n(echo "@@")')
        deadline = t0 + self.timeout_ms / 1000.0 * 1.5 + 5
        fd = self.p.stdout.fileno()
        while b'@@\n' not in self.buf:
            left = deadline - time.time()
            if left <= 0:
                self._restart()
                self.solver_s += time.time() - t0
                return 'unknown ; watchdog'
            r, _, _ = select.select([fd], [], [], min(left, 1.0))
            if r:
                chunk = os.read(fd, 65536)
                if not chunk:
                    self._restart()
                    self.solver_s += time.time() - t0
                    return 'unknown ; solver died'
                self.buf += chunk
        i = self.buf.index(b'@@\n')
        out = self.buf[:i].decode(errors='replace').strip()
        self.buf = self.buf[i + 3:]
        self.solver_s += time.time() - t0
        if '(error' in out:
            self.errors.append(out[:500] + ' <= ' + text[-300:])
        return out

    def check(self, extra=''):
        self.queries += 1
        r = self.ask((extra + '\n' if extra else '') + '(check-sat)')
        last = r.strip().split('\n')[-1].strip() if r.strip() else 'unknown'
        if '(error' in r or last not in ('sat', 'unsat'):
            last = 'unknown'
        self.results[last] += 1
        return last

    def model(self, names):
        if not names:
            return {}
        r = self.ask('(get-value (%s))' % ' '.join(names))
        try:
            return parse_values(r)
        except Exception:
            return {}

    def solve(self, lines, get=None, exprs=None, portfolio=True):
        """Int encoding first; if z3 answers unknown, the same query translated to 128-bit bit-vectors (vlib/int2bv.py)."""
        from . import int2bv
        bv_first = portfolio and any('int2bv' in ln for ln in lines) and not any('FloatingPoint' in ln for ln in lines)
        tl = None
        if bv_first:
            tl = int2bv.translate(lines)
            if tl is not None:
                r2, model2, _ = self._solve_bv(tl, get)
                if r2 != 'unknown':
                    return r2, model2, None
        if any('fp.' in ln or 'to_fp' in ln for ln in lines):
            # floating-point queries: a one-shot z3 process bit-blasts them; the persistent process (even after (reset)) stays on the lazy
            # floating-point theory and is an order of magnitude slower on them (measured: 30 s vs > 150 s and unknown)
            r, model, vals = self._solve_file(lines, get, exprs)
            if r != 'unknown':
                return r, model, vals
        r, model, vals = self.solve1(lines, get, exprs)
        if r != 'unknown' or not portfolio or bv_first:
            return r, model, vals
        tl = int2bv.translate(lines)
        if tl is None:
            return r, model, vals
        r2, model2, _ = self._solve_bv(tl, get)
        if r2 == 'unknown':
            return r, model, vals
        return r2, model2, None

    def _solve_file(self, lines, get=None, exprs=None):
        self.queries += 1
        self.file_queries = getattr(self, 'file_queries', 0) + 1
        f = os.path.join(scratch(), 'q_%d_%d.smt2' % (os.getpid(), self.queries))
        text = '\n'.join(lines) + '\n(check-sat)\n'
        if get:
            text += '(echo "@@model")\n(get-value (%s))\n' % ' '.join(get)
        if exprs:
            text += '(echo "@@exprs")\n(get-value (%s))\n' % ' '.join(exprs)
        with open(f, 'w') as fh:
            fh.write(text)
        t0 = time.time()
        secs = max(1, int(self.timeout_ms / 1000))
        try:
            p = subprocess.run([self.binary, '-T:%d' % secs, f], stdout=subprocess.PIPE, stderr=subprocess.STDOUT, timeout=secs + 30, text=True, preexec_fn=_die_with_parent)
            out = p.stdout
        except subprocess.TimeoutExpired:
            out = 'unknown'
        finally:
            try:
                os.unlink(f)
            except OSError:
                pass
        self.solver_s += time.time() - t0
        first = out.strip().split('\n')[0].strip() if out.strip() else 'unknown'
        if first not in ('sat', 'unsat'):
            self.results['unknown'] += 1
            return 'unknown', {}, None
        if first == 'unsat':
            # an (error before the verdict would have changed `first`; errors after it come from get-value on an unsat state
            self.results['unsat'] += 1
            return 'unsat', {}, None
        model, vals = {}, None
        try:
            if get and '@@model' in out:
                seg = out.split('@@model', 1)[1]
                seg = seg.split('@@exprs', 1)[0]
                model = parse_values(seg.strip().strip('"').strip())
            if exprs and '@@exprs' in out:
                vals = out.split('@@exprs', 1)[1].strip().strip('"').strip()
        except Exception:  # noqa
            self.results['unknown'] += 1
            return 'unknown', {}, None
        if '(error' in out:
            self.results['unknown'] += 1
            return 'unknown', {}, None
        self.results['sat'] += 1
        return 'sat', model, vals

    def _solve_bv(self, tl, get):
        from . import int2bv
        self.bv_attempts = getattr(self, 'bv_attempts', 0) + 1
        r2, model2, _ = self.solve1(tl, get, None)
        if r2 != 'unknown':
            self.bv_decided = getattr(self, 'bv_decided', 0) + 1
        fixed = {}
        for k, v in model2.items():
            if isinstance(v, int) and not isinstance(v, bool) and v >= (1 << (int2bv.W - 1)):
                v -= 1 << int2bv.W
            fixed[k] = v
        return r2, fixed, None

    def solve1(self, lines, get=None, exprs=None):
        """One self-contained query in a fresh (non-incremental) solver state: z3 then uses its full tactic pipeline,
        which decides the non-linear integer queries that the incremental core does not.  -> (verdict, model, expr values text)"""
        self.frames = [[]]
        self._raw('(reset)')
        self._raw('(set-option :timeout %d)' % self.timeout_ms)
        if self.rlimit:
            self._raw('(set-option :rlimit %d)' % self.rlimit)
        for ln in lines:
            self.send(ln)
        t0 = time.time()
        r = self.check()
        dump = os.environ.get('VERIF_DUMP')
        if dump and (r != 'unsat' or time.time() - t0 > 5):
            os.makedirs(dump, exist_ok=True)
            with open(os.path.join(dump, 'q%d_%d_%s.smt2' % (os.getpid(), self.queries, r)), 'w') as f:
                f.write('\n'.join(lines) + '\n(check-sat)\n')
        model, vals = {}, None
        if r == 'sat':
            if get:
                model = self.model(get)
            if exprs:
                vals = self.ask('(get-value (%s))' % ' '.join(exprs))
        return r, model, vals

    def push(self):
        self.frames.append([])
        self._raw('(push 1)')

    def pop(self):
        if len(self.frames) > 1:
            self.frames.pop()
        self._raw('(pop 1)')

    def close(self):
        try:
            self._raw('(exit)')
            self.p.wait(timeout=3)
        except Exception:
            try:
                self.p.kill()
            except Exception:
                pass


def tokenize(s):
    return re.findall(r'\(|\)|[^\s()]+', s)


def parse_sexp(tokens, i=0):
    if tokens[i] == '(':
        out = []
        i += 1
        while tokens[i] != ')':
            v, i = parse_sexp(tokens, i)
            out.append(v)
        return out, i + 1
    return tokens[i], i + 1


def sexp_value(v):
    """Evaluate a z3 model value (Int / Bool / FP literal) to a Python value."""
    if isinstance(v, str):
        if v == 'true':
            return True
        if v == 'false':
            return False
        if re.fullmatch(r'-?\d+', v):
            return int(v)
        if v.startswith('#x'):
            return int(v[2:], 16)
        if v.startswith('#b'):
            return int(v[2:], 2)
        return v
    if len(v) == 2 and v[0] == '-':
        return -sexp_value(v[1])
    if len(v) == 4 and v[0] == 'fp':
        s, e, m = v[1], v[2], v[3]
        bits = lambda x: (x[2:], 4 * len(x[2:])) if x.startswith('#x') else (x[2:], len(x[2:]))
        sb = int(s[2:], 2)
        eb, ew = (int(e[2:], 16), 4 * len(e[2:])) if e.startswith('#x') else (int(e[2:], 2), len(e[2:]))
        mb, mw = (int(m[2:], 16), 4 * len(m[2:])) if m.startswith('#x') else (int(m[2:], 2), len(m[2:]))
        return {'fp': (sb, eb, ew, mb, mw)}
    if len(v) == 4 and v[0] == '_' and v[1] in ('NaN', '+oo', '-oo', '+zero', '-zero'):
        return {'fpspecial': v[1], 'eb': int(v[2]), 'sb': int(v[3])}
    if len(v) == 3 and v[0] == '/':
        return {'ratio': (sexp_value(v[1]), sexp_value(v[2]))}
    return v


def parse_values(text):
    toks = tokenize(text)
    if not toks:
        return {}
    tree, _ = parse_sexp(toks, 0)
    out = {}
    for pair in tree:
        if isinstance(pair, list) and len(pair) == 2 and isinstance(pair[0], str):
            out[pair[0]] = sexp_value(pair[1])
    return out


def lit(n):
    return '(- %d)' % (-n) if n < 0 else '%d' % n


def input_decls(inputs):
    """SMT declarations + range constraints for a path's input table (as exported by the JS engine)."""
    out = []
    for name, d in inputs.items():
        if d.get('def') is not None:
            out.append('(define-fun %s () %s %s)' % (name, d['sort'], d['def']))
            if d.get('assert'):
                out.append('(assert %s)' % name)
            continue
        out.append('(declare-const %s %s)' % (name, d['sort']))
        if d.get('lo') is not None:
            out.append('(assert (and (<= %s %s) (<= %s %s)))' % (lit(int(d['lo'])), name, name, lit(int(d['hi']))))
    return out


# ------------------------------------------------------------------ evidence
def write_evidence(pid, data):
    os.makedirs(os.path.join(VERIF, 'evidence'), exist_ok=True)
    p = os.path.join(VERIF, 'evidence', pid + '.json')
    tmp = p + '.tmp'
    with open(tmp, 'w') as f:
        json.dump(data, f, indent=1, sort_keys=True)
    os.replace(tmp, p)
    return p


def load_known(pid):
    p = os.path.join(VERIF, 'known_findings.jsonl')
    out = []
    if os.path.exists(p):
        for ln in open(p):
            ln = ln.strip()
            if ln and not ln.startswith('#'):
                d = json.loads(ln)
                if d.get('property') == pid:
                    out.append(d)
    return out


def tier():
    return os.environ.get('VERIF_TIER', 'quick')


def seed():
    try:
        return int(os.environ.get('VERIF_SEED', '0'))
    except ValueError:
        return 0
