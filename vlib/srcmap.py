"""Minimal source-map (v3) reader: decodes the VLQ "mappings" into segments."""
import json

_B64 = {c: i for i, c in enumerate('ABCDEFGHIJKLMNOPQRSTUVWXYZabcdefghijklmnopqrstuvwxyz0123456789+/')}


def _vlq(seg):
    out, shift, val = [], 0, 0
    for ch in seg:
        d = _B64[ch]
        val |= (d & 31) << shift
        if d & 32:
            shift += 5
            continue
        out.append(-(val >> 1) if val & 1 else val >> 1)
        shift, val = 0, 0
    return out


def load(path):
    """-> (sources, {generated line (0-based): [(gen col, src index | None, src line (0-based) | None, src col | None)] sorted by gen col})"""
    m = json.load(open(path))
    lines = {}
    src = sl = sc = 0
    for gl, line in enumerate(m['mappings'].split(';')):
        gc = 0
        segs = []
        for seg in line.split(','):
            if not seg:
                continue
            f = _vlq(seg)
            gc += f[0]
            if len(f) >= 4:
                src += f[1]
                sl += f[2]
                sc += f[3]
                segs.append((gc, src, sl, sc))
            else:
                segs.append((gc, None, None, None))
        if segs:
            lines[gl] = sorted(segs)
    return m.get('sources', []), lines


def lookup(lines, gl, gc):
    """the segment that covers generated position (gl, gc): the last one on that line starting at or before gc"""
    best = None
    for s in lines.get(gl, []):
        if s[0] <= gc:
            best = s
        else:
            break
    return best


def lookup_global(lines, gl, gc):
    """What stack-trace consumers (Node's module.SourceMap, browsers) do: the last segment at or before (gl, gc) in the whole file,
    i.e. a line without an own segment continues the previous line's last segment."""
    best = lookup(lines, gl, gc)
    if best is not None:
        return best
    for l in range(gl - 1, -1, -1):
        if lines.get(l):
            return lines[l][-1]
    return None
