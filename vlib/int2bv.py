"""Sound translation of the engine's integer (Int) SMT-LIB queries into fixed-width bit-vector queries.

The Int encoding decides linear and limb-multiplication queries quickly but z3 is weak on int2bv/bv2int bridges
(bitwise operators).  This module re-expresses a whole query over (_ BitVec W): every Int term becomes a W-bit
two's-complement term; an interval analysis proves that no intermediate value can leave the W-bit range, otherwise the
translation is refused (None) and the query stays inconclusive.  Used as the second member of a portfolio."""
import re

W = 128


class Refuse(Exception):
    pass


def tokenize(s):
    return re.findall(r'\(|\)|[^\s()]+', s)


def parse_all(text):
    toks = tokenize(text)
    out, i = [], 0
    while i < len(toks):
        v, i = _parse(toks, i)
        out.append(v)
    return out


def _parse(toks, i):
    if toks[i] == '(':
        lst = []
        i += 1
        while toks[i] != ')':
            v, i = _parse(toks, i)
            lst.append(v)
        return lst, i + 1
    return toks[i], i + 1


def bvlit(n, w=W):
    return '(_ bv%d %d)' % (n % (1 << w), w)


class Tr:
    def __init__(self, w=W):
        self.w = w
        self.env = {}       # name -> ('int', lo, hi) | ('bool',) | ('bv', n)
        self.macros = {}    # name -> (params, body)
        self.out = []
        self.lim = 1 << (w - 2)

    def chk(self, lo, hi):
        if lo < -self.lim or hi > self.lim:
            raise Refuse('magnitude beyond %d bits' % (self.w - 2))
        return lo, hi

    # ---- commands
    def command(self, c):
        if not isinstance(c, list) or not c:
            return
        h = c[0]
        if h == 'declare-const':
            name, sort = c[1], c[2]
            if sort == 'Int':
                self.env[name] = ('int', None, None)
                self.out.append('(declare-const %s (_ BitVec %d))' % (name, self.w))
            elif sort == 'Bool':
                self.env[name] = ('bool',)
                self.out.append('(declare-const %s Bool)' % name)
            else:
                raise Refuse('sort ' + str(sort))
        elif h == 'define-fun':
            name, params, sort, body = c[1], c[2], c[3], c[4]
            if params:
                self.macros[name] = ([p[0] for p in params], body)
                return
            if sort == 'Int':
                t, lo, hi = self.int(body, {})
                self.env[name] = ('int', lo, hi)
                self.out.append('(define-fun %s () (_ BitVec %d) %s)' % (name, self.w, t))
            elif sort == 'Bool':
                t = self.bool(body, {})
                self.env[name] = ('bool',)
                self.out.append('(define-fun %s () Bool %s)' % (name, t))
            else:
                raise Refuse('sort ' + str(sort))
        elif h == 'assert':
            self.note_bounds(c[1])
            self.out.append('(assert %s)' % self.bool(c[1], {}))
        elif h in ('set-option', 'set-logic', 'check-sat', 'push', 'pop', 'echo', 'get-value', 'reset'):
            return
        else:
            raise Refuse('command ' + str(h))

    def note_bounds(self, e):
        # (and (<= L x) (<= x H)) on a declared input
        try:
            if e[0] == 'and' and len(e) == 3 and e[1][0] == '<=' and e[2][0] == '<=' and e[1][2] == e[2][1] and isinstance(e[1][2], str):
                x = e[1][2]
                if self.env.get(x, (None,))[0] == 'int' and self.env[x][1] is None:
                    lo, hi = self.const(e[1][1]), self.const(e[2][2])
                    if lo is not None and hi is not None:
                        self.env[x] = ('int', lo, hi)
        except (IndexError, TypeError):
            pass

    def const(self, e):
        if isinstance(e, str) and re.fullmatch(r'\d+', e):
            return int(e)
        if isinstance(e, list) and len(e) == 2 and e[0] == '-' and isinstance(e[1], str) and re.fullmatch(r'\d+', e[1]):
            return -int(e[1])
        return None

    # ---- integer terms: -> (text, lo, hi)
    def int(self, e, loc):
        w = self.w
        k = self.const(e)
        if k is not None:
            self.chk(k, k)
            return bvlit(k, w), k, k
        if isinstance(e, str):
            if e in loc:
                return loc[e]
            v = self.env.get(e)
            if v and v[0] == 'int':
                if v[1] is None:
                    raise Refuse('unbounded integer ' + e)
                return e, v[1], v[2]
            if v and v[0] == 'bool':
                raise Refuse('bool used as int')
            raise Refuse('unknown symbol ' + e)
        h = e[0]
        if isinstance(h, str) and h in self.macros:
            params, body = self.macros[h]
            # call-by-value through a let to keep the term small
            nl = dict(loc)
            binds = []
            for p, a in zip(params, e[1:]):
                t, lo, hi = self.int(a, loc)
                nm = '%s!%d' % (p, len(self.out) + len(nl))
                binds.append('(%s %s)' % (nm, t))
                nl[p] = (nm, lo, hi)
            bt, lo, hi = self.int(body, nl)
            return '(let (%s) %s)' % (' '.join(binds), bt), lo, hi
        if h == '+':
            ts = [self.int(a, loc) for a in e[1:]]
            lo, hi = sum(t[1] for t in ts), sum(t[2] for t in ts)
            self.chk(lo, hi)
            out = ts[0][0]
            for t in ts[1:]:
                out = '(bvadd %s %s)' % (out, t[0])
            return out, lo, hi
        if h == '-':
            ts = [self.int(a, loc) for a in e[1:]]
            if len(ts) == 1:
                return '(bvneg %s)' % ts[0][0], -ts[0][2], -ts[0][1]
            lo, hi = ts[0][1] - sum(t[2] for t in ts[1:]), ts[0][2] - sum(t[1] for t in ts[1:])
            self.chk(lo, hi)
            out = ts[0][0]
            for t in ts[1:]:
                out = '(bvsub %s %s)' % (out, t[0])
            return out, lo, hi
        if h == '*':
            ts = [self.int(a, loc) for a in e[1:]]
            out, lo, hi = ts[0]
            for t in ts[1:]:
                c = [lo * t[1], lo * t[2], hi * t[1], hi * t[2]]
                lo, hi = min(c), max(c)
                self.chk(lo, hi)
                out = '(bvmul %s %s)' % (out, t[0])
            return out, lo, hi
        if h in ('div', 'mod'):
            a, alo, ahi = self.int(e[1], loc)
            b, blo, bhi = self.int(e[2], loc)
            if blo <= 0:
                raise Refuse('div/mod by a possibly non-positive value')
            kc = self.const(e[2])
            if kc is not None and kc & (kc - 1) == 0:
                sh = kc.bit_length() - 1
                if h == 'div':
                    return '(bvashr %s %s)' % (a, bvlit(sh, w)), alo >> sh, ahi >> sh
                return '(bvand %s %s)' % (a, bvlit(kc - 1, w)), 0, kc - 1
            # floor division by a positive value
            q = '(ite (bvsge {a} {z}) (bvudiv {a} {b}) (bvneg (bvudiv (bvsub (bvadd (bvneg {a}) {b}) {one}) {b})))'.format(a=a, b=b, z=bvlit(0, w), one=bvlit(1, w))
            qlo, qhi = min(alo // blo, alo // bhi), max(ahi // blo, ahi // bhi)
            if h == 'div':
                return q, qlo, qhi
            return '(bvsub %s (bvmul %s %s))' % (a, b, q), 0, bhi - 1
        if h == 'abs':
            a, lo, hi = self.int(e[1], loc)
            return '(ite (bvsge %s %s) %s (bvneg %s))' % (a, bvlit(0, w), a, a), 0, max(abs(lo), abs(hi))
        if h == 'ite':
            c = self.bool(e[1], loc)
            a, alo, ahi = self.int(e[2], loc)
            b, blo, bhi = self.int(e[3], loc)
            return '(ite %s %s %s)' % (c, a, b), min(alo, blo), max(ahi, bhi)
        if h == 'let':
            nl = dict(loc)
            binds = []
            for nm, val in e[1]:
                t, lo, hi = self.int(val, loc)
                nn = '%s!l%d' % (nm, len(nl))
                binds.append('(%s %s)' % (nn, t))
                nl[nm] = (nn, lo, hi)
            bt, lo, hi = self.int(e[2], nl)
            return '(let (%s) %s)' % (' '.join(binds), bt), lo, hi
        if h == 'bv2int':
            t, n = self.bv(e[1], loc)
            return '((_ zero_extend %d) %s)' % (w - n, t), 0, (1 << n) - 1
        raise Refuse('int operator ' + str(h))

    # ---- native bit-vector terms (from int2bv): -> (text, width)
    def bv(self, e, loc):
        if isinstance(e, list) and isinstance(e[0], list) and e[0][:2] == ['_', 'int2bv']:
            n = int(e[0][2])
            t, lo, hi = self.int(e[1], loc)
            return '((_ extract %d 0) %s)' % (n - 1, t), n
        if isinstance(e, list) and e[0] in ('bvand', 'bvor', 'bvxor', 'bvadd', 'bvsub', 'bvmul', 'bvshl', 'bvlshr', 'bvashr'):
            a, n = self.bv(e[1], loc)
            b, m = self.bv(e[2], loc)
            if n != m:
                raise Refuse('bv width mismatch')
            return '(%s %s %s)' % (e[0], a, b), n
        if isinstance(e, list) and e[0] in ('bvnot', 'bvneg'):
            a, n = self.bv(e[1], loc)
            return '(%s %s)' % (e[0], a), n
        if isinstance(e, str) and e.startswith('#x'):
            return e, 4 * (len(e) - 2)
        if isinstance(e, str) and e.startswith('#b'):
            return e, len(e) - 2
        raise Refuse('bv term ' + str(e)[:40])

    # ---- boolean terms
    def bool(self, e, loc):
        if e in ('true', 'false'):
            return e
        if isinstance(e, str):
            if e in loc:
                raise Refuse('int used as bool')
            v = self.env.get(e)
            if v and v[0] == 'bool':
                return e
            raise Refuse('unknown bool symbol ' + e)
        h = e[0]
        if h in ('and', 'or', 'xor', '=>'):
            if len(e) == 2:
                return self.bool(e[1], loc)
            return '(%s %s)' % (h, ' '.join(self.bool(a, loc) for a in e[1:]))
        if h == 'not':
            return '(not %s)' % self.bool(e[1], loc)
        if h == 'ite':
            return '(ite %s %s %s)' % (self.bool(e[1], loc), self.bool(e[2], loc), self.bool(e[3], loc))
        if h in ('<', '<=', '>', '>='):
            op = {'<': 'bvslt', '<=': 'bvsle', '>': 'bvsgt', '>=': 'bvsge'}[h]
            ts = [self.int(a, loc)[0] for a in e[1:]]
            parts = ['(%s %s %s)' % (op, a, b) for a, b in zip(ts, ts[1:])]
            return parts[0] if len(parts) == 1 else '(and %s)' % ' '.join(parts)
        if h in ('=', 'distinct'):
            # decide the sort from the first operand
            try:
                ts = [self.int(a, loc)[0] for a in e[1:]]
            except Refuse:
                ts = [self.bool(a, loc) for a in e[1:]]
            return '(%s %s)' % (h, ' '.join(ts))
        if h == 'let':
            nl = dict(loc)
            binds = []
            for nm, val in e[1]:
                t, lo, hi = self.int(val, loc)
                nn = '%s!l%d' % (nm, len(nl))
                binds.append('(%s %s)' % (nn, t))
                nl[nm] = (nn, lo, hi)
            return '(let (%s) %s)' % (' '.join(binds), self.bool(e[2], nl))
        raise Refuse('bool operator ' + str(h))


def translate(lines, w=W):
    """lines: SMT-LIB commands (declarations, definitions, assertions).  -> list of translated commands, or None."""
    try:
        tr = Tr(w)
        for c in parse_all('\n'.join(lines)):
            tr.command(c)
        return tr.out
    except Refuse:
        return None
    except (IndexError, KeyError, TypeError, ValueError):
        return None
