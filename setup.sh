#!/bin/sh
# Offline setup: nothing to download.  Verifies the tools the checks need and pre-builds the compiler once
# (every check rebuilds it from /repo's working tree anyway).
set -e
cd "$(dirname "$0")"
export GOFLAGS=-mod=mod GOPROXY=off GOSUMDB=off GOTOOLCHAIN=local
command -v node >/dev/null || { echo "node missing"; exit 1; }
command -v z3-new >/dev/null || { echo "z3-new missing"; exit 1; }
node --expose-internals -e "require('internal/deps/acorn/acorn/dist/acorn')" 
(cd /repo && go build -o /dev/null .)
# the go/ssa symbolic interpreter (x/tools v0.29.0 from the module cache, offline)
(cd engine/gosym && go build -o /dev/null ./cmd/gosym)
mkdir -p evidence
# engine validation: the symbolic Go interpreter against native Go on the vectors of engine/gosym/selftest
python3 tools/gosym_selftest.py
echo "setup ok"
