"""C16 kernels: compiler.removeWhitespace and funcContext.newVariable under -m (gosym engine)."""
import os, sys
sys.path.insert(0, os.path.dirname(os.path.dirname(os.path.dirname(os.path.abspath(__file__)))))
from vlib import core, gokernel

INIT = ['github.com/gopherjs/gopherjs/compiler', 'github.com/gopherjs/gopherjs/internal/sourcemapx', 'bytes', 'errors', 'io', 'unicode/utf8', 'internal/bytealg', 'strings', 'unicode', 'net/url', 'encoding/binary', 'strconv', 'fmt']


def kernel():
    return gokernel.Kernel('C16', 'compiler', ['minify_harness.go'], init=INIT)


def run(tier):
    return gokernel.run_kernels('C16', [kernel()], tier, write=False,
                                title='removeWhitespace keeps the token sequence and string contents; newVariable under -m never collides, never yields a reserved word, keeps local and package-level alphabets apart',
                                bounds={'removeWhitespace': 'every well-formed input of <= %d bytes over an 11-character alphabet with one or two representatives of each lexical class the scanner distinguishes (identifier, digit, -, =, ;, space, newline, string delimiter, backslash, /, *), and of <= %d bytes over the 6 characters that drive the string and comment scanners' % ((4, 5) if tier == 'quick' else (5, 7)),
                                        'newVariable': 'every history of <= %d operations (allocate local / allocate package-level / enter nested function / leave) over a stack of <= 3 contexts; 760 allocations in one scope (past all one- and two-letter names)' % (6 if tier == 'quick' else 7),
                                        'precondition': 'white space never separates two punctuators that would merge, except "- -" (unary plus is never emitted); trailing white space follows a statement end'},
                                harness_re='^VHarness_' if tier == 'quick' else '^VHarness')
