"""C16 — minification preserves behaviour.

(a) The case corpora of C06 (a slice), C07, C08, C14 and C02 are rebuilt with -m: the minified linked file (esbuild-minified
    prelude, shortened identifiers, whitespace removed by removeWhitespace) is executed symbolically and every path must
    satisfy the same specification-derived reference, for all inputs / yield subsets.
(b) Minify-specific templates: identifier exhaustion past 26 and 702 names in one scope, shadowing, closures, local types
    inside closures, string literals with quotes / backslashes / comment-like text, adjacent unary and binary minus."""
import os, sys, random, importlib.util
HERE = os.path.dirname(os.path.abspath(__file__))
sys.path.insert(0, os.path.dirname(os.path.dirname(HERE)))
from vlib import core, tv, runner


def load(pid):
    spec = importlib.util.spec_from_file_location('h' + pid, os.path.join(os.path.dirname(HERE), pid, 'check.py'))
    m = importlib.util.module_from_spec(spec)
    spec.loader.exec_module(m)
    return m


def own_cases(tier):
    C = []
    T = tv.trace_case
    V = 'a := int(NondetInt16(0))\nb := int(NondetInt16(1))\n_, _ = a, b\n'
    ok = lambda evs: [('true', evs, 'normal')]
    # many variables in one scope: every one gets its own short name
    for n in ([30, 130] if tier == 'quick' else [30, 130, 720]):
        decl = '//go:noinline\nfunc many%d(a, b int) int {\n' % n
        decl += ''.join('\tv%d := a + %d\n' % (i, i) for i in range(n))
        decl += '\ts := 0\n' + ''.join('\ts += v%d * %d\n' % (i, (i % 7) + 1) for i in range(n)) + '\treturn s + b\n}\n'
        tot_c = sum((i % 7) + 1 for i in range(n))
        tot_k = sum(i * ((i % 7) + 1) for i in range(n))
        C.append(T('many_vars_%d' % n, decl, V + 'println("m", many%d(a, b))' % n, lambda inp, tc=tot_c, tk=tot_k: ok([('m', ['(+ (* %d in_0) %d in_1)' % (tc, tk)])])))
    # many package-level names + local named types in closures + first uses of composite types (package-level type variables)
    decl = ''.join('var pv%d = %d\n' % (i, i) for i in range(40))
    decl += '''
//go:noinline
func closureTypes(a int) int {
	total := 0
	f := func(x int) int {
		type local struct{ v, w int }
		l := local{x, x + 1}
		return l.v + l.w
	}
	total += f(a)
	s1 := []int{a, 2}
	s2 := []string{"p", "q"}
	m1 := map[string][]int{"k": s1}
	g := func() int {
		type local struct{ z [2]int }
		return local{[2]int{a, 5}}.z[1]
	}
	total += len(s2) + m1["k"][1] + g()
	return total
}
'''
    C.append(T('closure_local_types', decl, V + 'println("c", closureTypes(a), pv3+pv39)', lambda inp: ok([('c', ['(+ (* 2 in_0) 1 2 2 5)', '42'])])))
    # shadowing and closures capturing shadowed names
    C.append(T('shadowing', '', V + 'x := a\nf := func() int { return x }\n{\n\tx := b\n\tg := func() int { return x }\n\tx++\n\tprintln("in", f(), g(), x)\n}\nfor x := 0; x < 2; x++ {\n\tx := x * 10\n\t_ = x\n}\nprintln("out", x, f())',
               lambda inp: ok([('in', ['in_0', '(+ in_1 1)', '(+ in_1 1)']), ('out', ['in_0', 'in_0'])])))
    # string literals with quotes, backslashes and comment-like text must keep their contents; adjacent literals
    lits = ['C:\\\\', 'say \\"hi\\" // not a comment', '/* keep */ a  b', 'tab\\there', "it's", 'x = { a : 1 } ; y', '\\\\\\"', 'end\\\\']
    body = V + 'i := NondetRange(2, 0, %d)\nss := []string{%s}\ns := ss[i]\nprintln("l", len(s))\nfor k := 0; k < len(s); k++ {\n\tprintln("b", s[k])\n}' % (len(lits) - 1, ', '.join('"%s"' % l for l in lits))
    real = [bytes(l, 'utf8').decode('unicode_escape').encode('latin1') for l in lits]

    def t_lits(inp):
        return [('(= in_2 %d)' % i, [('l', [str(len(r))])] + [('b', [str(x)]) for x in r], 'normal') for i, r in enumerate(real)]
    C.append(T('string_literals', '', body, t_lits))
    # unary/binary minus and plus next to each other
    C.append(T('adjacent_minus', '', V + 'c := -b\nprintln("m", a - -b, a - (-b), - -a, a+ +b, a - c, -a - -b, a / 2 / 1, a - -1, - - -a)',
               lambda inp: ok([('m', ['(+ in_0 in_1)', '(+ in_0 in_1)', 'in_0', '(+ in_0 in_1)', '(+ in_0 in_1)', '(- in_1 in_0)',
                                      '(ite (>= in_0 0) (div in_0 2) (- (div (- in_0) 2)))', '(+ in_0 1)', '(- in_0)'])])))
    C.append(T('increments', '', V + 'x := a\ny := b\nx++\ny--\nz := x - -y\nz -= -1\nw := +x - -(-y)\nprintln("i", x, y, z, w)',
               lambda inp: ok([('i', ['(+ in_0 1)', '(- in_1 1)', '(+ in_0 in_1 1)', '(- (+ in_0 1) (- in_1 1))'])])))
    # lead reported by a sub-agent: pointer variables in generic functions instantiated more than once
    C.append(T('generic_ptr_vars', '//go:noinline\nfunc gp[T any](v, w T) (T, T) {\n\tx := v\n\tp := &x\n\ty := w\n\tq := &y\n\tz := v\n\t*p = w\n\t*q = z\n\treturn x, y\n}\n', V + 'r1, r2 := gp(a, b)\ns1, s2 := gp("p", "qq")\nt1, t2 := gp(int8(1), int8(2))\nprintln("g", r1, r2, len(s1), len(s2), t1, t2)',
               lambda inp: ok([('g', ['in_1', 'in_0', '2', '1', '2', '1'])])))
    return C


def main():
    tier = core.tier()
    rnd = random.Random(core.seed())
    cases = own_cases(tier)
    skip = {'repanic', 'panic_in_defer', 'nil_map_eval_order', 'copy_range_value', 'panic_through_suspending_defer'}        # known findings of C07/C08/C02 (present with and without -m)
    c06 = load('C06').build_cases(tier, rnd)
    want = [c for c in c06 if c.tag.endswith('_vv') or '_by_uint8' in c.tag or c.tag.startswith('conv_') or c.tag.startswith('nest_')]
    want = [c for c in want if 'int64' not in c.tag or c.tag.startswith(('add_', 'sub_', 'eq_', 'lt_', 'conv_'))]
    if tier == 'quick':
        want = [c for i, c in enumerate(want) if i % 3 == 0]
    only = os.environ.get('VERIF_ONLY')
    groups = [('own+trace', cases, 1)]
    tr = []
    for pid in ('C07', 'C08', 'C14', 'C02'):
        tr += [c for c in load(pid).build_cases(tier) if c.tag not in skip]
    allc = cases + tr + want
    if only:
        import re
        allc = [c for c in allc if re.search(only, c.tag)]
    # operator cases last so that chunks of trace cases (one program each: their bodies reuse variable names) come first
    n_trace = len([c for c in allc if c in cases or c in tr])
    os.environ.setdefault('VERIF_C16_TRACE', str(n_trace))
    # kernel part (gosym engine): removeWhitespace and newVariable as standalone kernels
    sys.path.insert(0, HERE)
    import check_kernel
    konly = bool(only and only.startswith('VHarness'))
    krc, kev = check_kernel.run(tier) if (konly or not only) else (0, None)
    if konly:
        return krc

    def post(ev, rep):
        if kev:
            ev['coverage']['kernel_checks'] = kev['coverage']
            ev['violations'] += kev['violations']
    return krc | runner.run_property('C16', allc, tier=tier, chunk=1, minify=True, post=post,
                               title='the same references as C02/C06/C07/C08/C14 plus minify-specific templates, on output built with -m',
                               bounds={'corpus': 'own templates (identifier exhaustion up to %d names in a scope, shadowing, local types in closures, awkward string literals, adjacent minus) + C07/C08/C14/C02 corpora + a third of the C06 var-var/shift/conversion matrix' % (130 if tier == 'quick' else 720),
                                       'outside': 'programs outside the corpus'},
                               cfg={'maxDepth': 800, 'maxPaths': 40000, 'timeoutMs': 10000, 'maxWallMs': 600000}, z3_timeout_ms=15000)


if __name__ == '__main__':
    sys.exit(main())
