//go:build verif

package compiler

// ---------------------------------------------------------------- removeWhitespace

// The alphabet of the code generator's output, by class: identifier characters, digits, the two characters that matter for
// token merging ('-', '+'), other punctuation, the three kinds of white space, string delimiters and escapes, comment
// characters.  Each input byte is chosen from this table by a symbolic index.
var vAlphabet = [...]byte{'a', '7', '-', '=', ';', ' ', '\n', '"', '\\', '/', '*'}

var vWsNames = [10]string{"w0", "w1", "w2", "w3", "w4", "w5", "w6", "w7", "w8", "w9"}

func vIsIdent(c byte) bool {
	return c >= '0' && c <= '9' || c >= 'a' && c <= 'z' || c >= 'A' && c <= 'Z' || c == '_' || c == '$'
}
func vIsSpace(c byte) bool { return c == ' ' || c == '\t' || c == '\n' }

// vTokens is the reference tokenizer (a sketch of the ECMAScript lexical grammar restricted to the alphabet): identifier/number runs,
// double-quoted strings with backslash escapes (contents kept verbatim), /* */ comments and white space skipped, every other
// character a token of its own, except that adjacent '-' characters form one token ("--").  ok=false: not well-formed (unterminated).
func vTokens(b []byte) (toks [][]byte, ok bool) {
	toks, _, ok = vTokensPos(b)
	return
}

// vTokensPos also returns the [start, end) offsets of each token.
func vTokensPos(b []byte) (toks [][]byte, pos [][2]int, ok bool) {
	for i := 0; i < len(b); {
		c := b[i]
		switch {
		case vIsSpace(c):
			i++
		case c == '/' && i+1 < len(b) && b[i+1] == '*':
			j := i + 2
			for {
				if j+1 >= len(b) {
					return nil, nil, false
				}
				if b[j] == '*' && b[j+1] == '/' {
					break
				}
				j++
			}
			i = j + 2
		case c == '"':
			j := i + 1
			for {
				if j >= len(b) {
					return nil, nil, false
				}
				if b[j] == '\\' {
					if j+1 >= len(b) {
						return nil, nil, false
					}
					j += 2
					continue
				}
				if b[j] == '"' {
					break
				}
				j++
			}
			toks = append(toks, b[i:j+1])
			pos = append(pos, [2]int{i, j + 1})
			i = j + 1
		case vIsIdent(c):
			j := i
			for j < len(b) && vIsIdent(b[j]) {
				j++
			}
			toks = append(toks, b[i:j])
			pos = append(pos, [2]int{i, j})
			i = j
		case c == '-':
			j := i
			for j < len(b) && b[j] == '-' {
				j++
			}
			toks = append(toks, b[i:j])
			pos = append(pos, [2]int{i, j})
			i = j
		default:
			toks = append(toks, b[i:i+1])
			pos = append(pos, [2]int{i, i + 1})
			i++
		}
	}
	return toks, pos, true
}

// vMergeable: two punctuators that form a different token (or a comment opener) when written next to each other.  The code generator
// never separates such a pair by white space only; "- -" is the one pair it does emit, and removeWhitespace keeps that space.
func vMergeable(x, y byte) bool {
	switch {
	case x == '/' && (y == '*' || y == '/' || y == '='):
		return true
	case x == '*' && (y == '/' || y == '=' || y == '*'):
		return true
	case (x == '=' || x == '-') && y == '=':
		return true
	case x == '\\' || y == '\\': // a backslash outside a string literal is never emitted
		return true
	}
	return false
}

func vSameTokens(a, b [][]byte) bool {
	if len(a) != len(b) {
		return false
	}
	for i := range a {
		if len(a[i]) != len(b[i]) {
			return false
		}
		for j := range a[i] {
			if a[i][j] != b[i][j] {
				return false
			}
		}
	}
	return true
}

// For every well-formed input over the alphabet (strings and comments terminated, no white space at the very end after an
// identifier character - a declaration's code ends with ';' or '}'), removing white space keeps the token sequence and every
// string literal byte for byte.
func vRemoveWhitespace(max int) { vRemoveWhitespaceOver(vAlphabet[:], max) }

// the characters that drive the string-literal and comment scanners
var vStringAlphabet = [...]byte{'"', '\\', 'a', ' ', '/', '*'}

func vRemoveWhitespaceOver(alphabet []byte, max int) {
	n := VNondetInt("len", 0, max)
	in := make([]byte, n)
	for i := range in {
		k := VNondetInt(vWsNames[i], 0, len(alphabet)-1)
		in[i] = alphabet[k]
	}
	want, pos, ok := vTokensPos(in)
	VAssume(ok)
	for i := 1; i < len(want); i++ {
		if pos[i][0] > pos[i-1][1] { // separated by white space and/or comments only
			x, y := in[pos[i-1][1]-1], in[pos[i][0]]
			VAssume(!vMergeable(x, y))
			if vIsIdent(x) && vIsIdent(y) {
				// two words are always separated by white space in the generated code (a comment alone never separates them)
				// (white space INSIDE a comment does not count: "a/* */a" is not a shape the compiler emits)
				ws := false
				for j := pos[i-1][1]; j < pos[i][0]; j++ {
					if in[j] == '/' && j+1 < pos[i][0] && in[j+1] == '*' {
						j += 2
						for j+1 < pos[i][0] && !(in[j] == '*' && in[j+1] == '/') {
							j++
						}
						j++ // on the closing '/'
						continue
					}
					if in[j] == '/' && j+1 < pos[i][0] && in[j+1] == '/' {
						for j < pos[i][0] && in[j] != '\n' {
							j++
						}
						j-- // the line end itself is white space outside the comment
						continue
					}
					if vIsSpace(in[j]) {
						ws = true
					}
				}
				VAssume(ws)
			}
		}
	}
	if len(want) > 0 && pos[len(want)-1][1] < n {
		// white space / comments at the very end are only ever emitted after the end of a statement (';' '}' ')' ...), never after an identifier or an operator
		last := in[pos[len(want)-1][1]-1]
		VAssume(!vIsIdent(last) && last != '-')
	}
	VAssume(n == 0 || in[n-1] != '/') // a division is always followed by an operand (the code looks one byte ahead)
	defer func() {
		if r := recover(); r != nil {
			VAssert(false, "removeWhitespace panics on a well-formed input")
		}
	}()
	cp := append([]byte{}, in...)
	out := removeWhitespace(cp, true)
	got, ok2 := vTokens(out)
	VAssert(ok2, "the output is still well-formed")
	VAssert(vSameTokens(want, got), "white-space removal keeps the token sequence and string contents")
	VAssert(len(out) <= len(in), "nothing is added")
	same := removeWhitespace(in, false)
	VAssert(len(same) == len(in), "without -m the code is returned unchanged")
	VReach("ws-checked")
}

func VHarness_RemoveWhitespace()         { vRemoveWhitespace(4) }
func VHarness_RemoveWhitespaceStrings()  { vRemoveWhitespaceOver(vStringAlphabet[:], 5) }
func VHarnessThorough_RemoveWhitespaceStrings() { vRemoveWhitespaceOver(vStringAlphabet[:], 7) }
func VHarnessThorough_RemoveWhitespace() { vRemoveWhitespace(5) }

// ---------------------------------------------------------------- newVariable under -m

func vNewRoot() *funcContext {
	fc := &funcContext{pkgCtx: &pkgContext{minify: true}, allVars: map[string]int{}}
	for name := range reservedKeywords { // as Compile does for the root context
		fc.allVars[name] = 1
	}
	return fc
}

func vChild(parent *funcContext) *funcContext {
	c := &funcContext{pkgCtx: parent.pkgCtx, parent: parent, allVars: map[string]int{}}
	for k, v := range parent.allVars { // as newFunctionContext/nestedFunctionContext do
		c.allVars[k] = v
	}
	return c
}

var vFlagNames = [8]string{"pk0", "pk1", "pk2", "pk3", "pk4", "pk5", "pk6", "pk7"}
var vScopeNames = [8]string{"sc0", "sc1", "sc2", "sc3", "sc4", "sc5", "sc6", "sc7"}

var vOpNames = [8]string{"op0", "op1", "op2", "op3", "op4", "op5", "op6", "op7"}

// Any history of <= 6 (thorough: 7) operations over a stack of nested function contexts, as the translator uses them: 0 = allocate a local name,
// 1 = allocate a package-level name, 2 = enter a nested function (a context that copies its parent's table), 3 = leave it.  A newly
// allocated name must differ from every name that can be visible at that point: every name allocated so far in the current
// context and its ancestors, and every package-level name allocated anywhere.  It is never a reserved word, and local /
// package-level names use disjoint alphabets.
func VHarness_NewVariableHistories()         { vNewVariableHistories(6) }
func VHarnessThorough_NewVariableHistories() { vNewVariableHistories(7) }

func vNewVariableHistories(maxOps int) {
	type scope struct {
		fc    *funcContext
		names []string
	}
	stack := []*scope{{fc: vNewRoot()}}
	var pkgNames []string
	k := VNondetInt("count", 1, maxOps)
	for i := 0; i < k; i++ {
		op := VNondetInt(vOpNames[i], 0, 3)
		cur := stack[len(stack)-1]
		switch op {
		case 2:
			VAssume(len(stack) < 3)
			stack = append(stack, &scope{fc: vChild(cur.fc)})
			continue
		case 3:
			VAssume(len(stack) > 1)
			stack = stack[:len(stack)-1]
			continue
		}
		pkg := op == 1
		name := cur.fc.newVariable("v", pkg)
		VAssert(!reservedKeywords[name], "a generated name is never a reserved word")
		VAssert(len(name) > 0, "non-empty name")
		for _, ch := range []byte(name) {
			if ch == '$' {
				break
			}
			if pkg {
				VAssert(ch >= 'A' && ch <= 'Z', "package-level names use the upper-case alphabet")
			} else {
				VAssert(ch >= 'a' && ch <= 'z', "local names use the lower-case alphabet")
			}
		}
		for _, sc := range stack {
			for _, p := range sc.names {
				VAssert(p != name, "names visible together are distinct")
			}
		}
		for _, p := range pkgNames {
			VAssert(p != name, "a package-level name is never reused")
		}
		if pkg {
			pkgNames = append(pkgNames, name)
		} else {
			cur.names = append(cur.names, name)
		}
	}
	VReach("newvar-checked")
}

// 760 allocations in one scope run past every one- and two-letter name (26 + 26*26 = 702), i.e. past "do", "if", "in": all distinct, none reserved.
func VHarness_NewVariableExhaustion() {
	root := vNewRoot()
	fc := vChild(root)
	seen := map[string]bool{}
	for i := 0; i < 760; i++ {
		name := fc.newVariable("x", false)
		VAssert(!seen[name], "names allocated in one scope are pairwise distinct")
		VAssert(!reservedKeywords[name], "a generated name is never a reserved word")
		seen[name] = true
	}
	VAssert(!seen["do"] && !seen["if"] && !seen["in"], "the two-letter keywords were skipped")
	VReach("newvar-exhaustion-checked")
}
