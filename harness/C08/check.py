"""C08 — panics, deferred calls, recover and run-time errors follow the spec.

(a) run-time checks: symbolic indices / lengths / divisors / selectors decide whether an operation panics; the emitted
    JavaScript must raise the run-time error exactly when Go does, after the same printed prefix.
(b) unwinding: defer / recover / re-panic / named results shapes where symbolic inputs choose which operation panics.
Reference: alternatives (condition, expected events, expected end) written from the language specification."""
import os, sys
sys.path.insert(0, os.path.dirname(os.path.dirname(os.path.dirname(os.path.abspath(__file__)))))
from vlib import core, tv, runner

IDX = 'index out of range'
SLC = 'slice bounds out of range'
NILP = 'invalid memory address or nil pointer dereference'


def build_cases(tier):
    C = []
    T = tv.trace_case

    # ---------------- (a) run-time checks
    C.append(T('array_index', '', 'var a [3]int\na[0], a[1], a[2] = 10, 20, 30\ni := NondetInt(0)\nprintln("v", a[i])',
               lambda inp: [('(and (<= 0 in_0) (< in_0 3))', [('v', ['(ite (= in_0 0) 10 (ite (= in_0 1) 20 30))'])], 'normal'),
                            ('(not (and (<= 0 in_0) (< in_0 3)))', [], ('panic', IDX))]))
    C.append(T('array_store', '', 'var a [3]int\ni := NondetInt(0)\nv := NondetInt(1)\na[i] = v\nprintln("v", a[0], a[1], a[2])',
               lambda inp: [('(and (<= 0 in_0) (< in_0 3))', [('v', ['(ite (= in_0 0) in_1 0)', '(ite (= in_0 1) in_1 0)', '(ite (= in_0 2) in_1 0)'])], 'normal'),
                            ('(not (and (<= 0 in_0) (< in_0 3)))', [], ('panic', IDX))]))
    C.append(T('slice_index', '', 'n := NondetRange(0, 0, 4)\ns := make([]int, n)\ni := NondetInt(1)\nv := NondetInt(2)\nfor k := range s {\n\ts[k] = k + 1\n}\nprintln("l", len(s))\ns[i] = v\nprintln("v", s[i])',
               lambda inp: [('(and (<= 0 in_1) (< in_1 in_0))', [('l', ['in_0']), ('v', ['in_2'])], 'normal'),
                            ('(not (and (<= 0 in_1) (< in_1 in_0)))', [('l', ['in_0'])], ('panic', IDX))]))
    C.append(T('slice_expr2', '', 's := []int{1, 2, 3, 4}\ns = s[:3]\ni := NondetRange(0, -1, 5)\nj := NondetRange(1, -1, 5)\nt := s[i:j]\nprintln("t", len(t), cap(t))',
               lambda inp: [('(and (<= 0 in_0) (<= in_0 in_1) (<= in_1 4))', [('t', ['(- in_1 in_0)', '(- 4 in_0)'])], 'normal'),
                            ('(not (and (<= 0 in_0) (<= in_0 in_1) (<= in_1 4)))', [], ('panic', SLC))]))
    C.append(T('slice_expr3', '', 's := []int{1, 2, 3, 4}\ni := NondetRange(0, -1, 5)\nj := NondetRange(1, -1, 5)\nk := NondetRange(2, -1, 5)\nt := s[i:j:k]\nprintln("t", len(t), cap(t))',
               lambda inp: [('(and (<= 0 in_0) (<= in_0 in_1) (<= in_1 in_2) (<= in_2 4))', [('t', ['(- in_1 in_0)', '(- in_2 in_0)'])], 'normal'),
                            ('(not (and (<= 0 in_0) (<= in_0 in_1) (<= in_1 in_2) (<= in_2 4)))', [], ('panic', SLC))]))
    C.append(T('array_slice_expr', '', 'var a [4]int\ni := NondetRange(0, -1, 5)\nj := NondetRange(1, -1, 5)\nt := a[i:j]\nprintln("t", len(t), cap(t))',
               lambda inp: [('(and (<= 0 in_0) (<= in_0 in_1) (<= in_1 4))', [('t', ['(- in_1 in_0)', '(- 4 in_0)'])], 'normal'),
                            ('(not (and (<= 0 in_0) (<= in_0 in_1) (<= in_1 4)))', [], ('panic', SLC))]))
    C.append(T('make_len', '', 'n := NondetRange(0, -3, 3)\ns := make([]byte, n)\nprintln("l", len(s))',
               lambda inp: [('(>= in_0 0)', [('l', ['in_0'])], 'normal'), ('(< in_0 0)', [], ('panic', 'makeslice: len out of range'))]))
    C.append(T('make_cap', '', 'n := NondetRange(0, 0, 3)\nc := NondetRange(1, -1, 4)\ns := make([]int32, n, c)\nprintln("l", len(s), cap(s))',
               lambda inp: [('(>= in_1 in_0)', [('l', ['in_0', 'in_1'])], 'normal'), ('(and (<= 0 in_1) (< in_1 in_0))', [], ('panic', 'makeslice: cap out of range')),
                            ('(< in_1 0)', [], ('panic', 'makeslice: cap out of range'))]))
    C.append(T('slice_to_array', '', 'n := NondetRange(0, 0, 5)\ns := make([]int, n)\na := [3]int(s)\nprintln("a", len(a))',
               lambda inp: [('(>= in_0 3)', [('a', ['3'])], 'normal'), ('(< in_0 3)', [], ('panic', 'cannot convert slice with length'))]))
    C.append(T('nil_map_write', '', 'var m map[int]int\nif NondetBool(0) {\n\tm = map[int]int{}\n}\nprintln("r", m[3], len(m))\nm[3] = 4\nprintln("w", m[3])',
               lambda inp: [('in_0', [('r', ['0', '0']), ('w', ['4'])], 'normal'), ('(not in_0)', [('r', ['0', '0'])], ('panic', 'assignment to entry in nil map'))]))
    C.append(T('nil_pointer', 'type pt struct{ x, y int }\n', 'var p *pt\nif NondetBool(0) {\n\tp = &pt{1, 2}\n}\nprintln("a")\nprintln("y", p.y)',
               lambda inp: [('in_0', [('a', []), ('y', ['2'])], 'normal'), ('(not in_0)', [('a', [])], ('panic', NILP))]))
    C.append(T('nil_func', '', 'var f func() int\nif NondetBool(0) {\n\tf = func() int { return 7 }\n}\nprintln("a")\nprintln("f", f())',
               lambda inp: [('in_0', [('a', []), ('f', ['7'])], 'normal'), ('(not in_0)', [('a', [])], ('panic', NILP))]))
    C.append(T('div_zero_order', '//go:noinline\nfunc note(k int) int { println("n", k); return k }\n',
               'x := NondetInt32(0)\ny := NondetInt32(1)\na := note(1)\nq := x / y\nb := note(2)\nprintln("q", a+b, q)',
               lambda inp: [('(not (= in_1 0))', [('n', ['1']), ('n', ['2']), ('q', ['3', '(let ((q (ite (>= in_0 0) (ite (> in_1 0) (div in_0 in_1) (- (div in_0 (- in_1)))) (ite (> in_1 0) (- (div (- in_0) in_1)) (div (- in_0) (- in_1)))))) (- (mod (+ q 2147483648) 4294967296) 2147483648))'])], 'normal'),
                            ('(= in_1 0)', [('n', ['1'])], ('panic', 'integer divide by zero'))]))
    # constant dividend, variable divisor (quotient and remainder, signed and unsigned): the zero check stays
    C.append(T('div_zero_const_dividend', '', 'y := NondetInt16(0)\nu := NondetUint8(1)\nprintln("a")\nk := NondetRange(2, 0, 3)\nswitch k {\ncase 0:\n\tprintln("q", 1000/int(y))\ncase 1:\n\tprintln("q", 1000%int(y))\ncase 2:\n\tprintln("q", 200/u)\ncase 3:\n\tprintln("q", uint32(7)%uint32(u))\n}',
               lambda inp: [('(and (< in_2 2) (= in_0 0))', [('a', [])], ('panic', 'integer divide by zero')), ('(and (>= in_2 2) (= in_1 0))', [('a', [])], ('panic', 'integer divide by zero')),
                            ('(and (= in_2 0) (not (= in_0 0)))', [('a', []), ('q', ['(ite (> in_0 0) (div 1000 in_0) (- (div 1000 (- in_0))))'])], 'normal'),
                            ('(and (= in_2 1) (not (= in_0 0)))', [('a', []), ('q', ['(mod 1000 (ite (> in_0 0) in_0 (- in_0)))'])], 'normal'),
                            ('(and (= in_2 2) (not (= in_1 0)))', [('a', []), ('q', ['(div 200 in_1)'])], 'normal'),
                            ('(and (= in_2 3) (not (= in_1 0)))', [('a', []), ('q', ['(mod 7 in_1)'])], 'normal')]))
    C.append(T('type_assert', 'type stringer interface{ String() string }\ntype named int\nfunc (n named) String() string { return "named" }\n',
               'var v interface{}\nswitch NondetRange(0, 0, 3) {\ncase 0:\n\tv = 5\ncase 1:\n\tv = "s"\ncase 2:\n\tv = named(3)\n}\nprintln("a")\nprintln("i", v.(int))',
               lambda inp: [('(= in_0 0)', [('a', []), ('i', ['5'])], 'normal'), ('(not (= in_0 0))', [('a', [])], ('panic', 'interface conversion'))]))
    C.append(T('type_assert_iface', 'type stringer interface{ String() string }\ntype named int\nfunc (n named) String() string { return "named" }\n',
               'var v interface{}\nswitch NondetRange(0, 0, 3) {\ncase 0:\n\tv = 5\ncase 1:\n\tv = "s"\ncase 2:\n\tv = named(3)\n}\ns, ok := v.(stringer)\nprintln("ok", ok)\nif ok {\n\tprintln("s", s.String())\n}\nprintln("t", v.(stringer) != nil)',
               lambda inp: [('(= in_0 2)', [('ok', ['true']), ('s', ['named']), ('t', ['true'])], 'normal'), ('(not (= in_0 2))', [('ok', ['false'])], ('panic', 'interface conversion'))]))
    # the SAME boxed value on both sides: an uncomparable dynamic type still panics (no identity shortcut), also inside structs / arrays / switch
    C.append(T('uncomparable_same_object', 'type holder struct{ v interface{} }\n', 'var a interface{} = []int{1}\nb := a\nm := map[string]int{}\nvar c interface{} = m\nh1 := holder{a}\nh2 := holder{a}\nk := NondetRange(0, 0, 4)\nprintln("s")\nswitch k {\ncase 0:\n\tprintln("e", a == b)\ncase 1:\n\tprintln("e", c == c)\ncase 2:\n\tprintln("e", h1 == h2)\ncase 3:\n\tswitch a {\n\tcase b:\n\t\tprintln("e", true)\n\t}\ncase 4:\n\tvar n interface{}\n\tprintln("e", n == n, a != nil)\n}',
               lambda inp: [('(< in_0 4)', [('s', [])], ('panic', 'comparing uncomparable type')), ('(= in_0 4)', [('s', []), ('e', ['true', 'true'])], 'normal')]))
    # uncomparable fields nested in structs and arrays, with the types declared before and after the types that contain them
    C.append(T('uncomparable_nested_types', 'type outerA struct{ b midB }\ntype midB struct{ c leafC }\ntype leafC struct{ s []int }\ntype leafZ struct{ m map[int]int }\ntype midY struct{ z [1]leafZ }\ntype outerW struct{ y midY }\ntype fine struct{ a [2]struct{ p *leafC } }\ntype fn struct{ f func() }\n',
               'k := NondetRange(0, 0, 9)\nvals := []interface{}{outerA{}, midB{}, leafC{}, outerW{}, midY{}, [1]leafZ{}, [2]outerA{}, struct{ a outerA }{}, fn{}, fine{}}\nprintln("s")\nprintln("e", vals[k] == vals[k])',
               lambda inp: [('(< in_0 9)', [('s', [])], ('panic', 'comparing uncomparable type')), ('(= in_0 9)', [('s', []), ('e', ['true'])], 'normal')]))
    C.append(T('uncomparable', '', 'var a, b interface{}\nswitch NondetRange(0, 0, 2) {\ncase 0:\n\ta, b = 1, 1\ncase 1:\n\ta, b = []int{1}, []int{1}\ncase 2:\n\ta, b = []int{1}, 2\n}\nprintln("a")\nprintln("e", a == b)',
               lambda inp: [('(= in_0 0)', [('a', []), ('e', ['true'])], 'normal'), ('(= in_0 2)', [('a', []), ('e', ['false'])], 'normal'),
                            ('(= in_0 1)', [('a', [])], ('panic', 'comparing uncomparable type'))]))
    C.append(T('chan_close', '', 'var c chan int\nk := NondetRange(0, 0, 3)\nif k > 0 {\n\tc = make(chan int, 1)\n}\nif k == 2 {\n\tclose(c)\n}\nprintln("a")\nif k == 3 {\n\tc <- 1\n\tprintln("s", <-c)\n}\nclose(c)\nprintln("c")',
               lambda inp: [('(= in_0 0)', [('a', [])], ('panic', 'close of nil channel')), ('(= in_0 1)', [('a', []), ('c', [])], 'normal'),
                            ('(= in_0 2)', [('a', [])], ('panic', 'close of closed channel')), ('(= in_0 3)', [('a', []), ('s', ['1']), ('c', [])], 'normal')]))
    C.append(T('chan_send_closed', '', 'c := make(chan int, 2)\nif NondetBool(0) {\n\tclose(c)\n}\nprintln("a")\nc <- 1\nprintln("b", len(c))',
               lambda inp: [('(not in_0)', [('a', []), ('b', ['1'])], 'normal'), ('in_0', [('a', [])], ('panic', 'send on closed channel'))]))
    C.append(T('nil_map_eval_order', '//go:noinline\nfunc note(k int) int { println("n", k); return k }\n', 'var m map[int]int\nif NondetBool(0) {\n\tm = map[int]int{}\n}\nm[note(1)] = note(2)\nprintln("l", len(m))',
               lambda inp: [('in_0', [('n', ['1']), ('n', ['2']), ('l', ['1'])], 'normal'), ('(not in_0)', [('n', ['1']), ('n', ['2'])], ('panic', 'assignment to entry in nil map'))]))

    # ---------------- (b) defer / recover / unwinding
    D = '''
//go:noinline
func mayPanic(k int, at int) {
	if k == at {
		panic(at)
	}
}

//go:noinline
func rec(tag string) {
	if r := recover(); r != nil {
		if v, ok := r.(int); ok {
			println(tag, v)
			return
		}
		println(tag, -1)
	}
}
'''
    # LIFO order, arguments evaluated at the defer statement, defers run on normal return and on panic
    C.append(T('defer_lifo', D + '''
//go:noinline
func lifo(k int) {
	x := 1
	defer println("d1", x)
	x = 2
	defer println("d2", x)
	mayPanic(k, 1)
	x = 3
	defer println("d3", x)
	mayPanic(k, 2)
	println("body", x)
}
''', 'k := NondetRange(0, 0, 2)\ndefer rec("r")\nlifo(k)\nprintln("after")',
               lambda inp: [('(= in_0 0)', [('body', ['3']), ('d3', ['3']), ('d2', ['2']), ('d1', ['1']), ('after', [])], 'normal'),
                            ('(= in_0 1)', [('d2', ['2']), ('d1', ['1']), ('r', ['1'])], 'normal'),
                            ('(= in_0 2)', [('d3', ['3']), ('d2', ['2']), ('d1', ['1']), ('r', ['2'])], 'normal')]))
    # recover stops unwinding in the deferring function; named results can be modified by the deferred closure
    C.append(T('recover_named_result', D + '''
//go:noinline
func guarded(k int, v int) (res int) {
	defer func() {
		if r := recover(); r != nil {
			res = -r.(int)
		} else {
			res *= 2
		}
	}()
	mayPanic(k, 7)
	res = v
	return res + 1
}
''', 'k := NondetRange(0, 6, 8)\nv := NondetInt16(1)\nprintln("g", guarded(k, int(v)))\nprintln("end")',
               lambda inp: [('(= in_0 7)', [('g', ['(- 7)']), ('end', [])], 'normal'), ('(not (= in_0 7))', [('g', ['(* 2 (+ in_1 1))']), ('end', [])], 'normal')]))
    # recover only works when called directly by the deferred function
    C.append(T('recover_indirect', D + '''
//go:noinline
func helper() interface{} { return recover() }

//go:noinline
func indirect(k int) {
	defer func() {
		r := helper()
		println("inner", r != nil)
	}()
	mayPanic(k, 1)
	println("body")
}
''', 'k := NondetRange(0, 0, 1)\ndefer rec("outer")\nindirect(k)\nprintln("after")',
               lambda inp: [('(= in_0 0)', [('body', []), ('inner', ['false']), ('after', [])], 'normal'),
                            ('(= in_0 1)', [('inner', ['false']), ('outer', ['1'])], 'normal')]))
    # re-panic with a new value from a deferred function replaces the panic value
    C.append(T('repanic', D + '''
//go:noinline
func replacing(k int) {
	defer func() {
		if k >= 2 {
			panic(20 + k)
		}
	}()
	mayPanic(k, 1)
	mayPanic(k, 3)
	println("body")
}
''', 'k := NondetRange(0, 0, 3)\ndefer rec("r")\nreplacing(k)\nprintln("after")',
               lambda inp: [('(= in_0 0)', [('body', []), ('after', [])], 'normal'), ('(= in_0 1)', [('r', ['1'])], 'normal'),
                            ('(= in_0 2)', [('body', []), ('r', ['22'])], 'normal'), ('(= in_0 3)', [('r', ['23'])], 'normal')]))
    # nested: inner function recovers, outer continues; panic inside deferred call while not panicking
    C.append(T('nested_recover', D + '''
//go:noinline
func inner(k int) (out int) {
	defer func() {
		if r := recover(); r != nil {
			out = 100 + r.(int)
		}
	}()
	mayPanic(k, 1)
	mayPanic(k, 2)
	return 5
}

//go:noinline
func outer(k int) int {
	defer rec("outer")
	a := inner(k)
	mayPanic(k, 3)
	return a + 1
}
''', 'k := NondetRange(0, 0, 3)\nprintln("o", outer(k))',
               lambda inp: [('(= in_0 0)', [('o', ['6'])], 'normal'), ('(= in_0 1)', [('o', ['102'])], 'normal'), ('(= in_0 2)', [('o', ['103'])], 'normal'),
                            ('(= in_0 3)', [('outer', ['3']), ('o', ['0'])], 'normal')]))
    # uncaught explicit panic carries its value; deferred calls still run
    C.append(T('uncaught_custom', D + '''
//go:noinline
func thrower(k int) {
	defer println("deferred")
	if k == 1 {
		panic("boom")
	}
	println("fine")
}
''', 'k := NondetRange(0, 0, 1)\nthrower(k)\nprintln("end")',
               lambda inp: [('(= in_0 0)', [('fine', []), ('deferred', []), ('end', [])], 'normal'), ('(= in_0 1)', [('deferred', [])], ('panic', 'boom'))]))
    # run-time errors are recoverable and implement runtime.Error
    C.append(T('recover_runtime_error', '''
//go:noinline
func isRT(r interface{}) bool {
	_, ok := r.(interface{ RuntimeError() })
	return ok
}

//go:noinline
func try(i int, d int) (kind int) {
	defer func() {
		if r := recover(); r != nil {
			kind = 1
			if isRT(r) {
				kind = 2
			}
		}
	}()
	a := []int{1, 2, 3}
	return a[i] / d
}
''', 'i := NondetRange(0, -1, 3)\nd := NondetRange(1, 0, 1)\nprintln("k", try(i, d))',
               lambda inp: [('(and (<= 0 in_0) (< in_0 3) (= in_1 1))', [('k', ['(+ in_0 1)'])], 'normal'),
                            ('(not (and (<= 0 in_0) (< in_0 3) (= in_1 1)))', [('k', ['2'])], 'normal')]))
    # a deferred method value / closure loop: each defer captures its own argument
    C.append(T('defer_loop', '', 'n := NondetRange(0, 0, 3)\nfor i := 0; i < n; i++ {\n\tdefer println("d", i)\n}\nprintln("body", n)',
               lambda inp: [('(= in_0 %d)' % n, [('body', [str(n)])] + [('d', [str(i)]) for i in reversed(range(n))], 'normal') for n in range(4)]))
    # panic during panicking: the deferred function of an outer frame recovers the latest panic
    C.append(T('panic_in_defer', D + '''
//go:noinline
func twice(k int) {
	defer func() {
		mayPanic(k, 2)
		println("d-ok")
	}()
	mayPanic(k, 1)
	mayPanic(k+10, 12)
	println("body")
}
''', 'k := NondetRange(0, 0, 2)\ndefer rec("r")\ntwice(k)\nprintln("after")',
               lambda inp: [('(= in_0 0)', [('body', []), ('d-ok', []), ('after', [])], 'normal'), ('(= in_0 1)', [('d-ok', []), ('r', ['1'])], 'normal'),
                            ('(= in_0 2)', [('r', ['2'])], 'normal')]))
    C.append(T('recover_after_nested_recovered', D + '''
//go:noinline
func swallow(v int) {
	defer func() { recover() }()
	panic(v + 1000)
}

//go:noinline
func outer(k, v int) (r int) {
	defer func() {
		if k >= 1 {
			swallow(v)
		}
		if x := recover(); x != nil {
			r = x.(int)
		}
		if k >= 2 {
			swallow(v)
			if y := recover(); y != nil {
				r = -1
			}
		}
	}()
	panic(v)
}
''', 'k := NondetRange(0, 0, 2)\nv := int(NondetInt16(1))\nprintln("r", outer(k, v))', lambda inp: [('true', [('r', ['in_1'])], 'normal')]))
    return C


def main():
    tier = core.tier()
    cases = build_cases(tier)
    only = os.environ.get('VERIF_ONLY')
    if only:
        import re
        cases = [c for c in cases if re.search(only, c.tag)]
    return runner.run_property('C08', cases, tier=tier, chunk=1,
                               title='run-time panics and defer/recover unwinding of the Go specification vs symbolic execution of the emitted JavaScript and the prelude ($callDeferred, $panic, $recover, $subslice, $makeSlice, $assertType, ...)',
                               bounds={'indices/lengths': 'full int32 for array/slice/string indices; slice lengths and bounds within -1..5',
                                       'unwinding': 'listed defer/recover shapes, nesting depth <= 3, the panicking operation chosen by a symbolic selector',
                                       'outside': 'panic message text beyond the class substring; Goexit; panics in other goroutines'},
                               cfg={'maxDepth': 800, 'maxPaths': 5000, 'timeoutMs': 20000})


if __name__ == '__main__':
    sys.exit(main())
