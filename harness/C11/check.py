"""C11 — Go and JavaScript values convert as documented and round-trip.

Templates importing github.com/gopherjs/gopherjs/js: symbolic Go values are passed to JavaScript (property values, call
arguments, return values of exposed functions, fields of a struct wrapping a JavaScript object) and read back; the real
$externalize / $internalize / $externalizeFunction / $sliceToNativeArray and the compiler's js.Object call translation are
executed symbolically.  References come from the conversion table in js/js.go: for all values representable on both sides the
round trip is the identity; JavaScript-side classes (typed-array constructors, Array, Object, Function) are observed through
js.Object accessors."""
import os, sys
sys.path.insert(0, os.path.dirname(os.path.dirname(os.path.dirname(os.path.abspath(__file__)))))
from vlib import core, tv, runner, gospec, utf8spec as U

JS = 'import "github.com/gopherjs/gopherjs/js"\n'
NEW = 'o := js.Global.Get("Object").New()\n'
ok = lambda evs: [('true', evs, 'normal')]
W = gospec.wrap
F64 = lambda t: '((_ to_fp 11 53) RNE (to_real %s))' % t


def sel(k, rows, end='normal'):
    return [('(= in_%d %d)' % (k, i), ev, end if not isinstance(end, list) else end[i]) for i, ev in enumerate(rows)]


def build_cases(tier):
    C = []
    T = tv.trace_case
    # ---- scalars: every integer width, bool; read back with the accessor of matching width
    C.append(T('roundtrip_integers', JS, NEW + 'b := NondetBool(0)\ni8 := NondetInt8(1)\nu8 := NondetUint8(2)\ni16 := NondetInt16(3)\nu16 := NondetUint16(4)\ni32 := NondetInt32(5)\nu32 := NondetUint32(6)\ni := NondetInt(7)\nu := NondetUint(8)\n'
               'o.Set("b", b)\no.Set("i8", i8)\no.Set("u8", u8)\no.Set("i16", i16)\no.Set("u16", u16)\no.Set("i32", i32)\no.Set("u32", u32)\no.Set("i", i)\no.Set("u", u)\n'
               'println("r", o.Get("b").Bool(), o.Get("i8").Int(), o.Get("u8").Int(), o.Get("i16").Int(), o.Get("u16").Int(), o.Get("i32").Int(), o.Get("i").Int())\nVerifOutU64("u32", o.Get("u32").Uint64())\nVerifOutU64("u", o.Get("u").Uint64())\nVerifOutI64("i32", o.Get("i32").Int64())',
               lambda inp: ok([('r', ['in_0', 'in_1', 'in_2', 'in_3', 'in_4', 'in_5', 'in_7']), ('u32', ['in_6']), ('u', ['in_8']), ('i32', ['in_5'])])))
    C.append(T('roundtrip_int64', JS, NEW + 'l := NondetInt64R(0, -9007199254740992, 9007199254740992)\nu := NondetUint64R(1, 0, 9007199254740992)\no.Set("l", l)\no.Set("u", u)\nVerifOutI64("l", o.Get("l").Int64())\nVerifOutU64("u", o.Get("u").Uint64())',
               lambda inp: ok([('l', ['in_0']), ('u', ['in_1'])])))
    C.append(T('roundtrip_floats', JS, NEW + 'f := NondetFloat64(0)\ng := NondetFloat32(1)\no.Set("f", f)\no.Set("g", g)\nVerifOutF64("f", o.Get("f").Float())\nVerifOutF64("g", o.Get("g").Float())\nVerifOutF64("h", o.Get("f").Interface().(float64))\nprintln("n", f != f, o.Get("f").Float() != o.Get("f").Float())',
               lambda inp: ok([('f', ['in_0']), ('g', ['((_ to_fp 11 53) RNE in_1)']), ('h', ['in_0']), ('n', ['(fp.isNaN in_0)', '(fp.isNaN in_0)'])])))
    # ---- strings: all byte strings up to the bound; valid UTF-8 round-trips exactly, and JavaScript sees the UTF-16 of the same code points
    maxlen = 4 if tier == 'quick' else 5

    def str_alts(inp):
        alts = []
        n_path = len([k for k in inp if k.startswith('in_0_') and k[5:].isdigit()])      # the path fixes the length (forked at NondetString)
        for n in [n_path]:
            bs = ['in_0_%d' % i for i in range(n)]
            dec = [U.decode_at(bs, i) for i in range(n)]

            import functools

            @functools.lru_cache(None)
            def valid_from(i):
                if i >= n:
                    return 'true'
                r, w = dec[i]
                nxt = U.select(w, ['false'] + [valid_from(min(i + k, n)) for k in (1, 2, 3, 4)])   # w in 1..4
                return '(and (not (and (= %s 1) (>= %s 128))) %s)' % (w, bs[i], nxt)

            @functools.lru_cache(None)
            def units_from(i):
                if i >= n:
                    return '0'
                r, w = dec[i]
                nxt = U.select(w, ['0'] + [units_from(min(i + k, n)) for k in (1, 2, 3, 4)])
                return '(+ (ite (>= %s 65536) 2 1) %s)' % (r, nxt)
            valid = valid_from(0)
            first = dec[0][0] if n else '(- 1)'
            alts.append(('(and (= in_0_len %d) %s)' % (n, valid), [('s', ['true', units_from(0), first, 'true'])], 'normal'))
            alts.append(('(and (= in_0_len %d) (not %s))' % (n, valid), [('s', ['false', None, None, 'true'])], 'normal'))
        return alts
    C.append(T('roundtrip_strings', JS, NEW + 's := NondetString(0, %d)\no.Set("s", s)\nt := o.Get("s").String()\ncp := -1\nif len(s) > 0 {\n\tcp = o.Get("s").Call("codePointAt", 0).Int()\n}\nprintln("s", t == s, o.Get("s").Length(), cp, o.Get("s").Interface().(string) == t)' % maxlen, str_alts))
    # ---- what JavaScript values become as interface{} (documented table)
    C.append(T('interface_dynamic_types', JS, 'a := int(NondetInt16(0))\n' + NEW + 'o.Set("num", a)\no.Set("str", "hey")\no.Set("boo", true)\no.Set("arr", []interface{}{a, "x"})\no.Set("obj", map[string]interface{}{"k": a})\no.Set("nul", nil)\no.Set("i8", []int8{1, 2})\no.Set("fn", func() {})\n'
               'keys := []string{"num", "str", "boo", "arr", "obj", "nul", "i8", "fn", "missing"}\nk := NondetRange(1, 0, 8)\nv := o.Get(keys[k]).Interface()\nr := -1\nswitch x := v.(type) {\ncase float64:\n\tr = 0\n\tif x != float64(a) {\n\t\tr = 100\n\t}\ncase string:\n\tr = 1\ncase bool:\n\tr = 2\ncase []interface{}:\n\tr = 3\n\tif len(x) != 2 || x[0].(float64) != float64(a) || x[1].(string) != "x" {\n\t\tr = 103\n\t}\ncase map[string]interface{}:\n\tr = 4\n\tif len(x) != 1 || x["k"].(float64) != float64(a) {\n\t\tr = 104\n\t}\ncase nil:\n\tr = 5\ncase []int8:\n\tr = 6\ncase func(...interface{}) *js.Object:\n\tr = 7\ncase *js.Object:\n\tr = 8\n\tif x != js.Undefined {\n\t\tr = 108\n\t}\n}\nprintln("t", r)',
               lambda inp: sel(1, [[('t', [str(x)])] for x in (0, 1, 2, 3, 4, 5, 6, 7, 8)])))
    # ---- numeric slices are typed arrays of the documented class with the same elements; other slices are Arrays
    TA = [('int8', 'Int8', 'Int8Array', 8, True), ('int16', 'Int16', 'Int16Array', 16, True), ('int32', 'Int32', 'Int32Array', 32, True), ('uint8', 'Uint8', 'Uint8Array', 8, False),
          ('uint16', 'Uint16', 'Uint16Array', 16, False), ('uint32', 'Uint32', 'Uint32Array', 32, False), ('int', 'Int', 'Int32Array', 32, True), ('uint', 'Uint', 'Uint32Array', 32, False)]
    for gt, nd, cls, bits, signed in TA:
        rd = 'Int()' if (signed or bits < 32) else 'Uint64()'
        C.append(T('typed_array_%s' % gt, JS, NEW + 'x := Nondet%s(0)\ny := Nondet%s(1)\nn := NondetRange(2, 0, 3)\nbase := []%s{7, x, y, 9, 11}\ns := base[1 : 1+n]\no.Set("s", s)\ncapped := base[:n:n]\no.Set("capped", capped)\njs_ := o.Get("s")\nback := js_.Interface().([]%s)\n'
                   'sum := %s(0)\nfor _, e := range back {\n\tsum += e\n}\nprintln("c", js_.Get("constructor") == js.Global.Get("%s"), js_.Length(), len(back), js.Global.Get("Array").Call("isArray", js_).Bool())\nprintln("v", int64(sum) == int64(sumOf(s)), n == 0 || int64(js_.Index(0).%s) == int64(x), o.Get("capped").Length(), len(o.Get("capped").Interface().([]%s)))' % (nd, nd, gt, {'int32': 'int', 'uint32': 'uint'}.get(gt, gt), {'int32': 'int', 'uint32': 'uint'}.get(gt, gt), cls, rd, {'int32': 'int', 'uint32': 'uint'}.get(gt, gt)),
                   lambda inp: ok([('c', ['true', 'in_2', 'in_2', 'false']), ('v', ['true', 'true', 'in_2', 'in_2'])]), ))
        C[-1].decl = JS + '//go:noinline\nfunc sumOf(s []%s) %s {\n\tvar t %s\n\tfor _, e := range s {\n\t\tt += %s(e)\n\t}\n\treturn t\n}\n' % (gt, {'int32': 'int', 'uint32': 'uint'}.get(gt, gt), {'int32': 'int', 'uint32': 'uint'}.get(gt, gt), {'int32': 'int', 'uint32': 'uint'}.get(gt, gt))
    C.append(T('typed_array_floats', JS, NEW + 'f := NondetFloat64(0)\ng := NondetFloat32(1)\no.Set("f", []float64{f, 1.5})\no.Set("g", []float32{g})\nVerifOutF64("f", o.Get("f").Index(0).Float())\nVerifOutF64("g", o.Get("g").Index(0).Float())\nprintln("c", o.Get("f").Get("constructor") == js.Global.Get("Float64Array"), o.Get("g").Get("constructor") == js.Global.Get("Float32Array"), len(o.Get("f").Interface().([]float64)), len(o.Get("g").Interface().([]float32)))',
               lambda inp: ok([('f', ['in_0']), ('g', ['((_ to_fp 11 53) RNE in_1)']), ('c', ['true', 'true', '2', '1'])])))
    C.append(T('other_slices_arrays', JS, 'a := int(NondetInt16(0))\n' + NEW + 'o.Set("ss", []string{"p", "qq"})\no.Set("bs", []bool{true, a > 0})\no.Set("nest", [][]int{{a}, {1, 2}})\no.Set("arr", [3]int16{1, int16(a), 3})\no.Set("empty", []string{})\nvar nilS []int\no.Set("nils", nilS)\nisArr := func(k string) bool { return js.Global.Get("Array").Call("isArray", o.Get(k)).Bool() }\n'
               'println("a", isArr("ss"), o.Get("ss").Length(), o.Get("ss").Index(1).String(), isArr("bs"), o.Get("bs").Index(1).Bool(), isArr("nest"), o.Get("nest").Index(0).Get("constructor") == js.Global.Get("Int32Array"), o.Get("nest").Index(0).Index(0).Int(), o.Get("arr").Get("constructor") == js.Global.Get("Int16Array"), o.Get("arr").Index(1).Int(), o.Get("empty").Length(), o.Get("nils") == nil)',
               lambda inp: ok([('a', ['true', '2', 'qq', 'true', '(> in_0 0)', 'true', 'true', 'in_0', 'true', 'in_0', '0', 'true'])])))
    # ---- maps and structs become Objects; read back as map[string]interface{}
    C.append(T('maps_and_structs', JS + 'type inner struct{ V int }\ntype rec struct {\n\tName  string\n\tCount int\n\tIn    inner\n\tPtr   *inner\n\thidden int\n}\n', 'a := int(NondetInt16(0))\n' + NEW + 'o.Set("m", map[string]int{"x": a, "y": 2})\no.Set("r", rec{"n", a, inner{a + 1}, &inner{5}, 9})\nvar nilM map[string]int\no.Set("nm", nilM)\nm := o.Get("m").Interface().(map[string]interface{})\nr := o.Get("r")\n'
               'println("m", len(m), m["x"].(float64) == float64(a), o.Get("m").Get("y").Int(), len(js.Keys(o.Get("m"))))\nprintln("r", r.Get("Name").String(), r.Get("Count").Int(), r.Get("In").Get("V").Int(), r.Get("Ptr").Get("V").Int(), r.Get("hidden") == js.Undefined, o.Get("nm") == nil)',
               lambda inp: ok([('m', ['2', 'true', '2', '2']), ('r', ['n', 'in_0', '(+ in_0 1)', '5', 'true', 'true'])])))
    # ---- functions: converted arguments and results, identity of the wrapper, JavaScript functions called from Go
    C.append(T('functions', JS, 'a := int(NondetInt16(0))\nb := NondetInt8(1)\n' + NEW + 'f := func(x int, s string, i8 int8, fl float64) int { return x + len(s) + int(i8) + int(fl) }\no.Set("f", f)\no.Set("g", f)\nh := func(x int) (int, string) { return x + 1, "two" }\no.Set("h", h)\no.Set("v", func(xs ...int) int { return len(xs) })\n'
               'res := o.Call("h", a)\nback := o.Get("f").Interface().(func(...interface{}) *js.Object)\nprintln("f", o.Call("f", a, "xyz", b, 2.0).Int(), o.Get("f") == o.Get("g"), o.Get("f") == o.Get("h"), res.Index(0).Int(), res.Index(1).String(), o.Call("v", 1, 2, 3).Int(), back(a, "s", b, 0.0).Int(), js.Global.Get("Math").Call("max", a, 5).Int())',
               lambda inp: ok([('f', ['(+ in_0 3 in_1 2)', 'true', 'false', '(+ in_0 1)', 'two', '3', '(+ in_0 1 in_1)', '(ite (> in_0 5) in_0 5)'])])))
    C.append(T('nil_null_undefined', JS + 'type st struct{ X int }\n', NEW + 'var p *st\nvar e interface{}\nvar fn func()\no.Set("p", p)\no.Set("e", e)\no.Set("fn", fn)\no.Set("z", 0)\no.Set("es", "")\nprintln("n", o.Get("p") == nil, o.Get("e") == nil, o.Get("z") == nil, o.Get("es") == nil, o.Get("nope") == js.Undefined, o.Get("nope") == nil, o.Get("p") == js.Undefined, o.Get("z").Bool(), o.Get("es").Bool(), o.Get("nope").Bool())',
               lambda inp: ok([('n', ['true', 'true', 'false', 'false', 'true', 'false', 'false', 'false', 'false', 'false'])])))
    # ---- struct wrapping a JavaScript object: fields with js tags read and write the object's properties
    C.append(T('struct_wrapping_object', JS + 'type wrapped struct {\n\t*js.Object\n\tN    int     `js:"n"`\n\tS    string  `js:"s"`\n\tF    float64 `js:"f"`\n\tB    bool    `js:"b"`\n\tL    []int8  `js:"l"`\n\tKid  *js.Object `js:"kid"`\n}\n',
               'a := int(NondetInt16(0))\nf := NondetFloat64(1)\n' + NEW + 'w := &wrapped{Object: o}\nw.N = a\nw.S = "str"\nw.F = f\nw.B = a > 3\nw.L = []int8{int8(a), 4}\nw.Kid = js.Global.Get("Object").New()\nw.Kid.Set("deep", a)\nw.N += 2\no.Set("s", o.Get("s").String()+"!")\n'
               'println("w", o.Get("n").Int(), w.N, w.S, o.Get("b").Bool(), w.B, o.Get("l").Length(), w.L[0], w.L[1], o.Get("kid").Get("deep").Int(), w.Get("n").Int())\nVerifOutF64("f", w.F)\nVerifOutF64("g", o.Get("f").Float())',
               lambda inp: ok([('w', ['(+ in_0 2)', '(+ in_0 2)', 'str!', '(> in_0 3)', '(> in_0 3)', '2', W('int8', 'in_0'), '4', 'in_0', '(+ in_0 2)']), ('f', ['in_1']), ('g', ['in_1'])])))
    # ---- blocking Go code called from a JavaScript callback fails with the documented error
    C.append(T('blocking_in_callback', JS, 'ch := make(chan int)\ndone := make(chan int, 1)\nblockIt := NondetBool(0)\ncb := func() {\n\tprintln("cb")\n\tif blockIt {\n\t\t<-ch\n\t}\n\tdone <- 1\n}\njs.Global.Call("setTimeout", cb, 0)\nprintln("wait")\n<-done\nprintln("end")',
               lambda inp: [('(not in_0)', [('wait', []), ('cb', []), ('end', [])], 'normal'), ('in_0', [('wait', []), ('cb', [])], ('panic', 'cannot block in JavaScript callback'))]))
    return C


def main():
    tier = core.tier()
    cases = build_cases(tier)
    only = os.environ.get('VERIF_ONLY')
    if only:
        import re
        cases = [c for c in cases if re.search(only, c.tag)]
    return runner.run_property('C11', cases, tier=tier, chunk=1, confirm='reference',
                               title='Go <-> JavaScript conversions through the js package: documented target classes and round trips for all representable values',
                               bounds={'integers': 'full width of every type <= 32 bits; int64/uint64 within +-2^53', 'floats': 'every float64 / float32 (SMT FloatingPoint), NaN and the sign of zero included',
                                       'strings': 'every byte string of length <= %d; the round-trip claim is for the valid UTF-8 ones' % (4 if tier == 'quick' else 5), 'slices': 'length 0..3 windows of a 5-element backing array, elements full width',
                                       'outside': 'time.Time <-> Date (time does not build here), DOM Node, MakeWrapper / MakeFullWrapper, cyclic structures'},
                               cfg={'maxDepth': 600, 'maxPaths': 40000, 'timeoutMs': 20000, 'maxWallMs': 600000})


if __name__ == '__main__':
    sys.exit(main())
