"""C03 — channels, select and the goroutine scheduler follow Go semantics.

Small closed systems (<= 4 goroutines x <= 3 channel operations, capacities 0..2, select with/without default, close,
range, nil channels) are generated from a DSL.  The Go program is compiled by the real compiler and the JavaScript
($send/$recv/$close/$select/$go/$schedule/$runScheduled/$block of the real prelude) is executed under EVERY resolution of
the runtime's nondeterminism: Math.random in $select, the 4 ms time-slice break in $runScheduled (Date.now is a symbolic
choice) and the firing order of timers with equal deadlines are solver-level choice variables of the path explorer.
Sent values are symbolic (all int8 values).  Each path must be an outcome allowed by an explicit-state reference of Go's
channel semantics (all goroutine interleavings): same per-goroutine observations (value identities decided by z3),
same termination (normal / deadlock / panic)."""
import os, sys, json, time, random, itertools
sys.path.insert(0, os.path.dirname(os.path.dirname(os.path.dirname(os.path.abspath(__file__)))))
from vlib import core, tv, runner


# ------------------------------------------------------------------ DSL -> Go source
def go_source(cfg):
    chans, gs = cfg['chans'], cfg['gs']
    L = ['func main() {']
    for name, cap in chans.items():
        if cap is None:
            L.append('\tvar %s chan int' % name)
        else:
            L.append('\t%s := make(chan int, %d)' % (name, cap))
    nvals = 0
    for g in gs:
        for op in g:
            pass
    # values: evaluated up front so that every send carries a distinct symbolic input
    vals = sorted({v for g in gs for op in g for v in op_vals(op)})
    for v in vals:
        L.append('\tv%d := int(NondetInt8(%d))' % (v, v))
        L.append('\t_ = v%d' % v)
    L.append('\tdone := make(chan int, %d)' % max(len(gs) - 1, 1))
    for gi in range(1, len(gs)):
        L.append('\tgo func() {')
        L += ['\t' + ln for ln in ops_src(gi, gs[gi])]
        L.append('\t\tdone <- 1')
        L.append('\t}()')
    L += ops_src(0, gs[0])
    L.append('\tfor i := 0; i < %d; i++ {\n\t\t<-done\n\t}' % (len(gs) - 1))
    L.append('\tprintln("end")')
    L.append('}')
    return '\n'.join(L)


def op_vals(op):
    if op[0] == 'send':
        return [op[2]]
    if op[0] == 'select':
        return [c[2] for c in op[1] if c[0] == 'send']
    return []


def ops_src(gi, ops):
    out = []
    for k, op in enumerate(ops):
        tag = 'g%d_%d' % (gi, k)
        if op[0] == 'send':
            out.append('\t%s <- v%d' % (op[1], op[2]))
            out.append('\tprintln("%s", 1)' % tag)
        elif op[0] == 'recv':
            out.append('\t{\n\t\tx, ok := <-%s\n\t\tprintln("%s", x, ok)\n\t}' % (op[1], tag))
        elif op[0] == 'close':
            out.append('\tclose(%s)' % op[1])
            out.append('\tprintln("%s", 2)' % tag)
        elif op[0] == 'range':
            out.append('\tfor x := range %s {\n\t\tprintln("%s", x, true)\n\t}\n\tprintln("%s", 0, false)' % (op[1], tag, tag))
        elif op[0] == 'select':
            out.append('\tselect {')
            for ci, c in enumerate(op[1]):
                if c[0] == 'send':
                    out.append('\tcase %s <- v%d:\n\t\tprintln("%s", %d)' % (c[1], c[2], tag, 10 + ci))
                else:
                    out.append('\tcase x, ok := <-%s:\n\t\tprintln("%s", %d, x, ok)' % (c[1], tag, 10 + ci))
            if op[2]:
                out.append('\tdefault:\n\t\tprintln("%s", 99)' % tag)
            out.append('\t}')
    return out


# ------------------------------------------------------------------ reference semantics (explicit state, all interleavings)
class Ref:
    """Go channel semantics with the runtime's wait queues.  State is immutable tuples; outcomes are collected in a set."""

    def __init__(self, cfg):
        self.cfg = cfg
        self.chnames = list(cfg['chans'].keys()) + ['done']
        self.caps = dict(cfg['chans'])
        self.caps['done'] = max(len(cfg['gs']) - 1, 1)
        self.progs = []
        for gi, g in enumerate(cfg['gs']):
            ops = []
            for k, op in enumerate(g):
                ops.append(op + (('g%d_%d' % (gi, k)),) if op[0] != 'select' else ('select', op[1], op[2], 'g%d_%d' % (gi, k)))
            if gi > 0:
                ops.append(('send', 'done', 'one', None))
            else:
                for _ in range(len(cfg['gs']) - 1):
                    ops.append(('recv', 'done', None))
                ops.append(('end',))
            self.progs.append(ops)
        self.outcomes = set()
        self.states = 0
        self.transitions = 0

    def run(self):
        n = len(self.progs)
        chans = {c: ((), False, (), ()) for c in self.chnames}      # buffer, closed, sendq [(g, v, selinfo)], recvq [(g, selinfo)]
        init = (tuple(0 for _ in range(n)), tuple('run' for _ in range(n)), tuple(sorted(chans.items())), tuple(() for _ in range(n)))
        seen = set()
        stack = [init]
        while stack:
            st = stack.pop()
            if st in seen:
                continue
            seen.add(st)
            self.states += 1
            for nxt in self.steps(st):
                self.transitions += 1
                if nxt[0] == 'final':
                    self.outcomes.add(nxt[1:])
                else:
                    stack.append(nxt)
        return self.outcomes

    def steps(self, st):
        pcs, status, chans_t, obs = st
        chans = dict(chans_t)
        n = len(pcs)
        runnable = [g for g in range(n) if status[g] == 'run']
        if not runnable:
            # nobody can run: finished normally or deadlock
            if status[0] == 'done':
                return [('final', obs, 'normal')]
            return [('final', obs, 'deadlock')]
        if status[0] == 'done':
            # main returned: the program is over in Go.  (The templates make main wait for everybody, so this only happens at the end.)
            return [('final', obs, 'normal')]
        out = []
        for g in runnable:
            out += self.step_g(g, pcs, status, chans, obs)
        return out

    def pack(self, pcs, status, chans, obs):
        return (tuple(pcs), tuple(status), tuple(sorted(chans.items())), tuple(obs))

    def addobs(self, obs, g, o):
        obs = list(obs)
        obs[g] = obs[g] + (o,)
        return obs

    def wake(self, pcs, status, g):
        pcs[g] += 1
        status[g] = 'run'

    def unregister(self, chans, g):
        for c in list(chans):
            buf, closed, sq, rq = chans[c]
            chans[c] = (buf, closed, tuple(e for e in sq if e[0] != g), tuple(e for e in rq if e[0] != g))

    def do_send(self, g, ch, v, tag, sel, pcs, status, chans, obs):
        """sender g proceeds with a send that is ready (or panics).  Returns list of successor states."""
        pcs, status, chans, obs = list(pcs), list(status), dict(chans), list(obs)
        buf, closed, sq, rq = chans[ch]
        if closed:
            return [('final', tuple(obs), 'panic:send on closed channel')]
        if rq:
            (r, rsel), rq = rq[0], rq[1:]
            chans[ch] = (buf, closed, sq, rq)
            self.unregister(chans, r)
            rop = self.progs[r][pcs[r]]
            rtag = rop[-1]
            if rsel is not None:
                obs = self.addobs(obs, r, (rtag, 10 + rsel, v, True))
            elif rop[0] == 'range':
                obs = self.addobs(obs, r, (rtag, v, True))
                status[r] = 'run'          # stays on the range op
                pcs[r] -= 1
            elif rtag is not None:
                obs = self.addobs(obs, r, (rtag, v, True))
            self.wake(pcs, status, r)
        else:
            chans[ch] = (buf + (v,), closed, sq, rq)
        if tag is not None:
            obs = self.addobs(obs, g, (tag, 10 + sel) if sel is not None else (tag, 1))
        pcs[g] += 1
        return [self.pack(pcs, status, chans, obs)]

    def send_ready(self, chans, ch):
        if self.caps.get(ch) is None:
            return False
        buf, closed, sq, rq = chans[ch]
        return closed or bool(rq) or len(buf) < self.caps[ch]

    def recv_ready(self, chans, ch):
        if self.caps.get(ch) is None:
            return False
        buf, closed, sq, rq = chans[ch]
        return bool(buf) or bool(sq) or closed

    def do_recv(self, g, ch, tag, sel, is_range, pcs, status, chans, obs):
        pcs, status, chans, obs = list(pcs), list(status), dict(chans), list(obs)
        buf, closed, sq, rq = chans[ch]
        if buf:
            v, buf = buf[0], buf[1:]
            if sq:
                (s, sv, ssel), sq = sq[0], sq[1:]
                buf = buf + (sv,)
                chans[ch] = (buf, closed, sq, rq)
                self.unregister(chans, s)
                self.sender_done(s, ssel, pcs, status, obs)
            else:
                chans[ch] = (buf, closed, sq, rq)
            ok = True
        elif sq:
            (s, v, ssel), sq = sq[0], sq[1:]
            chans[ch] = (buf, closed, sq, rq)
            self.unregister(chans, s)
            self.sender_done(s, ssel, pcs, status, obs)
            ok = True
        else:
            v, ok = 'zero', False
        if tag is not None:
            if sel is not None:
                obs[g] = obs[g] + ((tag, 10 + sel, v, ok),)
            else:
                obs[g] = obs[g] + ((tag, v, ok),)
        if is_range and ok:
            pass            # stay on the range op
        else:
            pcs[g] += 1
        return [self.pack(pcs, status, chans, obs)]

    def sender_done(self, s, ssel, pcs, status, obs):
        sop = self.progs[s][pcs[s]]
        stag = sop[-1]
        if stag is not None:
            obs[s] = obs[s] + ((stag, 10 + ssel) if ssel is not None else (stag, 1),)
        pcs[s] += 1
        status[s] = 'run'

    def step_g(self, g, pcs, status, chans, obs):
        op = self.progs[g][pcs[g]]
        kind = op[0]
        if kind == 'end':
            s2 = list(status)
            s2[g] = 'done'
            o2 = self.addobs(obs, g, ('end',))
            return [self.pack(pcs, s2, chans, o2)]
        if pcs[g] >= len(self.progs[g]) - (0 if g == 0 else 0) and False:
            return []
        if kind == 'send':
            ch, v, tag = op[1], op[2], op[3]
            if self.caps.get(ch) is None:
                return self.block(g, pcs, status, chans, obs)
            if self.send_ready(chans, ch):
                res = self.do_send(g, ch, ('in', v) if v != 'one' else 'one', tag, None, pcs, status, chans, obs)
                return self.finish_goroutine(res)
            c2 = dict(chans)
            buf, closed, sq, rq = c2[ch]
            c2[ch] = (buf, closed, sq + ((g, ('in', v) if v != 'one' else 'one', None),), rq)
            return self.block(g, pcs, status, c2, obs)
        if kind in ('recv', 'range'):
            ch, tag = op[1], op[2]
            if self.caps.get(ch) is None:
                return self.block(g, pcs, status, chans, obs)
            if self.recv_ready(chans, ch):
                return self.finish_goroutine(self.do_recv(g, ch, tag, None, kind == 'range', pcs, status, chans, obs))
            c2 = dict(chans)
            buf, closed, sq, rq = c2[ch]
            c2[ch] = (buf, closed, sq, rq + ((g, None),))
            return self.block(g, pcs, status, c2, obs)
        if kind == 'close':
            ch, tag = op[1], op[2]
            if self.caps.get(ch) is None:
                return [('final', tuple(obs), 'panic:close of nil channel')]
            buf, closed, sq, rq = chans[ch]
            if closed:
                return [('final', tuple(obs), 'panic:close of closed channel')]
            if sq:
                return [('final', tuple(obs), 'panic:send on closed channel')]
            pcs2, st2, c2, o2 = list(pcs), list(status), dict(chans), list(obs)
            c2[ch] = (buf, True, (), ())
            for (r, rsel) in rq:
                self.unregister(c2, r)
                rop = self.progs[r][pcs2[r]]
                rtag = rop[-1]
                if rtag is not None:
                    o2[r] = o2[r] + ((rtag, 10 + rsel, 'zero', False) if rsel is not None else (rtag, 'zero', False),)
                pcs2[r] += 1
                st2[r] = 'run'
            o2[g] = o2[g] + ((tag, 2),)
            pcs2[g] += 1
            return self.finish_goroutine([self.pack(pcs2, st2, c2, o2)])
        if kind == 'select':
            cases, has_default, tag = op[1], op[2], op[3]
            ready = []
            for ci, c in enumerate(cases):
                if c[0] == 'send':
                    buf_closed = self.caps.get(c[1]) is not None and chans[c[1]][1]
                    if buf_closed:
                        return [('final', tuple(obs), 'panic:send on closed channel')]
                    if self.send_ready(chans, c[1]):
                        ready.append(ci)
                elif self.recv_ready(chans, c[1]):
                    ready.append(ci)
            if ready:
                out = []
                for ci in ready:
                    c = cases[ci]
                    if c[0] == 'send':
                        out += self.do_send(g, c[1], ('in', c[2]), tag, ci, pcs, status, chans, obs)
                    else:
                        out += self.do_recv(g, c[1], tag, ci, False, pcs, status, chans, obs)
                return self.finish_goroutine(out)
            if has_default:
                pcs2 = list(pcs)
                pcs2[g] += 1
                return self.finish_goroutine([self.pack(pcs2, status, chans, self.addobs(obs, g, (tag, 99)))])
            c2 = dict(chans)
            for ci, c in enumerate(cases):
                if self.caps.get(c[1]) is None:
                    continue
                buf, closed, sq, rq = c2[c[1]]
                if c[0] == 'send':
                    c2[c[1]] = (buf, closed, sq + ((g, ('in', c[2]), ci),), rq)
                else:
                    c2[c[1]] = (buf, closed, sq, rq + ((g, ci),))
            return self.block(g, pcs, status, c2, obs)
        raise ValueError(op)

    def block(self, g, pcs, status, chans, obs):
        s2 = list(status)
        s2[g] = 'blocked'
        return [self.pack(pcs, s2, chans, obs)]

    def finish_goroutine(self, states):
        out = []
        for st in states:
            if st[0] == 'final':
                out.append(st)
                continue
            pcs, status, chans, obs = st
            status = list(status)
            for g in range(len(pcs)):
                if g > 0 and pcs[g] >= len(self.progs[g]) and status[g] == 'run':
                    status[g] = 'done'
            out.append((pcs, tuple(status), chans, obs))
        return out


# ------------------------------------------------------------------ configurations
def configs(tier, rnd):
    S, R, C, SEL, RNG = 'send', 'recv', 'close', 'select', 'range'
    L = []
    add = lambda name, chans, gs: L.append({'name': name, 'chans': chans, 'gs': gs})
    add('unbuf_rendezvous', {'c': 0}, [[(R, 'c'), (R, 'c')], [(S, 'c', 0), (S, 'c', 1)]])
    add('buf_fifo', {'c': 2}, [[(R, 'c'), (R, 'c'), (R, 'c')], [(S, 'c', 0), (S, 'c', 1), (S, 'c', 2)]])
    add('buf_full_blocked_sender', {'c': 1}, [[(R, 'c'), (R, 'c'), (R, 'c')], [(S, 'c', 0), (S, 'c', 1), (S, 'c', 2)]])
    add('two_senders', {'c': 1}, [[(R, 'c'), (R, 'c'), (R, 'c')], [(S, 'c', 0), (S, 'c', 1)], [(S, 'c', 2)]])
    add('two_receivers', {'c': 0}, [[(S, 'c', 0), (S, 'c', 1)], [(R, 'c')], [(R, 'c')]])
    add('close_wakes_receivers', {'c': 0}, [[(C, 'c')], [(R, 'c')], [(R, 'c')]])
    add('close_drains_buffer', {'c': 2}, [[(S, 'c', 0), (S, 'c', 1), (C, 'c')], [(RNG, 'c')]])
    add('range_until_close', {'c': 0}, [[(S, 'c', 0), (S, 'c', 1), (C, 'c')], [(RNG, 'c')]])
    add('send_on_closed', {'c': 1}, [[(C, 'c'), (S, 'c', 0)]])
    add('close_with_blocked_sender', {'c': 0}, [[(C, 'c')], [(S, 'c', 0)]])
    add('close_twice', {'c': 0}, [[(C, 'c'), (C, 'c')]])
    add('nil_chan_recv_deadlock', {'n': None}, [[(R, 'n')]])
    add('nil_chan_in_select', {'n': None, 'c': 1}, [[(SEL, [(R, 'n'), (S, 'c', 0)], False), (R, 'c')]])
    add('deadlock_missing_sender', {'c': 0}, [[(R, 'c')], [(S, 'c', 0), (S, 'c', 1)]])
    add('deadlock_last_goroutine_exits', {'c': 0}, [[(R, 'c'), (R, 'c')], [(S, 'c', 0)]])
    add('deadlock_parked_main_then_exit', {'c': 1, 'd': 0}, [[(R, 'd')], [(S, 'c', 0)]])
    add('deadlock_parked_main_two_exit', {'c': 2, 'd': 0}, [[(SEL, [(R, 'd')], False)], [(S, 'c', 0)], [(S, 'c', 1)]])
    add('select_default', {'c': 0}, [[(SEL, [(R, 'c')], True), (SEL, [(S, 'c', 0)], True)]])
    add('select_two_ready', {'a': 1, 'b': 1}, [[(S, 'a', 0), (S, 'b', 1), (SEL, [(R, 'a'), (R, 'b')], False), (SEL, [(R, 'a'), (R, 'b')], False)]])
    add('select_send_recv', {'a': 0, 'b': 0}, [[(SEL, [(S, 'a', 0), (R, 'b')], False)], [(R, 'a')], [(S, 'b', 1)]])
    add('select_blocked_then_woken', {'a': 0, 'b': 0}, [[(SEL, [(R, 'a'), (R, 'b')], False), (SEL, [(R, 'a'), (R, 'b')], False)], [(S, 'a', 0)], [(S, 'b', 1)]])
    add('select_removed_from_other_queue', {'a': 0, 'b': 0}, [[(SEL, [(R, 'a'), (R, 'b')], False), (R, 'b')], [(S, 'a', 0), (S, 'b', 1)]])
    # a blocked select with two cases on the SAME channel (same and mixed directions): when one fires the sibling entry must leave the queue too
    add('select_same_channel_twice_recv', {'a': 0}, [[(SEL, [(R, 'a'), (R, 'a')], False), (R, 'a')], [(S, 'a', 0), (S, 'a', 1)]])
    add('select_same_channel_twice_send', {'a': 0}, [[(SEL, [(S, 'a', 0), (S, 'a', 1)], False), (S, 'a', 2)], [(R, 'a'), (R, 'a')]])
    add('select_same_channel_then_other_goroutine', {'a': 0}, [[(SEL, [(R, 'a'), (R, 'a')], False)], [(R, 'a')], [(S, 'a', 0), (S, 'a', 1)]])
    add('select_closed_recv', {'a': 0}, [[(C, 'a'), (SEL, [(R, 'a')], False), (SEL, [(R, 'a')], True)]])
    add('select_send_closed_panics', {'a': 1, 'b': 1}, [[(C, 'a'), (SEL, [(S, 'a', 0), (S, 'b', 1)], False)]])
    add('pipeline', {'a': 0, 'b': 1}, [[(R, 'b'), (R, 'b')], [(S, 'a', 0), (S, 'a', 1)], [(R, 'a'), (S, 'b', 2), (R, 'a'), (S, 'b', 3)]])
    add('pingpong', {'a': 0, 'b': 0}, [[(S, 'a', 0), (R, 'b'), (S, 'a', 1), (R, 'b')], [(R, 'a'), (S, 'b', 2), (R, 'a'), (S, 'b', 3)]])
    add('fan_in_buffered', {'c': 2}, [[(R, 'c'), (R, 'c'), (R, 'c'), (R, 'c')], [(S, 'c', 0), (S, 'c', 1)], [(S, 'c', 2), (S, 'c', 3)]])
    if tier == 'thorough':
        # generated family: 2-3 goroutines, random ops over two channels
        for k in range(40):
            chans = {'a': rnd.choice([0, 1, 2]), 'b': rnd.choice([0, 1, None])}
            gs = []
            v = 0
            for gi in range(rnd.choice([2, 3])):
                ops = []
                for _ in range(rnd.choice([1, 2, 3])):
                    t = rnd.choice([S, S, R, R, C, SEL])
                    ch = rnd.choice(['a', 'b'])
                    if t == S:
                        ops.append((S, ch, v)); v += 1
                    elif t == R:
                        ops.append((R, ch))
                    elif t == C:
                        ops.append((C, ch))
                    else:
                        cs = []
                        for c2 in ['a', 'b']:
                            if rnd.random() < 0.5:
                                cs.append((S, c2, v)); v += 1
                            else:
                                cs.append((R, c2))
                        ops.append((SEL, cs, rnd.random() < 0.4))
                gs.append(ops)
            add('gen_%d' % k, chans, gs)
    return L


# ------------------------------------------------------------------ comparing a JS path with the reference outcomes
def js_outcome(p):
    """-> (per-goroutine observation tuples with value terms, termination)"""
    per = {}
    deadlock = False
    for o in p['obs']:
        if o['k'] == 'err':
            txt = o['args'][0].get('c', '') if o['args'] else ''
            if 'all goroutines are asleep' in str(txt):
                deadlock = True
            continue
        if o['k'] != 'log' or not o['args']:
            continue
        tag = o['args'][0].get('c')
        if tag == 'end':
            per.setdefault(0, []).append(('end',))
            continue
        if not tag or not tag.startswith('g'):
            continue
        g = int(tag[1:].split('_')[0])
        per.setdefault(g, []).append((tag,) + tuple(json.dumps(a, sort_keys=True) for a in o['args'][1:]))
    t = p['term']
    if t['kind'] == 'normal':
        end = 'normal'
    elif t['kind'] == 'exit' and deadlock:
        end = 'deadlock'
    elif t['kind'] == 'uncaught':
        end = 'panic:' + t['msg'].get('c', '').replace('runtime error: ', '')
    else:
        end = 'other:' + json.dumps(t)[:100]
    return per, end


def match(js_per, js_end, outcome, n):
    """-> list of (js_term, ref_value) equalities to discharge, or None if the shapes differ"""
    obs, end = outcome
    if end != js_end and not (end.startswith('panic:') and js_end.startswith('panic:') and end[6:] in js_end):
        return None
    eqs = []
    for g in range(n):
        a = js_per.get(g, [])
        b = list(obs[g])
        if end.startswith('panic') or end == 'deadlock':
            pass
        if len(a) != len(b):
            return None
        for x, y in zip(a, b):
            if x[0] != y[0] or len(x) != len(y):
                return None
            for xv, yv in zip(x[1:], y[1:]):
                jv = json.loads(xv)
                if isinstance(yv, bool):
                    if jv.get('c') is not yv:
                        return None
                elif isinstance(yv, int):
                    if jv.get('c') != yv:
                        return None
                elif yv == 'zero':
                    if jv.get('c') != 0:
                        return None
                elif isinstance(yv, tuple) and yv[0] == 'in':
                    if 'i' not in jv:
                        return None
                    eqs.append((jv['i'], 'in_%d' % yv[1]))
                else:
                    return None
    return eqs


def check_config(args):
    cfg, workdir, idx, ecfg = args
    t0 = time.time()
    d = os.path.join(workdir, 'cfg%d' % idx)
    src = 'package main\n' + tv.NONDET_DECLS + go_source(cfg)
    core.write_pkg(d, {'main.go': src})
    ok, out = core.compile_js(d)
    if not ok:
        return {'name': cfg['name'], 'error': 'compile: ' + out[-300:]}
    ref = Ref(cfg)
    outcomes = ref.run()
    try:
        res = core.explore(out, ecfg)
    except Exception as e:  # noqa
        return {'name': cfg['name'], 'error': 'engine: ' + str(e)[-300:], 'ref_outcomes': len(outcomes)}
    z3 = core.Z3Session(timeout_ms=10000)
    n = len(cfg['gs'])
    bad, inconc = [], []
    matched = set()
    for p in res['paths']:
        if p['term']['kind'] in ('unsupported', 'bound'):
            inconc.append(p['term'])
            continue
        per, end = js_outcome(p)
        okp = False
        for oc in outcomes:
            eqs = match(per, end, oc, n)
            if eqs is None:
                continue
            if not eqs:
                okp = True
            else:
                lines = [res['smtPrelude']] + core.input_decls(p['inputs']) + list(p['defs']) + ['(assert %s)' % c for c in p['pc']]
                lines.append('(assert (not (and %s)))' % ' '.join('(= %s %s)' % e for e in eqs))
                r, _, _ = z3.solve(lines)
                okp = r == 'unsat'
            if okp:
                matched.add(oc)
                break
        if not okp:
            bad.append({'js': {str(k): v for k, v in per.items()}, 'end': end, 'choices': [c[0] for c in p.get('choices', [])][:20], 'prefix': ''.join('T' if b else 'F' for b in p['prefix'])})
    q = z3.queries
    z3.close()
    import shutil
    if not bad:
        shutil.rmtree(d, ignore_errors=True)
    return {'name': cfg['name'], 'paths': len(res['paths']), 'truncated': bool(res.get('truncated') or res.get('pendingLeft')), 'ref_outcomes': len(outcomes), 'ref_states': ref.states, 'ref_transitions': ref.transitions,
            'bad': bad[:5], 'nbad': len(bad), 'inconclusive': inconc[:3], 'ninconc': len(inconc), 'outcomes_seen': len(matched), 'queries': q, 'dir': d if bad else None,
            'wall_s': round(time.time() - t0, 1), 'go': go_source(cfg) if bad else None}


def main():
    tier = core.tier()
    rnd = random.Random(core.seed())
    t0 = time.time()
    cfgs = configs(tier, rnd)
    only = os.environ.get('VERIF_ONLY')
    if only:
        import re
        cfgs = [c for c in cfgs if re.search(only, c['name'])]
    work = os.path.join(core.scratch(), 'C03')
    os.makedirs(work, exist_ok=True)
    core.gopherjs_bin()
    ecfg = {'maxDepth': 400, 'maxPaths': 3000 if tier == 'quick' else 20000, 'timeoutMs': 5000, 'maxWallMs': 240000, 'timeSlices': 1 if tier == 'quick' else 2, 'timerOrder': True}
    import multiprocessing, concurrent.futures
    ctx = multiprocessing.get_context('fork')
    results = []
    with concurrent.futures.ProcessPoolExecutor(max_workers=min(16, len(cfgs)), mp_context=ctx) as ex:
        for r in ex.map(check_config, [(c, work, i, ecfg) for i, c in enumerate(cfgs)]):
            results.append(r)
    known = core.load_known('C03')
    violations = 0
    noev = bool(os.environ.get('VERIF_NO_EVIDENCE'))
    rroot = os.path.join(core.scratch() if noev else os.path.join(core.VERIF, 'evidence'), 'replay', 'C03')
    import shutil
    shutil.rmtree(rroot, ignore_errors=True)
    for r in results:
        if r.get('nbad'):
            kf = [k for k in known if k.get('status') == 'known' and k.get('harness') == r['name']]
            if kf:
                print('KNOWN-FINDING: property=C03 %s' % kf[0]['what'])
                continue
            violations += 1
            rd = os.path.join(rroot, r['name'])
            os.makedirs(rd, exist_ok=True)
            with open(os.path.join(rd, 'main.go'), 'w') as f:
                f.write('package main\n' + tv.NONDET_DECLS + r['go'])
            with open(os.path.join(rd, 'violation.json'), 'w') as f:
                json.dump(r, f, indent=1)
            print('VIOLATION property=C03 replay=%s' % rd)
            print('  configuration %s: %d of %d explored schedules give an outcome the reference does not allow, e.g. %s' % (r['name'], r['nbad'], r['paths'], json.dumps(r['bad'][0])[:600]))
    errs = [r for r in results if r.get('error')]
    inc = [r for r in results if r.get('ninconc') or r.get('truncated')]
    ev = {'property_id': 'C03', 'tier': tier, 'seed': core.seed(), 'level': 'model_checking', 'wall_s': round(time.time() - t0, 1), 'violations': violations,
          'coverage': {'states': sum(r.get('ref_states', 0) for r in results) or 1, 'transitions': sum(r.get('ref_transitions', 0) for r in results) or 1,
                       'traces_validated_against_impl': sum(r.get('paths', 0) - r.get('nbad', 0) - r.get('ninconc', 0) for r in results if not r.get('error')),
                       'samples': [{'configuration': r['name'], 'js_schedules_explored': r.get('paths'), 'reference_outcomes': r.get('ref_outcomes'), 'outcomes_reached_by_js': r.get('outcomes_seen')} for r in results[:12]],
                       'configurations': len(results), 'configurations_with_errors': [r['name'] + ': ' + r['error'] for r in errs],
                       'configurations_inconclusive': [r['name'] for r in inc], 'solver_queries': sum(r.get('queries', 0) for r in results),
                       'what': 'states/transitions are those of the explicit-state reference of Go channel semantics; every JS path (= one resolution of Math.random, time-slice and timer-order choices, for all int8 payload values) must match an allowed outcome',
                       'bounds': {'goroutines': '<= 4', 'ops per goroutine': '<= 4', 'capacities': '0..2 and nil', 'time-slice breaks per path': ecfg['timeSlices'], 'values': 'all int8 payloads (symbolic)'},
                       'repo': core.repo_state()},
          'assumptions': ['the reference semantics in harness/C03/check.py (class Ref) is the oracle', 'fairness/eventual resumption beyond "woken goroutine is scheduled" is outside the claim']}
    if not noev:
        core.write_evidence('C03', ev)
    print('C03 %s: %d configurations, %d JS schedules explored, %d violations, %d with errors, %d inconclusive, %.1fs' % (
        tier, len(results), sum(r.get('paths', 0) for r in results), violations, len(errs), len(inc), time.time() - t0))
    for r in errs[:5]:
        print('  error', r['name'], r['error'][:300])
    for r in inc[:5]:
        print('  inconclusive', r['name'], r.get('inconclusive'), 'truncated' if r.get('truncated') else '')
    return 1 if violations else 0


if __name__ == '__main__':
    sys.exit(main())
