//go:build verif

package build

import (
	"go/build"
	"io"
	"io/fs"
	"path"
	"sort"
	"strconv"
	"strings"
	"sync"
	"time"
)

func VStub_Getenv(key string) string { return "" }

// go/build.Default as on a Go 1.23 host: only its ReleaseTags are used by /repo (cut down to the supported version in goCtx).  The real
// initialiser reads GOEXPERIMENT through reflection-based parsing, which the interpreter does not follow.
func VStub_DefaultContext() build.Context {
	c := build.Context{GOARCH: "amd64", GOOS: "linux", GOROOT: "/goroot", GOPATH: "/gopath", Compiler: "gc", CgoEnabled: true}
	for i := 1; i <= 23; i++ {
		c.ReleaseTags = append(c.ReleaseTags, "go1."+strconv.Itoa(i))
	}
	return c
}

// the std-package cache of simpleCtx (a sync.Map): always a miss, stores are dropped
func VStub_SyncMapLoad(m *sync.Map, key any) (any, bool) { return nil, false }
func VStub_SyncMapStore(m *sync.Map, key, value any)     {}

type vReadCloser struct{ *strings.Reader }

func (vReadCloser) Close() error { return nil }

type vInfo struct {
	name string
	dir  bool
}

func (i vInfo) Name() string       { return i.name }
func (i vInfo) Size() int64        { return 1 }
func (i vInfo) Mode() fs.FileMode  { return 0o644 }
func (i vInfo) ModTime() time.Time { return time.Time{} }
func (i vInfo) IsDir() bool        { return i.dir }
func (i vInfo) Sys() any           { return nil }

// vInstallFS makes the context read a fake tree: /goroot/src/os and /gopath/src/example.com/user/pkg both hold the given files.
func vInstallFS(bctx *build.Context, files map[string]string) {
	dirs := map[string]bool{"/goroot/src/os": true, "/gopath/src/example.com/user/pkg": true, "/goroot": true, "/goroot/src": true, "/gopath": true, "/gopath/src": true}
	bctx.JoinPath = path.Join
	bctx.SplitPathList = func(l string) []string { return strings.Split(l, ":") }
	bctx.IsAbsPath = path.IsAbs
	bctx.IsDir = func(p string) bool { return dirs[path.Clean(p)] }
	bctx.HasSubdir = func(root, dir string) (string, bool) {
		if strings.HasPrefix(dir, root+"/") {
			return dir[len(root)+1:], true
		}
		return "", false
	}
	bctx.ReadDir = func(dir string) ([]fs.FileInfo, error) {
		if !dirs[path.Clean(dir)] {
			return nil, fs.ErrNotExist
		}
		var names []string
		for n := range files {
			names = append(names, n)
		}
		sort.Strings(names)
		var out []fs.FileInfo
		for _, n := range names {
			out = append(out, vInfo{name: n})
		}
		out = append(out, vInfo{name: "subdir.inc.js", dir: true})
		return out, nil
	}
	bctx.OpenFile = func(p string) (io.ReadCloser, error) {
		c, ok := files[path.Base(p)]
		if !ok {
			return nil, fs.ErrNotExist
		}
		return vReadCloser{strings.NewReader(c)}, nil
	}
}

var vTags = [...]string{"js", "ecmascript", "wasm", "gc", "gccgo", "gopherjs", "netgo", "purego", "math_big_pure_go", "go1.1", "go1.20", "go1.21", "go1.22", "cgo", "linux", "amd64", "unix", "ignore", "usertag", "othertag"}

// documented: GOOS=js GOARCH=ecmascript, the gc compiler, the always-on tags, release tags up to the supported version, the user's tags; never cgo
func vWantTag(tag string, std bool, user []string) bool {
	switch tag {
	case "js", "gc", "gopherjs", "netgo", "purego", "math_big_pure_go", "go1.1", "go1.20":
		return true
	case "ecmascript":
		return !std
	case "wasm":
		return std // standard-library packages are selected as for js/wasm
	}
	for _, u := range user {
		if u == tag {
			return true
		}
	}
	return false
}

var vNames = [...]string{"f.go", "f_js.go", "f_ecmascript.go", "f_js_ecmascript.go", "f_wasm.go", "f_js_wasm.go", "f_linux.go", "f_amd64.go", "f_linux_amd64.go", "f_windows.go", "f_unix.go", "js.go", "ecmascript.go", "f_gopherjs.go", "_f.go", ".f.go"}

// file-name suffixes: _GOOS, _GOARCH, _GOOS_GOARCH with js / ecmascript for user packages, js / wasm for the standard library
func vWantName(name string, std bool) bool {
	arch := "ecmascript"
	if std {
		arch = "wasm"
	}
	switch name {
	case "f.go", "f_js.go", "js.go", "ecmascript.go", "f_gopherjs.go", "f_unix.go", "f_ecmascript.go", "f_js_ecmascript.go":
		// no constraining suffix: a lone "js"/"ecmascript" name, unknown words and _unix are not GOOS/GOARCH suffixes, and "ecmascript" is not an
		// architecture go/build knows, so an _ecmascript suffix constrains nothing (it is satisfied under GOARCH=ecmascript in particular)
		return true
	case "f_wasm.go", "f_js_wasm.go":
		return arch == "wasm"
	}
	return false // other systems / architectures, ignored files (_ or . prefix)
}

// One package directory holding a file per tag (//go:build TAG), per negated tag, per file-name form, a cgo file and .inc.js candidates is
// imported through /repo's simpleCtx.Import (applyPreloadTweaks + go/build + incjs), as a user package and as a standard-library package,
// for every subset of two user tags: the selected Go files and .inc.js files are exactly the documented ones.
func VHarness_ImportSelectsDocumentedFiles() {
	std := VNondetBool("std")
	var user []string
	if VNondetBool("user_usertag") {
		user = append(user, "usertag")
	}
	if VNondetBool("user_othertag") {
		user = append(user, "othertag")
	}
	files := map[string]string{}
	want := map[string]bool{}
	for i, tag := range vTags {
		p := "t" + strconv.Itoa(i) + "pos.go"
		n := "t" + strconv.Itoa(i) + "neg.go"
		files[p] = "//go:build " + tag + "\n\npackage p\n"
		files[n] = "//go:build !" + tag + "\n\npackage p\n"
		want[p] = vWantTag(tag, std, user)
		want[n] = !vWantTag(tag, std, user)
	}
	for _, name := range vNames {
		files[name] = "package p\n"
		want[name] = vWantName(name, std)
	}
	files["usescgo.go"] = "package p\n\n// #include <stdio.h>\nimport \"C\"\n"
	want["usescgo.go"] = false // cgo files are never used
	files["both.go"] = "//go:build js && ecmascript && !cgo && go1.20 && !go1.21\n\npackage p\n"
	want["both.go"] = !std
	incWant := map[string]bool{"extra.inc.js": true, "a.b.inc.js": true}
	for _, n := range []string{"extra.inc.js", "a.b.inc.js", "_hidden.inc.js", ".dot.inc.js", "plain.js", "extra.inc.jsx", "inc.js", "x.inc.js.txt"} {
		files[n] = "// js\n"
	}
	incWant["inc.js"] = false // does not end in ".inc.js"

	e := Env{GOROOT: "/goroot", GOPATH: "/gopath", GOOS: "js", GOARCH: "ecmascript", BuildTags: user}
	sc := goCtx(e)
	vInstallFS(&sc.bctx, files)
	importPath, srcDir := "example.com/user/pkg", ""
	if std {
		importPath = "os"
	}
	pkg, err := sc.Import(importPath, srcDir, 0)
	VAssert(err == nil, "the package imports")
	VAssert(pkg.Goroot == std, "standard-library packages are recognised by living under GOROOT")
	got := map[string]bool{}
	for _, f := range pkg.GoFiles {
		got[f] = true
	}
	VAssert(len(pkg.CgoFiles) == 0, "no cgo files")
	for name, w := range want {
		VAssert(got[name] == w, "a Go file takes part in the build exactly when its constraints are satisfied by the documented tag set: "+name+" "+strings.Split(files[name], "\n")[0])
	}
	for name := range got {
		_, known := want[name]
		VAssert(known, "nothing else is selected")
	}
	gotJS := map[string]bool{}
	for _, f := range pkg.JSFiles {
		gotJS[path.Base(f.Path)] = true
	}
	for _, n := range []string{"extra.inc.js", "a.b.inc.js", "_hidden.inc.js", ".dot.inc.js", "plain.js", "extra.inc.jsx", "inc.js", "x.inc.js.txt", "subdir.inc.js"} {
		VAssert(gotJS[n] == incWant[n], ".inc.js files of the package directory are included (hidden files, directories and other extensions are not)")
	}
	VReach("import-checked")
}

// Every tag of two or three characters over [a-z0-9.] (all 36^2 + 36^3-ish strings, symbolically): a file constrained by it is selected
// in a user package exactly for "js" and "gc" - in particular never for "cgo" - whatever else the string is.
func vSymbolicTag(n int) {
	names := [3]string{"c0", "c1", "c2"}
	bs := make([]byte, n)
	for i := range bs {
		b := VNondetByte(names[i])
		VAssume((b >= 'a' && b <= 'z') || (b >= '0' && b <= '9') || b == '.')
		bs[i] = b
	}
	tag := string(bs)
	e := Env{GOROOT: "/goroot", GOPATH: "/gopath", GOOS: "js", GOARCH: "ecmascript"}
	sc := goCtx(e)
	bctx, _ := sc.applyPreloadTweaks("example.com/user/pkg", "", 0)
	content := "//go:build " + tag + "\n\npackage p\n"
	bctx.OpenFile = func(p string) (io.ReadCloser, error) { return vReadCloser{strings.NewReader(content)}, nil }
	got, err := bctx.MatchFile("/dir", "f.go")
	VAssert(err == nil, "a well-formed constraint line is accepted")
	want := tag == "js" || tag == "gc"
	VAssert(got == want, "a short tag is satisfied exactly if it is js or gc")
	VReach("symbolic-tag-checked")
}

func VHarness_SymbolicTag2()         { vSymbolicTag(2) }
func VHarnessThorough_SymbolicTag3() { vSymbolicTag(3) }
