"""C18 — source files are selected by the documented build constraints.

Kernel check (gosym engine): the build.Context that /repo's own goCtx + applyPreloadTweaks produce (user package and standard-library package,
every subset of two user tags) is handed to the real go/build MatchFile for a table of tags, negated tags and file names.
Plus plain observations on the real toolchain: tags given on the command line reach imported packages, cgo files are ignored,
.inc.js files of a selected directory are included."""
import os, sys
sys.path.insert(0, os.path.dirname(os.path.dirname(os.path.dirname(os.path.abspath(__file__)))))
from vlib import core, gokernel

B = 'github.com/gopherjs/gopherjs/build'
INIT = [B, 'go/build', 'go/build/constraint', 'strings', 'unicode/utf8', 'unicode', 'internal/bytealg', 'errors', 'io', 'bufio', 'bytes', 'strconv', 'sort', 'slices', 'path', 'path/filepath', 'internal/goversion',
        'io/fs', 'time', 'golang.org/x/tools/go/buildutil', 'github.com/gopherjs/gopherjs/compiler/incjs', 'internal/oserror', 'internal/godebugs', 'internal/godebug', 'internal/platform', 'internal/goarch', 'internal/goos', 'go/token', 'go/scanner', 'go/parser', 'go/ast', 'fmt', 'github.com/gopherjs/gopherjs/compiler']


def observations():
    out = {'programs': 0, 'failures': []}
    d = os.path.join(core.scratch(), 'C18obs')
    files = {
        'main.go': 'package main\n\nimport "verifprog/feature"\n\nfunc main() { println("main", variant, feature.Variant, feature.Arch, feature.FromJS()) }\n',
        'main_fast.go': '//go:build fast\n\npackage main\n\nconst variant = "fast"\n', 'main_slow.go': '//go:build !fast\n\npackage main\n\nconst variant = "slow"\n',
        'feature/fast.go': '//go:build fast\n\npackage feature\n\nconst Variant = "fast"\n', 'feature/slow.go': '//go:build !fast\n\npackage feature\n\nconst Variant = "slow"\n',
        'feature/arch_ecmascript.go': 'package feature\n\nconst Arch = "ecmascript"\n', 'feature/arch_wasm.go': 'package feature\n\nconst Arch = "wasm"\n', 'feature/arch_amd64.go': 'package feature\n\nconst Arch = "amd64"\n',
        'feature/cgo.go': 'package feature\n\n// #include <stdio.h>\nimport "C"\n\nconst Arch = "cgo"\n',
        'feature/js.go': 'package feature\n\nimport "github.com/gopherjs/gopherjs/js"\n\nfunc FromJS() string { return js.Global.Get("verifIncluded").String() }\n',
        'feature/extra.inc.js': '$global.verifIncluded = "inc.js included";\n',
    }
    core.write_pkg(d, files)
    for tags, want in ((None, 'main slow slow ecmascript inc.js included'), ('fast', 'main fast fast ecmascript inc.js included'), ('other fast', 'main fast fast ecmascript inc.js included')):
        out['programs'] += 1
        okb, js = core.compile_js(d, tags=tags)
        if not okb:
            out['failures'].append({'tags': tags, 'error': 'build failed: ' + js[-400:]})
            continue
        rc, so, se = core.node_run(js)
        got = (so + se).strip()
        if got != want:
            out['failures'].append({'tags': tags, 'want': want, 'got': got[:300]})
    return out, files


def main():
    tier = core.tier()
    k = gokernel.Kernel('C18', 'build', ['context_harness.go'], init=INIT, stubs=[('os.Getenv', 'VStub_Getenv'), ('go/build.defaultContext', 'VStub_DefaultContext'), ('(*sync.Map).Load', 'VStub_SyncMapLoad'), ('(*sync.Map).Store', 'VStub_SyncMapStore')])
    obs, files = observations() if not os.environ.get('VERIF_ONLY') else ({}, {})
    rc, ev = gokernel.run_kernels('C18', [k], tier, write=False, harness_re='^VHarness_' if tier == 'quick' else '^VHarness', extra={'toolchain_observations': {k_: v for k_, v in obs.items()}},
                                  title='the build context produced by goCtx/applyPreloadTweaks, evaluated by go/build.MatchFile on a table of tags, negated tags and file names',
                                  bounds={'tags': '20 tags (GOOS/GOARCH values, compilers, always-on tags, release tags around the supported version, cgo, foreign systems, two user tags), positive and negated, for user and standard-library packages and every subset of the two user tags',
                                          'file names': '19 names (every suffix form for js/ecmascript/wasm/foreign systems, test files, ignored prefixes, non-Go)',
                                          'argument (not a solver claim)': 'constraint.Expr.Eval is structural, so correctness per tag extends to every boolean expression over these tags',
                                          'outside': 'package location through the go tool / modules; vendor directories'},
                                  explanation='the real context-construction code of /repo and the real go/build matcher executed in the go/ssa interpreter; table entries are chosen by solver-enumerated selectors')
    if obs.get('failures'):
        d = os.path.join(core.VERIF, 'evidence', 'replay', 'C18', 'observation')
        for name, text in files.items():
            p = os.path.join(d, name)
            os.makedirs(os.path.dirname(p), exist_ok=True)
            open(p, 'w').write(text)
        print('VIOLATION property=C18 replay=%s' % d)
        for f in obs['failures'][:4]:
            print('  build-constraint observation: %s' % f)
        ev['violations'] += 1
        rc = 1
    if not os.environ.get('VERIF_NO_EVIDENCE'):
        core.write_evidence('C18', ev)
    return rc


if __name__ == '__main__':
    sys.exit(main())
