"""C13 — JavaScript-backed standard-library overrides equal the Go originals.

Templates import the overridden packages (math, math/bits, sync/atomic, unicode and gopherjs/nosync); the real build merges
the real overlays; the emitted JavaScript of the override is executed symbolically for ALL arguments and compared by z3 with
the function's documented contract: integer contracts in the Int theory, math functions in the SMT FloatingPoint theory
(IEEE-754 binary64: floor/ceil/trunc/sqrt/abs/copysign/min/max/classification are exactly specified there)."""
import os, sys
sys.path.insert(0, os.path.dirname(os.path.dirname(os.path.dirname(os.path.abspath(__file__)))))
from vlib import core, tv, runner

P32 = 4294967296


def fp_case(tag, expr, ref_term, nargs=1, imports='import "math"\n', kind='f64'):
    params = ', '.join('x%d float64' % i for i in range(nargs))
    rt = 'float64' if kind == 'f64' else 'bool'
    decl = [imports, '\n//go:noinline\nfunc %s(%s) %s { return %s }\n' % (tag, params, rt, expr)]
    call = '%s(%s)' % (tag, ', '.join('NondetFloat64(%d)' % i for i in range(nargs)))
    body = 'VerifOutF64("%s", %s)' % (tag, call) if kind == 'f64' else 'println("%s", %s)' % (tag, call)
    inputs = {i: 'float64' for i in range(nargs)}
    names_ = ['in_%d' % i for i in range(nargs)]
    return tv.Case(tag, decl, body, inputs, lambda names: {'panic': None, 'value': ref_term(*names_), 'kind': kind})


def build_cases(tier):
    C = []
    T = tv.trace_case
    B = 'import "math/bits"\n'
    # ---- math/bits natives
    C.append(T('bits_Mul32', [B], 'x := NondetUint32L(0)\ny := NondetUint32L(1)\nhi, lo := bits.Mul32(x, y)\nprintln("m", hi, lo)',
               lambda inp: [('true', [('m', ['(div (* in_0 in_1) %d)' % P32, '(mod (* in_0 in_1) %d)' % P32])], 'normal')]))
    C.append(T('bits_Add32', [B], 'x := NondetUint32(0)\ny := NondetUint32(1)\nc := NondetUint32(2) & 1\ns, co := bits.Add32(x, y, c)\nprintln("a", s, co)',
               lambda inp: [('true', [('a', ['(mod (+ in_0 in_1 (mod in_2 2)) %d)' % P32, '(div (+ in_0 in_1 (mod in_2 2)) %d)' % P32])], 'normal')]))
    dv = '(+ (* in_0 %d) in_1)' % P32
    small = tier == 'quick'
    nd3 = ('hi := uint32(NondetRange(0, 0, 15))\nlo := uint32(NondetRange(1, 0, 255))\ny := uint32(NondetRange(2, 0, 63))\n' if small
           else 'hi := NondetUint32(0)\nlo := NondetUint32(1)\ny := NondetUint32(2)\n')
    C.append(T('bits_Div32', [B], nd3 + 'q, r := bits.Div32(hi, lo, y)\nprintln("d", q, r)',
               lambda inp: [('(and (not (= in_2 0)) (< in_0 in_2))', [('d', ['(div %s in_2)' % dv, '(mod %s in_2)' % dv])], 'normal'),
                            ('(= in_2 0)', [], ('panic', 'divide by zero')), ('(and (not (= in_2 0)) (>= in_0 in_2))', [], ('panic', 'overflow'))]))
    C.append(T('bits_Rem32', [B], nd3 + 'println("r", bits.Rem32(hi, lo, y))',
               lambda inp: [('(not (= in_2 0))', [('r', ['(mod %s in_2)' % dv])], 'normal'), ('(= in_2 0)', [], ('panic', 'divide by zero'))]))
    # the guards of Div32 for small y and hi in {y, y+1} (small, so that a guard that wrongly lets the call through reaches the end of the division quickly;
    # the division itself is decided in the thorough tier): quotient overflow unless y == 0
    C.append(T('bits_Div32_guards', [B], 'y := uint32(NondetRange(0, 0, 5))\nlo := uint32(NondetRange(1, 0, 3))\nd := uint32(NondetRange(2, 0, 1))\nq, r := bits.Div32(y+d, lo, y)\nprintln("d", q, r)',
               lambda inp: [('(= in_0 0)', [], ('panic', 'divide by zero')), ('(not (= in_0 0))', [], ('panic', 'overflow'))]))
    # ---- sync/atomic natives vs their sequential specification
    A = 'import "sync/atomic"\n'
    C.append(T('atomic_int32', [A], 'v := NondetInt32(0)\nd := NondetInt32(1)\no := NondetInt32(2)\nn := NondetInt32(3)\nr1 := atomic.AddInt32(&v, d)\nr2 := atomic.SwapInt32(&v, o)\nok := atomic.CompareAndSwapInt32(&v, n, 7)\nr3 := atomic.LoadInt32(&v)\natomic.StoreInt32(&v, d)\nprintln("a", r1, r2, ok, r3, v)',
               lambda inp: (lambda s: [('true', [('a', [s, s, '(= in_2 in_3)', '(ite (= in_2 in_3) 7 in_2)', 'in_1'])], 'normal')])('(- (mod (+ in_0 in_1 2147483648) 4294967296) 2147483648)')))
    C.append(T('atomic_uint32', [A], 'v := NondetUint32(0)\nd := NondetUint32(1)\nr1 := atomic.AddUint32(&v, d)\nok := atomic.CompareAndSwapUint32(&v, r1, 9)\nok2 := atomic.CompareAndSwapUint32(&v, 8, 1)\nprintln("a", r1, ok, ok2, atomic.LoadUint32(&v))',
               lambda inp: [('true', [('a', ['(mod (+ in_0 in_1) %d)' % P32, 'true', 'false', '9'])], 'normal')]))
    C.append(T('atomic_uintptr', [A], 'v := NondetUintptr(0)\nd := NondetUintptr(1)\nr1 := atomic.AddUintptr(&v, d)\nold := atomic.SwapUintptr(&v, 5)\nprintln("a", r1, old, atomic.LoadUintptr(&v))',
               lambda inp: [('true', [('a', ['(mod (+ in_0 in_1) %d)' % P32, '(mod (+ in_0 in_1) %d)' % P32, '5'])], 'normal')]))
    C.append(tv.Case('atomic_int64_add', [A], 'v := NondetInt64(0)\nd := NondetInt64(1)\nVerifOutI64("atomic_int64_add", atomic.AddInt64(&v, d))', {0: 'int64', 1: 'int64'},
                     lambda names: {'panic': None, 'kind': 'int', 'value': '(- (mod (+ in_0 in_1 9223372036854775808) 18446744073709551616) 9223372036854775808)'}))
    C.append(T('atomic_int64_cas', [A], 'v := NondetInt64(0)\no := NondetInt64(1)\nok := atomic.CompareAndSwapInt64(&v, o, 3)\nprintln("c", ok, atomic.LoadInt64(&v) == 3)',
               lambda inp: [('true', [('c', ['(= in_0 in_1)', '(or (= in_0 in_1) (= in_0 3))'])], 'normal')]))
    # ---- nosync vs sync in uncontended histories; panics where sync would block
    N = 'import "github.com/gopherjs/gopherjs/nosync"\n'
    C.append(T('nosync_mutex', [N], 'var m nosync.Mutex\nk := NondetRange(0, 0, 3)\nprintln("a")\nm.Lock()\nif k == 1 {\n\tm.Lock()\n}\nm.Unlock()\nif k == 2 {\n\tm.Unlock()\n}\nif k == 3 {\n\tm.Lock()\n\tm.Unlock()\n}\nprintln("b")',
               lambda inp: [('(or (= in_0 0) (= in_0 3))', [('a', []), ('b', [])], 'normal'), ('(= in_0 1)', [('a', [])], ('panic', 'locked')), ('(= in_0 2)', [('a', [])], ('panic', 'unlock'))]))
    C.append(T('nosync_rwmutex', [N], 'var m nosync.RWMutex\nk := NondetRange(0, 0, 4)\nprintln("a")\nm.RLock()\nm.RLock()\nif k == 1 {\n\tm.Lock()\n}\nm.RUnlock()\nm.RUnlock()\nif k == 2 {\n\tm.RUnlock()\n}\nm.Lock()\nif k == 3 {\n\tm.RLock()\n}\nm.Unlock()\nif k == 4 {\n\tm.Unlock()\n}\nprintln("b")',
               lambda inp: [('(= in_0 0)', [('a', []), ('b', [])], 'normal')] + [('(= in_0 %d)' % k, [('a', [])], ('panic', '')) for k in (1, 2, 3, 4)]))
    C.append(T('nosync_waitgroup', [N], 'var w nosync.WaitGroup\nn := NondetRange(0, 0, 2)\nd := NondetRange(1, 0, 3)\nprintln("a")\nw.Add(n)\nfor i := 0; i < d; i++ {\n\tw.Done()\n}\nw.Wait()\nprintln("b")',
               lambda inp: [('(= in_0 in_1)', [('a', []), ('b', [])], 'normal'), ('(> in_1 in_0)', [('a', [])], ('panic', 'negative')), ('(< in_1 in_0)', [('a', [])], ('panic', ''))]))
    C.append(T('nosync_once', [N], 'var o nosync.Once\nn := 0\nk := NondetRange(0, 1, 3)\nfor i := 0; i < k; i++ {\n\to.Do(func() { n++ })\n}\nvar p nosync.Once\nr := 0\nfunc() {\n\tdefer func() { recover() }()\n\tp.Do(func() { r++; panic(1) })\n}()\np.Do(func() { r += 10 })\nprintln("o", n, r)',
               lambda inp: [('true', [('o', ['1', '1'])], 'normal')]))
    C.append(T('nosync_map', [N], 'var m nosync.Map\nk1 := int(NondetInt8(0))\nk2 := int(NondetInt8(1))\nm.Store(k1, 1)\nv, loaded := m.LoadOrStore(k2, 2)\nn := 0\nm.Range(func(k, v interface{}) bool { n++; return true })\nm.Delete(k1)\n_, ok := m.Load(k2)\nprintln("m", v.(int), loaded, n, ok)',
               lambda inp: [('(= in_0 in_1)', [('m', ['1', 'true', '1', 'false'])], 'normal'), ('(not (= in_0 in_1))', [('m', ['2', 'false', '2', 'true'])], 'normal')]))
    C.append(T('nosync_pool', [N], 'p := nosync.Pool{New: func() interface{} { return 7 }}\na := int(NondetInt8(0))\nx := p.Get().(int)\np.Put(a)\ny := p.Get().(int)\nz := p.Get().(int)\nprintln("p", x, y, z)',
               lambda inp: [('true', [('p', ['7', 'in_0', '7'])], 'normal')]))
    # ---- unicode case mapping override (binary search over the real tables), for all runes in the Latin/Greek/Cyrillic blocks
    hi = 0x250 if tier == 'quick' else 0x530
    U = 'import "unicode"\n'
    C.append(T('unicode_roundtrip', [U], 'r := rune(NondetRange(0, 0, %d))\nup := unicode.ToUpper(r)\nlo := unicode.ToLower(r)\nprintln("u", unicode.ToLower(up) == unicode.ToLower(r) || unicode.ToUpper(unicode.ToLower(up)) == up, unicode.ToUpper(lo) == unicode.ToUpper(r) || unicode.ToLower(unicode.ToUpper(lo)) == lo, unicode.IsUpper(r) && unicode.IsLower(r))' % hi,
               lambda inp: [('true', [('u', ['true', 'true', 'false'])], 'normal')]))
    C.append(T('unicode_ascii', [U], 'r := rune(NondetRange(0, 0, 127))\nprintln("u", unicode.ToUpper(r), unicode.ToLower(r))',
               lambda inp: [('true', [('u', ['(ite (and (<= 97 in_0) (<= in_0 122)) (- in_0 32) in_0)', '(ite (and (<= 65 in_0) (<= in_0 90)) (+ in_0 32) in_0)'])], 'normal')]))
    # ---- math: functions whose result is exactly specified by IEEE-754 / the package documentation
    F = lambda n: '(_ FloatingPoint 11 53)'
    rti = lambda m: (lambda x: '(fp.roundToIntegral %s %s)' % (m, x))
    C.append(fp_case('math_Floor', 'math.Floor(x0)', rti('RTN')))
    C.append(fp_case('math_Ceil', 'math.Ceil(x0)', rti('RTP')))
    C.append(fp_case('math_Trunc', 'math.Trunc(x0)', rti('RTZ')))
    # Modf: integer and fractional part, both with the sign of the argument, summing to it; (Inf, NaN) for infinities
    ipart = lambda x: '(fp.roundToIntegral RTZ %s)' % x
    fpart = lambda x: '(let ((r (fp.sub RNE %s (fp.roundToIntegral RTZ %s)))) (ite (fp.isZero r) (ite (fp.isNegative %s) (fp.neg ((_ to_fp 11 53) RNE 0.0)) ((_ to_fp 11 53) RNE 0.0)) r))' % (x, x, x)
    C.append(fp_case('math_Modf_int', 'func() float64 { i, _ := math.Modf(x0); return i }()', ipart))
    C[-1].z3_timeout_ms = 150000          # x - (x - trunc(x)) = trunc(x): two bit-blasted subtractions, ~30-60 s one-shot
    C.append(fp_case('math_Modf_frac', 'func() float64 { _, f := math.Modf(x0); return f }()', fpart))
    C.append(fp_case('math_Sqrt', 'math.Sqrt(x0)', lambda x: '(fp.sqrt RNE %s)' % x))
    C.append(fp_case('math_Copysign', 'math.Copysign(x0, x1)', lambda x, y: '(ite (= (fp.isNegative %s) (fp.isNegative %s)) %s (fp.neg %s))' % (x, y, x, x), nargs=2))
    C.append(fp_case('math_Signbit', 'math.Signbit(x0)', lambda x: '(and (not (fp.isNaN %s)) (fp.isNegative %s))' % (x, x), kind='bool'))
    C.append(fp_case('math_IsNaN', 'math.IsNaN(x0)', lambda x: '(fp.isNaN %s)' % x, kind='bool'))
    C.append(fp_case('math_IsInf', 'math.IsInf(x0, 0)', lambda x: '(fp.isInfinite %s)' % x, kind='bool'))
    C.append(fp_case('math_IsInf_pos', 'math.IsInf(x0, 1)', lambda x: '(and (fp.isInfinite %s) (fp.isPositive %s))' % (x, x), kind='bool'))
    mx = lambda x, y: ('(ite (or (and (fp.isInfinite {x}) (fp.isPositive {x})) (and (fp.isInfinite {y}) (fp.isPositive {y}))) (_ +oo 11 53) (ite (or (fp.isNaN {x}) (fp.isNaN {y})) (_ NaN 11 53) '
                       '(ite (and (fp.isZero {x}) (fp.isZero {y})) (ite (fp.isNegative {x}) {y} {x}) (ite (fp.gt {x} {y}) {x} {y}))))').format(x=x, y=y)
    mn = lambda x, y: ('(ite (or (and (fp.isInfinite {x}) (fp.isNegative {x})) (and (fp.isInfinite {y}) (fp.isNegative {y}))) (_ -oo 11 53) (ite (or (fp.isNaN {x}) (fp.isNaN {y})) (_ NaN 11 53) '
                       '(ite (and (fp.isZero {x}) (fp.isZero {y})) (ite (fp.isNegative {x}) {x} {y}) (ite (fp.lt {x} {y}) {x} {y}))))').format(x=x, y=y)
    C.append(fp_case('math_Max', 'math.Max(x0, x1)', mx, nargs=2))
    C.append(fp_case('math_Min', 'math.Min(x0, x1)', mn, nargs=2))
    def p2(e):
        return '((_ to_fp 11 53) RNE %s)' % ('%d.0' % (2 ** e) if e >= 0 else '(/ 1.0 %d.0)' % (2 ** -e))
    fast = [-1023, -1022, -53, -1, 0, 1, 52, 1000, 1023]
    pick = lambda xs: 'e := 0\nswitch NondetRange(1, 0, %d) {\n' % (len(xs) - 1) + ''.join('case %d:\n\te = keep(%d)\n' % (i, e) for i, e in enumerate(xs)) + '}\n'
    KEEP = '//go:noinline\nfunc keep(x int) int { return x }\n'      # a call: keeps the engine from merging the switch into one symbolic exponent
    C.append(T('math_Ldexp_fast', ['import "math"\n', KEEP], 'f := NondetFloat64(0)\n' + pick(fast) + 'VerifOutF64("l", math.Ldexp(f, e))',
               lambda inp: [('(= in_1 %d)' % i, [('l', [('f64', '(fp.mul RNE in_0 %s)' % p2(e))])], 'normal') for i, e in enumerate(fast)]))
    # just outside the Math.pow fast path the override falls back to the upstream bit-manipulating ldexp, which the engine cannot follow (typed-array
    # bit aliasing): those paths are reported as inconclusive on the unchanged tree; a fast path that is wrongly widened is decided (2^1024 overflows)
    edge = [1024, -1024, 1025]
    scale = {1024: lambda x: '(fp.mul RNE (fp.mul RNE %s %s) %s)' % (x, p2(1023), p2(1)), 1025: lambda x: '(fp.mul RNE (fp.mul RNE %s %s) %s)' % (x, p2(1023), p2(2)),
             -1024: lambda x: '(fp.mul RNE %s %s)' % (x, '((_ to_fp 11 53) RNE (/ 1.0 %d.0))' % (2 ** 1024))}
    C.append(T('math_Ldexp_edge', ['import "math"\n', KEEP], 'f := NondetFloat64(0)\n' + pick(edge) + 'VerifOutF64("l", math.Ldexp(f, e))',
               lambda inp: [('(and (= in_1 %d) (fp.lt (fp.abs in_0) %s))' % (i, p2(0)), [('l', [('f64', scale[e]('in_0'))])], 'normal') for i, e in enumerate(edge) if e > 0] +
                           [('(not (and (or (= in_1 0) (= in_1 2)) (fp.lt (fp.abs in_0) %s)))' % p2(0), [('l', [None])], 'normal')]))
    return C


def main():
    tier = core.tier()
    cases = build_cases(tier)
    # unicode_pairs: the reference is "Latin Extended-A pairs": computed here from Python's own Unicode tables for the
    # simple one-to-one mappings (the override must agree with upstream, which implements the same UnicodeData mappings)
    for c in cases:
        if c.tag == 'unicode_pairs':
            def alts(inp):
                out = []
                for r in range(0x100, 0x180):
                    ch = chr(r)
                    up = ord(ch.upper()) if len(ch.upper()) == 1 else r
                    lo = ord(ch.lower()) if len(ch.lower()) == 1 else r
                    out.append(('(= in_0 %d)' % r, [('u', [str(up), str(lo)])], 'normal'))
                return out
            c.ref = lambda names, alts=alts: {'trace': lambda evs, end, inp: tv.alts_match(evs, end, alts(inp))}
    if tier == 'quick':
        # Knuth division / limb multiplication kernels of math/bits: explored in the thorough tier only (their solver queries do not close within the quick budget)
        cases = [c for c in cases if c.tag not in ('bits_Mul32', 'bits_Div32', 'bits_Rem32')]
    only = os.environ.get('VERIF_ONLY')
    if only:
        import re
        cases = [c for c in cases if re.search(only, c.tag)]
    return runner.run_property('C13', cases, tier=tier, chunk=1,
                               title='overridden standard-library functions (math/bits, sync/atomic, nosync, unicode case mapping, exactly-specified math functions) vs their documented contracts, for all arguments',
                               bounds={'arguments': 'all values (uint32 / int32 / int64 / every float64 incl. NaN, infinities, signed zeros, subnormals); bits.Div32/Rem32: hi<16, lo<256, y<64 in the quick tier, full width in the thorough tier',
                                       'unicode': 'runes 0..0x%x (round-trip laws), exact tables for ASCII and Latin Extended-A' % (0x250 if tier == 'quick' else 0x530),
                                       'nosync': 'operation histories chosen by a symbolic selector (<= 6 operations)',
                                       'outside': 'exp/log/trigonometric/pow functions (ECMAScript leaves their accuracy implementation-defined: no exact oracle); Frexp/Mod/Float64bits (typed-array bit aliasing and fmod by a symbolic divisor are not modelled by the engine)'},
                               cfg={'maxDepth': 800, 'maxPaths': 5000, 'timeoutMs': 20000, 'maxWallMs': 600000}, z3_timeout_ms=60000)


if __name__ == '__main__':
    sys.exit(main())
