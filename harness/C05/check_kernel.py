"""C05 kernel: dce.Selector.Include / AliveDecls on symbolic declaration graphs (gosym engine)."""
import os, sys
sys.path.insert(0, os.path.dirname(os.path.dirname(os.path.dirname(os.path.abspath(__file__)))))
from vlib import core, gokernel


def kernel():
    return gokernel.Kernel('C05', 'compiler/internal/dce', ['selector_harness.go'], init=['github.com/gopherjs/gopherjs/compiler/internal/dce', 'sort', 'strings', 'unicode/utf8', 'internal/bytealg', 'errors'])


def run(tier):
    return gokernel.run_kernels('C05', [kernel()], tier, write=False,
                                title='dce.Selector: the alive set is the least fixpoint of the documented rule, for every declaration graph within the bound',
                                bounds={'graphs': '3 declarations (one alive root), filters over 2 object names and 1 method name, arbitrary dependency subsets, arbitrary alive / go:linkname flags (quick tier: on one of the two non-root declarations), both orders of Include',
                                        'outside': 'how dependencies are recorded while translating (names built from go/types objects)'},
                                harness_re='^VHarness_' if tier == 'quick' else '^VHarness')
