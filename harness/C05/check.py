"""C05 — dead-code elimination never changes behaviour.

Every program of a corpus that reaches code only through the indirections the property lists (interfaces, method
values / expressions, embedding, generics, nested types, side-effecting initialisers, go:linkname, other packages, goroutine
and defer entry points, function tables) is linked TWICE by the real compiler: normally, and by a variant of the compiler in
which every declaration is kept alive (compiler/compiler.go of /repo's working tree with one statement added after
`dceSelection := sel.AliveDecls()`, injected with `go build -overlay`; /repo itself is not touched).  Both linked files
are executed symbolically and every path of both must satisfy the same specification-derived reference, for all inputs:
a declaration that was wrongly removed shows up as a TypeError / ReferenceError / missing method on the path that needs
it, a difference between the two outputs as a trace that fits only one of them."""
import os, sys
sys.path.insert(0, os.path.dirname(os.path.dirname(os.path.dirname(os.path.abspath(__file__)))))
from vlib import core, tv, runner

V = 'a := int(NondetInt16(0))\nb := int(NondetInt16(1))\n_, _ = a, b\n'
ok = lambda evs: [('true', evs, 'normal')]


def sel(k, rows):
    return [('(= in_%d %d)' % (k, i), ev, 'normal') for i, ev in enumerate(rows)]


SUB = '''package sub

import _ "unsafe"

type Shape interface {
	Area() int
	perimeter() int
}

type Sq struct{ S int }

func (s Sq) Area() int      { return s.S * s.S }
func (s Sq) perimeter() int { return 4 * s.S }

type Rect struct{ W, H int }

func (r *Rect) Area() int      { return r.W * r.H }
func (r *Rect) perimeter() int { return 2 * (r.W + r.H) }

func Make(k, a, b int) Shape {
	if k == 0 {
		return Sq{a}
	}
	return &Rect{a, b}
}

func Perimeter(s Shape) int { return s.perimeter() }

var Log []int

var hidden = record(7)

func record(v int) int { Log = append(Log, v); return v }

func init() { record(hidden + 1) }

func secret(x int) int { return x*2 + 1 }

func (s Sq) secretMethod(x int) int { return s.S + x }

type Gen[T any] struct{ V T }

func (g Gen[T]) Get() T { return g.V }

func Map[T, U any](xs []T, f func(T) U) []U {
	out := make([]U, 0, len(xs))
	for _, x := range xs {
		out = append(out, f(x))
	}
	return out
}

//go:linkname mainDouble verifprog.double
func mainDouble(int) int

func CallBack(x int) int { return mainDouble(x) + 1 }
'''


def build_cases(tier):
    C = []
    T = tv.trace_case
    IF = 'type shape interface {\n\tarea() int\n\tname() string\n}\ntype sq struct{ s int }\nfunc (q sq) area() int { return q.s * q.s }\nfunc (q sq) name() string { return "sq" }\ntype rc struct{ w, h int }\nfunc (r *rc) area() int { return r.w * r.h }\nfunc (r *rc) name() string { return "rect" }\n//go:noinline\nfunc mk(k, a, b int) shape {\n\tif k == 0 {\n\t\treturn sq{a}\n\t}\n\treturn &rc{a, b}\n}\n'
    C.append(T('methods_only_via_interface', IF, V + 'k := NondetRange(2, 0, 1)\ns := mk(k, a, b)\nprintln("r", s.area(), len(s.name()))',
               lambda inp: sel(2, [[('r', ['(* in_0 in_0)', '2'])], [('r', ['(* in_0 in_1)', '4'])]])))
    C.append(T('iface_method_expression', IF, V + 'k := NondetRange(2, 0, 1)\nf := shape.area\ng := shape.name\nprintln("r", f(mk(k, a, b)), len(g(mk(k, a, b))))',
               lambda inp: sel(2, [[('r', ['(* in_0 in_0)', '2'])], [('r', ['(* in_0 in_1)', '4'])]])))
    C.append(T('method_values_and_expressions', IF, V + 'q := sq{a}\nr := &rc{a, b}\nf1 := q.area\nf2 := r.area\nf3 := sq.area\nf4 := (*rc).area\nf5 := (*sq).name\nprintln("r", f1(), f2(), f3(q), f4(r), len(f5(&q)))',
               lambda inp: ok([('r', ['(* in_0 in_0)', '(* in_0 in_1)', '(* in_0 in_0)', '(* in_0 in_1)', '2'])])))
    EMB = 'type base struct{ id int }\nfunc (b base) ident() int { return b.id }\nfunc (b *base) bump() { b.id++ }\ntype mid struct{ *base }\ntype top struct {\n\tmid\n\tn int\n}\ntype identer interface{ ident() int }\ntype bumper interface {\n\tidenter\n\tbump()\n}\n'
    C.append(T('promoted_methods_via_interface', EMB, V + 't := top{mid{&base{a}}, 1}\nvar i identer = t\nvar bm bumper = &t\nbm.bump()\nvar e interface{} = t\n_, isB := e.(bumper)\nprintln("r", i.ident(), bm.ident(), isB)',
               lambda inp: ok([('r', ['(+ in_0 1)', '(+ in_0 1)', 'true'])])))
    C.append(T('embedded_interface_in_struct', IF + 'type wrap struct {\n\tshape\n\ttag int\n}\n', V + 'w := wrap{mk(1, a, b), 3}\nvar s shape = w\nprintln("r", s.area(), w.area(), len(wrap.name(w)))',
               lambda inp: ok([('r', ['(* in_0 in_1)', '(* in_0 in_1)', '4'])])))
    GEN = 'type num interface{ ~int | ~int8 }\ntype stack[T any] struct{ xs []T }\nfunc (s *stack[T]) push(x T) { s.xs = append(s.xs, x) }\nfunc (s *stack[T]) pop() T {\n\tx := s.xs[len(s.xs)-1]\n\ts.xs = s.xs[:len(s.xs)-1]\n\treturn x\n}\ntype popper[T any] interface{ pop() T }\n//go:noinline\nfunc sum[T num](xs ...T) T {\n\tvar t T\n\tfor _, x := range xs {\n\t\tt += x\n\t}\n\treturn t\n}\n//go:noinline\nfunc viaOther[T num](x T) T { return sum(x, x) + helper[T]() }\nfunc helper[T num]() T { var z T; return z + 1 }\n'
    C.append(T('generic_instances', GEN, V + 's := &stack[int]{}\ns.push(a)\ns.push(b)\nvar p popper[int] = s\nt := &stack[string]{}\nt.push("xy")\nprintln("r", p.pop(), s.pop(), len(t.pop()), viaOther(a), viaOther(int8(b)))',
               lambda inp: ok([('r', ['in_1', 'in_0', '2', '(+ (* 2 in_0) 1)', '(- (mod (+ (* 2 in_1) 1 128) 256) 128)'])])))
    C.append(T('generic_nested_local_type', 'func boxed[T any](v T) interface{} {\n\ttype box struct{ v T }\n\treturn box{v}\n}\n//go:noinline\nfunc show[T any](v T) int {\n\ttype pair struct{ a, b T }\n\tp := pair{v, v}\n\tf := func(q pair) T { return q.b }\n\t_ = f(p)\n\treturn 2\n}\n',
               V + 'x := boxed(a)\ny := boxed("s")\nz := boxed(a)\nprintln("r", x == z, x == y, show(a), show("t"))',
               lambda inp: ok([('r', ['true', 'false', '2', '2'])])))
    C.append(T('side_effect_initialisers', 'var log []int\n//go:noinline\nfunc note(v int) int { log = append(log, v); return v }\nvar _ = note(1)\nvar unusedVar = note(2)\nvar usedVar = note(3)\nvar a1, b1 = note(4), note(5)\nfunc init() { note(6) }\ntype unusedType struct{ f int }\nvar unusedStruct = unusedType{note(7)}\n',
               'println("r", len(log), log[0], log[1], log[2], log[3], log[4], log[5], log[6], usedVar)',
               lambda inp: ok([('r', ['7', '1', '2', '3', '4', '5', '7', '6', '3'])])))
    C.append(T('function_tables_and_go_defer', '//go:noinline\nfunc add(x, y int) int { return x + y }\n//go:noinline\nfunc mul(x, y int) int { return x * y }\nfunc onlyGo(c chan int, v int) { c <- v * 3 }\nfunc onlyDefer(p *int) { *p += 100 }\nvar table = map[string]func(int, int) int{"add": add, "mul": mul}\nvar fnSlice = []func(int) int{func(x int) int { return x + 1 }, neg}\nfunc neg(x int) int { return -x }\n',
               V + 'c := make(chan int, 1)\ngo onlyGo(c, a)\nr := 0\nfunc() {\n\tdefer onlyDefer(&r)\n\tr = table["add"](a, b) + table["mul"](a, 2)\n}()\nprintln("r", r, <-c, fnSlice[1](a), fnSlice[0](b))',
               lambda inp: ok([('r', ['(+ in_0 in_1 (* 2 in_0) 100)', '(* 3 in_0)', '(- in_0)', '(+ in_1 1)'])])))
    C.append(T('types_only_in_assertions', 'type evA struct{ v int }\ntype evB struct{ s string }\ntype evC [2]int\ntype lister interface{ list() int }\nfunc (e evC) list() int { return e[0] + e[1] }\n//go:noinline\nfunc classify(v interface{}) int {\n\tswitch x := v.(type) {\n\tcase evA:\n\t\treturn x.v\n\tcase *evB:\n\t\treturn len(x.s)\n\tcase lister:\n\t\treturn x.list()\n\t}\n\treturn -1\n}\n',
               V + 'vals := []interface{}{evA{a}, &evB{"abc"}, evC{a, b}, 5}\ni := NondetRange(2, 0, 3)\nprintln("r", classify(vals[i]))',
               lambda inp: sel(2, [[('r', ['in_0'])], [('r', ['3'])], [('r', ['(+ in_0 in_1)'])], [('r', ['(- 1)'])]])))
    # ---- across packages: interface dispatch, unexported methods, side-effecting initialiser of a package used only for one function,
    #      generic instances created from the other package, linkname in both directions
    XP = 'import "verifprog/sub"\nimport "unsafe"\nvar _ unsafe.Pointer\n\n//go:linkname subSecret verifprog/sub.secret\nfunc subSecret(int) int\n\n//go:linkname sqSecret verifprog/sub.Sq.secretMethod\nfunc sqSecret(sub.Sq, int) int\n\nfunc double(x int) int { return 2 * x }\n'
    C.append(T('cross_package', XP, V + 'k := NondetRange(2, 0, 1)\ns := sub.Make(k, a, b)\ng := sub.Gen[int]{a}\nstrs := sub.Map([]int{a, b}, func(x int) string {\n\tif x > 0 {\n\t\treturn "pos"\n\t}\n\treturn "np"\n})\n'
               'println("r", s.Area(), sub.Perimeter(s), len(sub.Log), sub.Log[0], sub.Log[1], g.Get(), len(strs), len(strs[0]))\nprintln("l", subSecret(a), sqSecret(sub.Sq{a}, b), sub.CallBack(a))',
               lambda inp: [('(and (= in_2 0) (> in_0 0))', [('r', ['(* in_0 in_0)', '(* 4 in_0)', '2', '7', '8', 'in_0', '2', '3']), ('l', ['(+ (* 2 in_0) 1)', '(+ in_0 in_1)', '(+ (* 2 in_0) 1)'])], 'normal'),
                            ('(and (= in_2 0) (<= in_0 0))', [('r', ['(* in_0 in_0)', '(* 4 in_0)', '2', '7', '8', 'in_0', '2', '2']), ('l', ['(+ (* 2 in_0) 1)', '(+ in_0 in_1)', '(+ (* 2 in_0) 1)'])], 'normal'),
                            ('(and (= in_2 1) (> in_0 0))', [('r', ['(* in_0 in_1)', '(* 2 (+ in_0 in_1))', '2', '7', '8', 'in_0', '2', '3']), ('l', ['(+ (* 2 in_0) 1)', '(+ in_0 in_1)', '(+ (* 2 in_0) 1)'])], 'normal'),
                            ('(and (= in_2 1) (<= in_0 0))', [('r', ['(* in_0 in_1)', '(* 2 (+ in_0 in_1))', '2', '7', '8', 'in_0', '2', '2']), ('l', ['(+ (* 2 in_0) 1)', '(+ in_0 in_1)', '(+ (* 2 in_0) 1)'])], 'normal')],
               files={'sub/sub.go': SUB}))
    C.append(T('anonymous_struct_methods', 'type inner struct{ v int }\nfunc (i inner) get() int { return i.v }\nfunc (i *inner) set(v int) { i.v = v }\ntype getset interface {\n\tget() int\n\tset(int)\n}\n',
               V + 'x := &struct {\n\tinner\n\tk int\n}{inner{a}, 1}\nvar gs getset = x\ngs.set(b)\ny := struct{ *inner }{&inner{a}}\nvar g2 getset = y\nprintln("r", gs.get(), g2.get())',
               lambda inp: ok([('r', ['in_1', 'in_0'])])))
    C.append(T('error_and_stringer_like', 'type myErr struct{ code int }\nfunc (e *myErr) Error() string { return "myErr" }\n//go:noinline\nfunc fail(c int) error {\n\tif c > 0 {\n\t\treturn &myErr{c}\n\t}\n\treturn nil\n}\n',
               V + 'err := fail(a)\nif err != nil {\n\tprintln("e", err.Error(), err.(*myErr).code)\n} else {\n\tprintln("ok")\n}',
               lambda inp: [('(> in_0 0)', [('e', ['myErr', 'in_0'])], 'normal'), ('(<= in_0 0)', [('ok', [])], 'normal')]))
    C.append(T('panic_value_methods', 'type boom struct{ v int }\nfunc (b boom) Error() string { return "boom!" }\n', V + 'defer func() {\n\tr := recover()\n\tif e, isErr := r.(error); isErr {\n\t\tprintln("rec", e.Error(), r.(boom).v)\n\t}\n}()\nif a != b {\n\tpanic(boom{a})\n}\nprintln("none")',
               lambda inp: [('(not (= in_0 in_1))', [('rec', ['boom!', 'in_0'])], 'normal'), ('(= in_0 in_1)', [('none', [])], 'normal')]))
    # unexported methods of a generic type whose signatures mention another generic type written in terms of the receiver's type parameter
    C.append(T('generic_method_signatures', 'type node[T any] struct {\n\tv    T\n\tnext *node[T]\n}\nfunc (n *node[T]) prepend(v T) *node[T] { return &node[T]{v, n} }\nfunc (n *node[T]) length() int {\n\tc := 0\n\tfor ; n != nil; n = n.next {\n\t\tc++\n\t}\n\treturn c\n}\ntype pairOf[A, B any] struct {\n\ta A\n\tb B\n}\ntype stk[T any] struct{ head *node[T] }\nfunc (s *stk[T]) push(v T) { s.head = s.head.prepend(v) }\nfunc (s *stk[T]) top() pairOf[T, int] { return pairOf[T, int]{s.head.v, s.head.length()} }\ntype topper[T any] interface{ top() pairOf[T, int] }\n',
               V + 's := &stk[int]{}\ns.push(a)\ns.push(b)\nvar t topper[int] = s\np := t.top()\nq := &stk[string]{}\nq.push("x")\nprintln("r", p.a, p.b, q.top().b, len(q.top().a))',
               lambda inp: ok([('r', ['in_1', '2', '1', '1'])])))
    return C


def main():
    tier = core.tier()
    cases = build_cases(tier)
    only = os.environ.get('VERIF_ONLY')
    if only:
        import re
        cases = [c for c in cases if re.search(only, c.tag)]
    sys.path.insert(0, os.path.dirname(os.path.abspath(__file__)))
    import check_kernel
    konly = bool(only and only.startswith('VHarness'))
    krc, kev = check_kernel.run(tier) if (konly or not only) else (0, None)
    if konly:
        return krc

    def post(ev, rep):
        if kev:
            ev['coverage']['kernel_checks'] = kev['coverage']
            ev['violations'] += kev['violations']
    return krc | runner.run_property('C05', cases, tier=tier, chunk=1, keep_all_too=True, post=post,
                               title='every corpus program linked with dead-code elimination and with every declaration kept alive; both outputs must satisfy the same reference on every path',
                               bounds={'inputs': 'all int16 pairs and selectors', 'corpus': '%d programs reaching code through interfaces, method values/expressions, embedding, generics, local types, initialisers with side effects, go:linkname (both directions), other packages, go/defer entry points, function tables' % len(cases),
                                       'outside': 'programs outside the corpus; reflection (reflect does not build in this sandbox)'},
                               assumptions=['the keep-all variant of the compiler differs from /repo only by the statement that adds every declaration to dceSelection (built with go build -overlay from the current compiler/compiler.go)'],
                               cfg={'maxDepth': 600, 'maxPaths': 20000, 'timeoutMs': 20000, 'maxWallMs': 600000})


if __name__ == '__main__':
    sys.exit(main())
