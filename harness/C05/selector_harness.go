//go:build verif

package dce

type vDecl struct {
	info Info
	id   int
	link bool
}

func (d *vDecl) Dce() *Info { return &d.info }

var vObjs = [...]string{"", "A", "B"}
var vMeths = [...]string{"", "m"}
var vDepNames = [...]string{"A", "B", "m"}

var vN = [3][6]string{{"d0_alive", "d0_of", "d0_mf", "d0_link", "d0_depA", "d0_depB"}, {"d1_alive", "d1_of", "d1_mf", "d1_link", "d1_depA", "d1_depB"}, {"d2_alive", "d2_of", "d2_mf", "d2_link", "d2_depA", "d2_depB"}}
var vNm = [3]string{"d0_depm", "d1_depm", "d2_depm"}

func vMakeDecl(i int, root, flags bool) *vDecl {
	d := &vDecl{id: i}
	if root {
		d.info.alive = true // the root: an alive declaration (main, init, exported for linking ...)
	} else {
		if flags {
			d.info.alive = VNondetBool(vN[i][0])
			d.link = VNondetBool(vN[i][3])
		}
		d.info.objectFilter = vObjs[VNondetInt(vN[i][1], 0, len(vObjs)-1)]
		d.info.methodFilter = vMeths[VNondetInt(vN[i][2], 0, len(vMeths)-1)]
	}
	if VNondetBool(vN[i][4]) {
		d.info.addDepName("A")
	}
	if VNondetBool(vN[i][5]) {
		d.info.addDepName("B")
	}
	if VNondetBool(vNm[i]) {
		d.info.addDepName("m")
	}
	return d
}

// Every declaration graph of 3 declarations over two object names and one method name: the selection is exactly the least set that
// contains the alive / unnamed / linked declarations and is closed under "all of a declaration's (non-empty) filters occur among the
// dependencies of selected declarations".
func VHarness_SelectorLeastFixpoint()         { vSelector(false) }
func VHarnessThorough_SelectorLeastFixpoint() { vSelector(true) }

func vSelector(allFlags bool) {
	decls := []*vDecl{vMakeDecl(0, true, false), vMakeDecl(1, false, true), vMakeDecl(2, false, allFlags)}
	order := VNondetInt("include_order", 0, 1) // the order of Include calls must not matter
	sel := &Selector[*vDecl]{}
	if order == 0 {
		for _, d := range decls {
			sel.Include(d, d.link)
		}
	} else {
		for i := len(decls) - 1; i >= 0; i-- {
			sel.Include(decls[i], decls[i].link)
		}
	}
	got := sel.AliveDecls()

	// reference: least fixpoint
	want := map[int]bool{}
	for _, d := range decls {
		if d.info.alive || (d.info.objectFilter == "" && d.info.methodFilter == "") || d.link {
			want[d.id] = true
		}
	}
	for changed := true; changed; {
		changed = false
		have := map[string]bool{}
		for _, d := range decls {
			if want[d.id] {
				for dep := range d.info.deps {
					have[dep] = true
				}
			}
		}
		for _, d := range decls {
			if want[d.id] {
				continue
			}
			okO := d.info.objectFilter == "" || have[d.info.objectFilter]
			okM := d.info.methodFilter == "" || have[d.info.methodFilter]
			if okO && okM {
				want[d.id] = true
				changed = true
			}
		}
	}
	for _, d := range decls {
		_, in := got[d]
		VAssert(in == want[d.id], "the selected set is the least fixpoint (nothing needed is dropped, nothing unreachable is kept)")
	}
	VAssert(len(got) <= len(decls), "no declaration is invented")
	VReach("selector-checked")
}
