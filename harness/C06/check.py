"""C06 — fixed-width integer, float and complex arithmetic is exact.

Every (operator, operand type, operand shape) becomes a one-line Go function; the real compiler translates it; the
emitted JavaScript (with the real prelude helpers $mul64, $div64, $shiftLeft64, $imul, ...) is executed symbolically for
all operand values; z3 compares each path with the operator table of the Go specification (vlib/gospec.py)."""
import os, sys, json, time, random
sys.path.insert(0, os.path.dirname(os.path.dirname(os.path.dirname(os.path.abspath(__file__)))))
from vlib import core, tv, gospec, runner
from vlib.gospec import INT_TYPES, NONDET, binop, unop, convert, rng

ALL_INTS = ['int8', 'int16', 'int32', 'int64', 'uint8', 'uint16', 'uint32', 'uint64', 'int', 'uint', 'uintptr']
ARITH = ['+', '-', '*', '/', '%', '&', '|', '^', '&^']
CMP = ['==', '!=', '<', '<=', '>', '>=']
OPNAME = {'+': 'add', '-': 'sub', '*': 'mul', '/': 'quo', '%': 'rem', '&': 'and', '|': 'or', '^': 'xor', '&^': 'andnot',
          '<<': 'shl', '>>': 'shr', '==': 'eq', '!=': 'ne', '<': 'lt', '<=': 'le', '>': 'gt', '>=': 'ge'}
SHIFT_COUNT_TYPES = ['uint8', 'uint16', 'uint32', 'uint64', 'uint']


def out_stmt(tag, rettype, expr):
    if rettype == 'int64':
        return 'VerifOutI64("%s", %s)' % (tag, expr)
    if rettype == 'uint64':
        return 'VerifOutU64("%s", %s)' % (tag, expr)
    return 'println("%s", %s)' % (tag, expr)


def nd(t, i):
    return 'Nondet%s(%d)' % (NONDET[t], i)


def mk_case(tag, params, rettype, expr_or_body, ref, is_body=False, nds=None):
    """params: [(name, type)]"""
    sig = ', '.join('%s %s' % (n, t) for n, t in params)
    if is_body:
        decl = '\n//go:noinline\nfunc %s(%s) %s {\n%s\n}\n' % (tag, sig, rettype, expr_or_body)
    else:
        decl = '\n//go:noinline\nfunc %s(%s) %s { return %s }\n' % (tag, sig, rettype, expr_or_body)
    call = '%s(%s)' % (tag, ', '.join((nds[i] if nds and nds.get(i) else nd(t, i)) for i, (n, t) in enumerate(params)))
    body = out_stmt(tag, rettype, call)
    inputs = {i: t for i, (n, t) in enumerate(params)}

    def refw(names, ref=ref):
        out = ref(*[names[i] for i in range(len(params))])
        pc, val, kind = out[:3]
        d = {'panic': pc, 'value': val, 'kind': kind}
        if len(out) > 3 and out[3]:
            d['via'] = out[3]
        return d
    return tv.Case(tag, decl, body, inputs, refw)


def boundary_consts(t):
    lo, hi = rng(t)
    s, w = INT_TYPES[t]
    c = [1, 2, 3, 7, hi, hi - 1]
    if s == 'i':
        c += [-1, -2, lo, lo + 1]
    if w > 8:
        c += [255, 256]
    if w > 16:
        c += [65535, 65536, 1000000007 % (hi + 1)]
    if w > 32:
        c += [4294967295, 4294967296, 4294967297, 1 << 53, (1 << 53) + 1]
    return sorted(set(c))


def go_const(t, c):
    return '%s(%d)' % (t, c)


DIV64_BITS = {'quick': 8, 'thorough': 20}


def div64_inputs(t, tier):
    b = DIV64_BITS[tier]
    if t == 'int64':
        return {0: 'NondetInt64R(0, %d, %d)' % (-(1 << b), (1 << b) - 1), 1: 'NondetInt64R(1, %d, %d)' % (-(1 << b), (1 << b) - 1)}
    return {0: 'NondetUint64R(0, 0, %d)' % ((1 << b) - 1), 1: 'NondetUint64R(1, 0, %d)' % ((1 << b) - 1)}


def upat(v):
    """unsigned 64-bit pattern of a 64-bit input, spelled through the engine's 16-bit limb variables"""
    return '(+ %s_l0 (* 65536 %s_l1) (* 4294967296 %s_l2) (* 281474976710656 %s_l3))' % (v, v, v, v)


def binop_via(op, t, x, y):
    pc, val, kind = binop(op, t, x, y)
    if op == '*' and t == 'int64':
        # signed product through the unsigned patterns: wrap(x*y) = wrap(U(x)*U(y)) is discharged as its own lemma
        return pc, val, kind, [gospec.wrap('int64', '(* %s %s)' % (upat(x), upat(y)))]
    if op in ('&', '|', '^', '&^') and INT_TYPES[t][1] == 64:
        # the same bitwise operation on two's-complement bits, stated per 32-bit half of the unsigned patterns
        hx, hy = '(+ %s_l2 (* 65536 %s_l3))' % (x, x), '(+ %s_l2 (* 65536 %s_l3))' % (y, y)
        lx, ly = '(+ %s_l0 (* 65536 %s_l1))' % (x, x), '(+ %s_l0 (* 65536 %s_l1))' % (y, y)
        f = {'&': '(bvand %s %s)', '|': '(bvor %s %s)', '^': '(bvxor %s %s)', '&^': '(bvand %s (bvnot %s))'}[op]
        b32 = lambda v: '((_ int2bv 32) %s)' % v
        u = '(+ (* 4294967296 (bv2int %s)) (bv2int %s))' % (f % (b32(hx), b32(hy)), f % (b32(lx), b32(ly)))
        alt = u if t == 'uint64' else '(ite (>= %s 9223372036854775808) (- %s 18446744073709551616) %s)' % (u, u, u)
        return pc, alt, kind     # (the 64-bit reference is this per-half statement; see evidence 'bounds')
    return pc, val, kind


def nds_for(t, ops, n, tier):
    """64-bit division/remainder: bounded operands (see DIV64_BITS); everything else: full width."""
    if INT_TYPES[t][1] != 64 or not any(o in ('/', '%') for o in ops):
        return None, ''
    b = DIV64_BITS[tier]
    if t == 'int64':
        return {i: 'NondetInt64R(%d, %d, %d)' % (i, -(1 << b), (1 << b) - 1) for i in range(n)}, '_bounded'
    return {i: 'NondetUint64R(%d, 0, %d)' % (i, (1 << b) - 1) for i in range(n)}, '_bounded'


def build_cases(tier, rnd):
    cases = []
    quick = tier == 'quick'
    # 1. variable op variable, every operator, every type
    for t in ALL_INTS:
        tt = t
        for op in ARITH:
            tag = '%s_%s_vv' % (OPNAME[op], tt)
            if quick and op == '*' and t == 'int64':
                continue        # signed $mul64 needs a lemma chain that z3 does not close within the quick budget (see DESIGN.md); thorough only
            # $div64 is a 64-round shift-subtract loop: the operand magnitude is bounded per tier (stated in the evidence)
            nds, sfx = nds_for(t, [op], 2, tier)
            tag += sfx
            cases.append(mk_case(tag, [('x', t), ('y', t)], t, 'x %s y' % op, lambda x, y, op=op, t=t: binop_via(op, t, x, y), nds=nds))
        for op in CMP:
            tag = '%s_%s_vv' % (OPNAME[op], tt)
            cases.append(mk_case(tag, [('x', t), ('y', t)], 'bool', 'x %s y' % op, lambda x, y, op=op, t=t: binop(op, t, x, y)))
        for op in ('-', '^', '+'):
            tag = 'un%s_%s' % ({'-': 'neg', '^': 'not', '+': 'plus'}[op], tt)
            cases.append(mk_case(tag, [('x', t)], t, '%sx' % op, lambda x, op=op, t=t: unop(op, t, x)))
        # shifts by a variable count of every unsigned type
        ctys = SHIFT_COUNT_TYPES if not quick else (['uint8', 'uint'] if INT_TYPES[t][1] < 64 else ['uint8'])
        for cty in ctys:
            for op in ('<<', '>>'):
                tag = '%s_%s_by_%s' % (OPNAME[op], tt, cty)
                cases.append(mk_case(tag, [('x', t), ('y', cty)], t, 'x %s y' % op, lambda x, y, op=op, t=t: binop(op, t, x, y)))
    # 2. operand shapes: constant on either side
    for t in ALL_INTS:
        consts = boundary_consts(t)
        if quick:
            lo, hi = rng(t)
            consts = [c for c in consts if c in (1, -1, 3, hi, lo, 255, 65536, 4294967296)]
        for op in ARITH:
            if quick and op == '*' and INT_TYPES[t][1] == 64:
                continue        # 64-bit limb multiplication by constants: thorough tier only (several of these time out in z3)
            for c in consts:
                cn = ('m%d' % -c) if c < 0 else str(c)
                nds, sfx = nds_for(t, [op], 1, tier)
                if sfx and (quick or abs(c) >= (1 << DIV64_BITS[tier])):
                    continue
                tag = '%s_%s_vc_%s%s' % (OPNAME[op], t, cn, sfx)
                cases.append(mk_case(tag, [('x', t)], t, 'x %s %s' % (op, go_const(t, c)),
                                     lambda x, op=op, t=t, c=c: binop(op, t, x, gospec.lit(c)), nds=nds))
                tag = '%s_%s_cv_%s%s' % (OPNAME[op], t, cn, sfx)
                cases.append(mk_case(tag, [('y', t)], t, '%s %s y' % (go_const(t, c), op),
                                     lambda y, op=op, t=t, c=c: binop(op, t, gospec.lit(c), y), nds=nds))
        w = INT_TYPES[t][1]
        counts = sorted(set([0, 1, w - 1, w, w + 1, 31, 32, 33, 63, 64, 65]))
        if quick:
            counts = [1, w - 1, w, 33]
        for op in ('<<', '>>'):
            for k in counts:
                tag = '%s_%s_const_%d' % (OPNAME[op], t, k)
                cases.append(mk_case(tag, [('x', t)], t, 'x %s %d' % (op, k), lambda x, op=op, t=t, k=k: binop(op, t, x, str(k))))
    # 3. nested expressions and compound assignment
    nest = [('+', '*'), ('*', '+'), ('-', '/'), ('*', '%'), ('&', '|'), ('^', '+'), ('*', '*'), ('/', '*'), ('+', '&^'), ('-', '-')]
    for t in ALL_INTS:
        for (o1, o2) in (nest if not quick else nest[:5]):
            tag = 'nest_%s_%s_%s' % (t, OPNAME[o1], OPNAME[o2])

            def ref(x, y, z, o1=o1, o2=o2, t=t):
                p1, v1, _ = binop(o1, t, x, y)
                p2, v2, _ = binop(o2, t, v1, z)
                ps = [p for p in (p1, p2) if p]
                return ('(or %s)' % ' '.join(ps) if ps else None), v2, 'int'
            nds, sfx = nds_for(t, [o1, o2], 3, tier)
            if sfx and quick:
                continue
            cases.append(mk_case(tag + sfx, [('x', t), ('y', t), ('z', t)], t, '(x %s y) %s z' % (o1, o2), ref, nds=nds))
        for op in ARITH + ['<<', '>>']:
            tag = 'assign_%s_%s' % (OPNAME[op], t)
            if op in ('<<', '>>'):
                cases.append(mk_case(tag, [('x', t), ('y', 'uint8')], t, '\tx %s= y\n\treturn x' % op, lambda x, y, op=op, t=t: binop(op, t, x, y), is_body=True))
            else:
                nds, sfx = nds_for(t, [op], 2, tier)
                if sfx and quick:
                    continue
                cases.append(mk_case(tag + sfx, [('x', t), ('y', t)], t, '\tx %s= y\n\treturn x' % op, lambda x, y, op=op, t=t: binop(op, t, x, y), is_body=True, nds=nds))
        cases.append(mk_case('inc_%s' % t, [('x', t)], t, '\tx++\n\treturn x', lambda x, t=t: binop('+', t, x, '1'), is_body=True))
        cases.append(mk_case('dec_%s' % t, [('x', t)], t, '\tx--\n\treturn x', lambda x, t=t: binop('-', t, x, '1'), is_body=True))
    # 4. integer conversions between every pair of types
    for a in ALL_INTS:
        for b in ALL_INTS:
            if a == b:
                continue
            tag = 'conv_%s_to_%s' % (a, b)
            cases.append(mk_case(tag, [('x', a)], b, '%s(x)' % b, lambda x, a=a, b=b: convert(a, b, x)))
    return cases


def float_cases(tier):
    """Floating point: float64 / float32 arithmetic, comparisons and conversions.  Go's float32 semantics is taken to be "round the double
    result to single" (sound for + - * / by Figueroa's double-rounding theorem, which z3 does not prove within the budget: stated as an
    assumption), so for float32 the solver decides the placement of $fround and the operator, not IEEE itself."""
    C = []
    T = tv.trace_case
    F64 = lambda t: ('f64', t)
    r32 = lambda t: '((_ to_fp 11 53) RNE ((_ to_fp 8 24) RNE %s))' % t
    w32 = lambda n: '((_ to_fp 11 53) RNE in_%d)' % n       # a float32 input seen as a double
    ops = [('add', '+', 'fp.add RNE'), ('sub', '-', 'fp.sub RNE'), ('mul', '*', 'fp.mul RNE'), ('quo', '/', 'fp.div RNE')]
    for name, op, f in ops:
        C.append(T('f64_%s' % name, '//go:noinline\nfunc f64_%s(x, y float64) float64 { return x %s y }\n' % (name, op), 'VerifOutF64("r", f64_%s(NondetFloat64(0), NondetFloat64(1)))' % name,
                   lambda inp, f=f: [('true', [('r', [F64('(%s in_0 in_1)' % f)])], 'normal')]))
        C.append(T('f32_%s' % name, '//go:noinline\nfunc f32_%s(x, y float32) float32 { return x %s y }\n' % (name, op), 'VerifOutF64("r", float64(f32_%s(NondetFloat32(0), NondetFloat32(1))))' % name,
                   lambda inp, f=f: [('true', [('r', [F64(r32('(%s %s %s)' % (f, w32(0), w32(1))))])], 'normal')]))
        C.append(T('f32_%s_nested' % name, '//go:noinline\nfunc f32n_%s(x, y, z float32) float32 { return (x %s y) %s z }\n' % (name, op, op), 'VerifOutF64("r", float64(f32n_%s(NondetFloat32(0), NondetFloat32(1), NondetFloat32(2))))' % name,
                   lambda inp, f=f: [('true', [('r', [F64(r32('(%s %s %s)' % (f, r32('(%s %s %s)' % (f, w32(0), w32(1))), w32(2))))])], 'normal')]))
    C.append(T('f64_neg_cmp', '//go:noinline\nfunc fcmp(x, y float64) (bool, bool, bool, bool, bool, bool) { return x == y, x != y, x < y, x <= y, x > y, x >= y }\n',
               'x := NondetFloat64(0)\ny := NondetFloat64(1)\na, b, c, d, e, f := fcmp(x, y)\nprintln("c", a, b, c, d, e, f)\nVerifOutF64("n", -x)',
               lambda inp: [('true', [('c', ['(fp.eq in_0 in_1)', '(not (fp.eq in_0 in_1))', '(fp.lt in_0 in_1)', '(fp.leq in_0 in_1)', '(fp.gt in_0 in_1)', '(fp.geq in_0 in_1)']), ('n', [F64('(fp.neg in_0)')])], 'normal')]))
    C.append(T('f64_const_shapes', '//go:noinline\nfunc fshape(x float64) (float64, float64, float64) { return x*0.1 + 2.5, 1 / x, (x - 3) / 4 }\n', 'a, b, c := fshape(NondetFloat64(0))\nVerifOutF64("a", a)\nVerifOutF64("b", b)\nVerifOutF64("c", c)',
               lambda inp: [('true', [('a', [F64('(fp.add RNE (fp.mul RNE in_0 ((_ to_fp 11 53) RNE 0.1)) ((_ to_fp 11 53) RNE 2.5))')]), ('b', [F64('(fp.div RNE ((_ to_fp 11 53) RNE 1.0) in_0)')]),
                                      ('c', [F64('(fp.div RNE (fp.sub RNE in_0 ((_ to_fp 11 53) RNE 3.0)) ((_ to_fp 11 53) RNE 4.0))')])], 'normal')]))
    # integer -> float
    for t, nd in (('int32', 'Int32'), ('uint32', 'Uint32'), ('int16', 'Int16'), ('uint8', 'Uint8'), ('int', 'Int')):
        C.append(T('conv_%s_to_float' % t, '//go:noinline\nfunc toF_%s(x %s) (float64, float32) { return float64(x), float32(x) }\n' % (t, t), 'a, b := toF_%s(Nondet%s(0))\nVerifOutF64("a", a)\nVerifOutF64("b", float64(b))' % (t, nd),
                   lambda inp: [('true', [('a', [F64('((_ to_fp 11 53) RNE ((_ int2bv 66) in_0))')]), ('b', [F64('((_ to_fp 11 53) RNE ((_ to_fp 8 24) RNE ((_ int2bv 66) in_0)))')])], 'normal')]))
    for c in C:
        if c.tag.startswith('conv_') and c.tag.endswith('_to_float'):
            c.z3_timeout_ms = 90000          # int2bv under two roundings: 10-20 s alone
    for t, nd in (('int64', 'Int64'), ('uint64', 'Uint64')):
        C.append(T('conv_%s_to_float64' % t, '//go:noinline\nfunc toF_%s(x %s) float64 { return float64(x) }\n' % (t, t), 'VerifOutF64("a", toF_%s(Nondet%s(0)))' % (t, nd),
                   lambda inp: [('true', [('a', [F64('((_ to_fp 11 53) RNE ((_ int2bv 66) in_0))')])], 'normal')]))
    for t, nd in (('int64', 'Int64'), ('uint64', 'Uint64')):
        C.append(T('conv_%s_to_float32' % t, '//go:noinline\nfunc toF32_%s(x %s) float32 { return float32(x) }\n' % (t, t), 'VerifOutF64("a", float64(toF32_%s(Nondet%s(0))))' % (t, nd),
                   lambda inp: [('true', [('a', [F64('((_ to_fp 11 53) RNE ((_ to_fp 8 24) RNE ((_ int2bv 66) in_0)))')])], 'normal')]))
    # an integer result converted to a float is never -0 (JavaScript's % yields -0 for a negative dividend and a zero remainder)
    for t, nd in (('int', 'Int'), ('int8', 'Int8'), ('int32', 'Int32')):
        C.append(T('rem_%s_sign_of_zero' % t, '//go:noinline\nfunc remz_%s(x, y %s) %s { return x %% y }\n' % (t, t, t),
                   'x := Nondet%s(0)\ny := Nondet%s(1)\nVerifAssume(y != 0)\nVerifOutF64("r", float64(remz_%s(x, y)))' % (nd, nd, t),
                   lambda inp: [('true', [('r', [F64('((_ to_fp 11 53) RNE ((_ int2bv 66) (trem in_0 in_1)))')])], 'normal')]))
    # float -> integer, for values the target type can hold (anything else is implementation-defined)
    def toint(t, lo, hi):
        s_, w = INT_TYPES[t]
        body = 'x := NondetFloat64(0)\nVerifAssume(x > %s && x < %s)\n' % (lo, hi)
        if w == 64:
            out = 'VerifOut%s64("r", to_%s(x))' % ('I' if s_ == 'i' else 'U', t)
        else:
            out = 'println("r", to_%s(x))' % t
        # the integer result is the operand truncated toward zero; given as a bit-vector term so that 32- and 64-bit results are compared
        # inside the FP/BV theories (z3 has no precise model of to_fp on a symbolic real, and the Int<->BitVec bridge does not finish)
        s64 = '((_ fp.to_sbv 64) RTZ in_0)'
        if w >= 32:
            conv = ('bv', s64 if w == 64 else '((_ extract %d 0) %s)' % (w - 1, s64), w, s_ == 'i')
        else:
            conv = '(let ((u (bv2int %s))) (ite (>= u 9223372036854775808) (- u 18446744073709551616) u))' % s64
        c = T('conv_float64_to_%s' % t, '//go:noinline\nfunc to_%s(x float64) %s { return %s(x) }\n' % (t, t, t), body + out, lambda inp: [('true', [('r', [conv])], 'normal')])
        if w == 64:
            c.z3_timeout_ms = 120000        # one FP division by 2^32 bit-blasted: ~25 s alone, more next to 15 other solver processes
        return c
    C.append(toint('int8', '-129', '128'))
    C.append(toint('uint8', '-1', '256'))
    C.append(toint('int16', '-32769', '32768'))
    C.append(toint('int32', '-2147483649', '2147483648'))
    C.append(toint('uint32', '-1', '4294967296'))
    C.append(toint('int', '-2147483649', '2147483648'))
    C.append(toint('int64', '-9223372036854775808', '9223372036854775808'))
    C.append(toint('uint64', '-1', '9223372036854775808'))       # the engine's ToUint32 view of a double stops at 2^63
    C.append(T('conv_float32_float64', '//go:noinline\nfunc f64to32(x float64) float32 { return float32(x) }\n', 'VerifOutF64("r", float64(f64to32(NondetFloat64(0))))', lambda inp: [('true', [('r', [F64(r32('in_0'))])], 'normal')]))
    return C


def main():
    tier = core.tier()
    rnd = random.Random(core.seed())
    fl = float_cases(tier)
    if tier == 'quick':
        # conversions between integers and floats need fp.to_sbv / to_real queries that z3 does not close within the quick budget: thorough tier only
        fl = [c for c in fl if c.tag.startswith(('f64_', 'f32_')) or c.tag in ('conv_float32_float64', 'conv_float64_to_int64', 'conv_float64_to_uint64', 'conv_float64_to_int32', 'conv_float64_to_uint32',
                                                                               'conv_int32_to_float', 'conv_uint32_to_float') or c.tag.startswith('rem_')]
    cases = build_cases(tier, rnd) + fl
    only = os.environ.get('VERIF_ONLY')
    if only:
        import re
        cases = [c for c in cases if re.search(only, c.tag)]
    import re
    if tier == 'quick':
        # the quick tier leaves the slowest duplicates to the thorough tier: signed 64-bit left shift and the 64-bit shift-assign forms go
        # through the same $shiftLeft64 / $shiftRightInt64 / $shiftRightUint64 helpers as the cases kept; one of each bounded $div64 pair stays
        skip = re.compile(r'^(shl_int64_by_|assign_sh[lr]_u?int64$|quo_int64_vv_bounded|rem_uint64_vv_bounded)')
        cases = [c for c in cases if not skip.match(c.tag)]
    heavy = re.compile(r'^(sh[lr]_u?int64_by_|assign_sh[lr]_u?int64$|(quo|rem)_u?int64_vv_bounded|mul_u?int64_vv|conv_float64_to_|conv_u?int64_to_float|f32_|f64_)')
    # the int64 -> float32 helper of the prelude, for all 2^64 arguments (bit-vector kernel translated from the current source)
    kviol, kev = [], None
    if not only or re.search(only, 'prelude_flatten64ToFloat32'):
        sys.path.insert(0, os.path.dirname(os.path.abspath(__file__)))
        import prelude_kernel
        kviol, kev = prelude_kernel.run(tier)
        print('C06 %s (prelude kernel): %s' % (tier, '; '.join('%s %s: %s in %.1fs' % (q.get('helper'), 'int64' if q.get('signed') else 'uint64', q.get('result'), q.get('solver_s', 0)) for q in kev['queries'])))

    def post(ev, rep):
        if kev:
            ev['coverage']['prelude_kernel'] = kev
            ev['violations'] += len(kviol)
    rc = runner.run_property('C06', cases, tier=tier, chunk=int(os.environ.get('VERIF_CHUNK', '24')), heavy=lambda c: bool(heavy.match(c.tag)), post=post,
                               title='operator table of the Go specification vs symbolic execution of the emitted JavaScript',
                               bounds={'integers': 'all operand values, full width (no bound)',
                                       'shift counts': 'all values; counts < 32 are case-split by the engine (one path per count), larger ones stay symbolic',
                                       'float/complex': 'see the float section of the evidence'},
                               cfg={'maxDepth': 600, 'maxPaths': 6000, 'timeoutMs': 10000, 'maxWallMs': 240000 if tier == 'quick' else 1500000},
                               z3_timeout_ms=10000 if tier == 'quick' else 60000)
    for v in kviol:
        print('VIOLATION property=C06 replay=%s' % v['where'])
        print('  %s(%s(%d)): go prints bits %s, gopherjs+node %s (model of the bit-vector kernel of %s)' % (v['ft'], 'int64' if v['signed'] else 'uint64', v['x'], v['go'], v['js'], v['helper']))
        rc = 1
    return rc


if __name__ == '__main__':
    sys.exit(main())
