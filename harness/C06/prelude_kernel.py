"""C06 kernel: the prelude helpers that convert a 64-bit integer to float32 and to float64, for ALL 2^64 arguments.

The general engine holds JavaScript integers as SMT Ints; a conversion int64 -> float32 then needs the Int<->BitVec bridge under a
floating-point rounding, which z3 does not finish.  This kernel translates the helper's current source text
(compiler/prelude/numeric.js, `$flatten64ToFloat32`) with engine/jsx/fn2smt.js into bit-vector / floating-point terms and asks
the solver whether its result can differ from the single correctly rounded conversion the specification asks for
((_ to_fp 8 24) RNE of the 64-bit integer).  A model is replayed on native go vs gopherjs + node before it is reported."""
import json
import os
import sys
import time

sys.path.insert(0, os.path.join(os.path.dirname(os.path.abspath(__file__)), '..', '..'))
from vlib import core  # noqa: E402

HELPER = '$flatten64ToFloat32'
# (helper, (_ to_fp ...) of the specification, Go conversion used by the replay)
HELPERS = [('$flatten64ToFloat32', 'to32', 'float32'), ('$flatten64', 'to64', 'float64')]


def _replay(x, signed, where, ft='float32'):
    t = 'int64' if signed else 'uint64'
    bits = 'math.Float32bits(conv(arg))' if ft == 'float32' else 'uint32(math.Float64bits(conv(arg))>>32), uint32(math.Float64bits(conv(arg)))'
    src = ('package main\n\nimport "math"\n\n//go:noinline\nfunc conv(x %s) %s { return %s(x) }\n\nvar arg %s = %d\n\n'
           'func main() { println(%s) }\n' % (t, ft, ft, t, x, bits))
    core.write_pkg(where, {'main.go': src})
    go_rc, go_out, go_err = core.go_run(where)
    ok, js = core.compile_js(where)
    if not ok:
        return {'go': go_err.strip() or go_out, 'js': 'build failed: ' + js[-300:], 'differs': True}
    js_rc, js_out, js_err = core.node_run(js)
    return {'go': (go_err or go_out).strip(), 'js': (js_out or js_err).strip(), 'differs': (go_err or go_out).strip() != (js_out or js_err).strip()}


def run(tier):
    t0 = time.time()
    src = os.path.join(core.REPO, 'compiler', 'prelude', 'numeric.js')
    ev = {'what': 'the prelude helpers $flatten64ToFloat32 and $flatten64 translated from their current source into BitVec/Float64 terms: result = float32 / float64 nearest to the 64-bit integer (one rounding, ties to even), for all 2^64 arguments, signed and unsigned',
          'functions_encoded': [h[0] + ' (compiler/prelude/numeric.js)' for h in HELPERS], 'bounds': 'none on the argument; the helper is loop-free', 'queries': [], 'solver': core.Z3}
    violations = []
    try:
        for HELPER, kind, ft in HELPERS:
          for signed in (True, False):
              p = core.run(['node', '--expose-internals', os.path.join(core.JSX, 'fn2smt.js'), src, HELPER, 'signed' if signed else 'unsigned'], check=False)
              try:
                  tr = json.loads(p.stdout.strip().split('\n')[-1])
              except Exception:  # noqa
                  ev['queries'].append({'helper': HELPER, 'signed': signed, 'result': 'translator failed', 'detail': (p.stdout + p.stderr)[-300:]})
                  continue
              if tr.get('absent'):
                  ev['queries'].append({'helper': HELPER, 'signed': signed, 'result': 'helper absent in this tree: nothing to decide here (the conversion cases of the corpus still apply)'})
                  continue
              if tr.get('unsupported'):
                  ev['queries'].append({'helper': HELPER, 'signed': signed, 'result': 'inconclusive: source uses a construct outside the translator: ' + tr['unsupported']})
                  continue
              ev['source'] = tr['source']
              conv = ('(_ to_fp %s) RNE' if signed else '(_ to_fp_unsigned %s) RNE') % (('8 24',) if kind == 'to32' else ('11 53',))
              spec = ('((_ to_fp 11 53) RNE (%s (concat high low)))' if kind == 'to32' else '(%s (concat high low))') % conv
              # one-shot solver runs: z3's incremental (push/pop) mode takes the lazy floating-point theory instead of bit-blasting and is ~20x slower here
              pre = tr['decls'] + ['(define-fun impl () (_ FloatingPoint 11 53) %s)' % tr['result'], '(define-fun spec () (_ FloatingPoint 11 53) %s)' % spec]

              def oneshot(asserts, tag, want_model=False):
                  f = os.path.join(core.scratch(), 'c06_prelude_%s_%s_%s.smt2' % (kind, 's' if signed else 'u', tag))
                  with open(f, 'w') as fh:
                      fh.write('\n'.join(pre + ['(assert %s)' % x for x in asserts] + ['(check-sat)'] + (['(get-value (high low))'] if want_model else [])) + '\n')
                  pr = core.run([core.Z3, '-T:400', f], check=False, timeout=460)
                  out = pr.stdout.strip()
                  first = out.split('\n')[0].strip() if out else 'unknown'
                  if first not in ('sat', 'unsat') or ('(error' in out and first != 'unsat'):
                      first = 'unknown' if first not in ('sat',) else first
                  return first, out
              # vacuity: every branch of the helper is reachable in both directions
              wit = []
              for i, c in enumerate(tr['branch_conditions']):
                  wit.append([oneshot([c], 'w%da' % i)[0], oneshot(['(not %s)' % c], 'w%db' % i)[0]])
              q0 = time.time()
              r, val = oneshot(['(not (= impl spec))'], 'main', want_model=True)
              q = {'helper': HELPER, 'signed': signed, 'query': 'exists high, low: helper(high, low) != %s(concat(high, low))' % ft, 'result': r, 'solver_s': round(time.time() - q0, 2), 'branch_witnesses': wit}
              if r == 'sat':
                  import re
                  m = dict(re.findall(r'\((high|low) #x([0-9a-f]{8})\)', val))
                  x = (int(m['high'], 16) << 32) | int(m['low'], 16)
                  if signed and x >= 1 << 63:
                      x -= 1 << 64
                  where = os.path.join(core.VERIF, 'evidence', 'replay', 'C06', '%s_%s' % (HELPER.strip('$'), 'int64' if signed else 'uint64'))
                  rp = _replay(x, signed, where, ft)
                  q['model'] = x
                  q['replay'] = rp
                  if rp['differs']:
                      violations.append({'where': where, 'x': x, 'signed': signed, 'helper': HELPER, 'ft': ft, 'go': rp['go'], 'js': rp['js']})
                  else:
                      q['result'] = 'spurious: the model does not reproduce (encoding suspect)'
              ev['queries'].append(q)
    finally:
        pass
    ev['wall_s'] = round(time.time() - t0, 1)
    ev['complete'] = all(q.get('result') in ('unsat',) or 'absent' in str(q.get('result')) for q in ev['queries']) and len(ev['queries']) == 2 * len(HELPERS)
    return violations, ev
