"""C10 — packages are linked and initialised in Go order; linknames resolve.

(b) Multi-package / multi-file templates whose variable initialisers and init functions print trace lines and call the yield
    intrinsic: every dynamic yield is a symbolic boolean (the real $restore / $init resumption code runs), so for EVERY subset of
    suspending initialisers the order of initialisation must be the one Go prescribes - a suspended initialiser is never
    overtaken.  Scalar inputs feed the initialisers' values.
(c) go:linkname templates: function, value-method and pointer-method targets, with the import graph pointing either way.
    The three unsupported uses must make the real build fail (plain observation on the real toolchain, recorded).
Kernels (ImportDependencies order on symbolic graphs, readLinknameFromComment on all directive strings) are decided by the
gosym engine in harness/C10/kernel (when present)."""
import os, sys
sys.path.insert(0, os.path.dirname(os.path.dirname(os.path.dirname(os.path.abspath(__file__)))))
from vlib import core, tv, runner

ok = lambda evs: [('true', evs, 'normal')]

VY = '''package vy

import "runtime"

//go:noinline
func VerifYield() { runtime.Gosched() }
'''

PC = '''package c

import "verifprog/vy"

var C1 = initC1()

var C2 = C1 + 1

func initC1() int { vy.VerifYield(); println("c.var", 1); vy.VerifYield(); return 1 }

func init() { vy.VerifYield(); println("c.init", C1, C2); vy.VerifYield() }

func init() { println("c.init2") }
'''
PA = '''package a

import (
	"verifprog/c"
	"verifprog/vy"
)

var A1 = c.C1 + f()

func f() int { vy.VerifYield(); println("a.var", c.C2); return 10 }

func init() { println("a.init", A1); vy.VerifYield() }
'''
PB = '''package b

import (
	"verifprog/a"
	"verifprog/c"
	"verifprog/vy"
)

var B1 = a.A1*2 + c.C1

func init() { vy.VerifYield(); println("b.init", B1) }
'''

A_FIRST = '''package main

var va = fb() + 1

func init() { println("init.a", va) }
'''
Z_LAST = '''package main

var vz = note("vz", 7)

func fb() int { return vz * 2 }

var vlast = note("vlast", va)

func init() { println("init.z1"); VerifYield() }

func init() { println("init.z2") }

func note(t string, v int) int { VerifYield(); println(t, v); return v }
'''

SUBL = '''package sub

import "unsafe"

var _ unsafe.Pointer

var Base = 100

type T struct{ N int }

func (t T) val(x int) int { return t.N + x }
func (t *T) ptr(x int)    { t.N += x }

func secret(x int) int { return x*2 + Base }

//go:linkname otherHidden verifprog/other.hidden
func otherHidden(int) int

func CallOther(x int) int { return otherHidden(x) + 1 }
'''
OTHER = '''package other

import "verifprog/sub"

func hidden(x int) int { return x + sub.Base }

func Touch() int { return sub.Base }
'''


def build_cases(tier):
    C = []
    T = tv.trace_case
    # NOTE on file order: the specification leaves the order in which the files of a package are presented to the compiler open; the
    # property asks for ONE fixed order that depends only on the file names.  GopherJS documents and implements descending name order
    # (compiler/sources.Sources.Sort); the references below are written for that order (the reference toolchain uses ascending order, so
    # a native replay of these two templates differs by design and is not the oracle for them).
    # ---- package order with suspending initialisers (all subsets of yields)
    C.append(T('package_chain_order', 'import "verifprog/b"\nimport "verifprog/a"\nvar M = b.B1 + 1\nfunc init() { println("main.init", M, a.A1) }\n', 'println("main", M)',
               lambda inp: ok([('c.var', ['1']), ('c.init', ['1', '2']), ('c.init2', []), ('a.var', ['2']), ('a.init', ['11']), ('b.init', ['23']), ('main.init', ['24', '11']), ('main', ['24'])]),
               files={'vy/vy.go': VY, 'c/c.go': PC, 'a/a.go': PA, 'b/b.go': PB}))
    # a package without suspending initialisers of its own between main and a package whose init suspends (main does not import the latter)
    LEAF = 'package leaf\n\nimport "verifprog/vy"\n\nvar L = 0\n\nfunc init() {\n\tprintln("leaf.begin")\n\tvy.VerifYield()\n\tL = 7\n\tvy.VerifYield()\n\tprintln("leaf.end", L)\n}\n'
    MID = 'package mid\n\nimport "verifprog/leaf"\n\nvar M = leaf.L + 1\n\nfunc init() { println("mid.init", M) }\n\nfunc Get() int { return M + leaf.L }\n'
    C.append(T('suspending_init_behind_plain_package', 'import "verifprog/mid"\nvar top = mid.M * 2\nfunc init() { println("main.init", top) }\n', 'println("main", mid.Get(), top)',
               lambda inp: ok([('leaf.begin', []), ('leaf.end', ['7']), ('mid.init', ['8']), ('main.init', ['16']), ('main', ['15', '16'])]),
               files={'vy/vy.go': VY, 'leaf/leaf.go': LEAF, 'mid/mid.go': MID}))
    # ---- order inside one package: dependency analysis across files, declaration order, init functions by file name
    Y = 'import "runtime"\n\n//go:noinline\nfunc VerifYield() { runtime.Gosched() }\n'
    C.append(T('file_and_var_order', [Y, 'var vm = note("vm", 5+int(NondetInt8(0)))\nfunc init() { println("init.m", vm) }\n'], 'println("main", va, vm, vz, vlast)',
               lambda inp: ok([('vz', ['7']), ('vm', ['(+ 5 in_0)']), ('vlast', ['15']), ('init.z1', []), ('init.z2', []), ('init.m', ['(+ 5 in_0)']), ('init.a', ['15']), ('main', ['15', '(+ 5 in_0)', '7', '15'])]),
               files={'a_first.go': A_FIRST, 'z_last.go': Z_LAST}))
    # the same file contents under swapped names: the order must follow the names and nothing else
    C.append(T('file_order_follows_names', [Y, 'var vm = note("vm", 5+int(NondetInt8(0)))\nfunc init() { println("init.m", vm) }\n'], 'println("main", va, vm, vz, vlast)',
               lambda inp: ok([('vm', ['(+ 5 in_0)']), ('vz', ['7']), ('vlast', ['15']), ('init.a', ['15']), ('init.m', ['(+ 5 in_0)']), ('init.z1', []), ('init.z2', []), ('main', ['15', '(+ 5 in_0)', '7', '15'])]),
               files={'z_first.go': A_FIRST, 'a_last.go': Z_LAST}))
    C.append(T('hidden_dependencies', [Y, 'type T struct{}\nfunc (T) m() int { return hidden + 1 }\nvar first = T{}.m()\nvar hidden = note("hidden", 41)\nvar viaClosure = func() int { return late * 2 }()\nvar late = note("late", int(NondetInt8(0)))\nvar p, q = pair()\nfunc pair() (int, int) { return note("pair", late), 2 }\nvar viaMethodValue = T.m\nvar arr = [2]int{note("arr0", 1), note("arr1", 2)}\nvar indirect = viaMethodValue(T{}) + arr[1]\nfunc note(t string, v int) int { VerifYield(); println(t, v); return v }\n'],
               'println("main", first, viaClosure, p, q, indirect)',
               lambda inp: ok([('hidden', ['41']), ('late', ['in_0']), ('pair', ['in_0']), ('arr0', ['1']), ('arr1', ['2']), ('main', ['42', '(* 2 in_0)', 'in_0', '2', '44'])])))
    C.append(T('init_runs_once_and_before_main', [Y, 'var count int\nfunc init() { count++; VerifYield(); count++ }\nfunc init() { VerifYield(); count *= 10 }\nvar started = mark()\nfunc mark() bool { return count == 0 }\n'],
               'VerifYield()\nprintln("main", count, started)', lambda inp: ok([('main', ['20', 'true'])])))
    C.append(T('goroutine_started_in_init', [Y, 'var ch = make(chan int, 1)\nvar got int\nfunc init() {\n\tgo func() { ch <- 5 }()\n\tVerifYield()\n\tgot = <-ch\n\tprintln("init", got)\n}\n'], 'println("main", got)',
               lambda inp: ok([('init', ['5']), ('main', ['5'])])))
    # ---- linknames: function / value method / pointer method, import graph in both directions
    LK = 'import "verifprog/sub"\nimport "verifprog/other"\nimport "unsafe"\nvar _ unsafe.Pointer\n\n//go:linkname subSecret verifprog/sub.secret\nfunc subSecret(int) int\n\n//go:linkname valM verifprog/sub.T.val\nfunc valM(sub.T, int) int\n\n//go:linkname ptrM verifprog/sub.(*T).ptr\nfunc ptrM(*sub.T, int)\n'
    C.append(T('linkname_targets', LK, 'a := int(NondetInt16(0))\nb := int(NondetInt16(1))\nt := sub.T{a}\nr1 := valM(t, b)\nptrM(&t, b)\nptrM(&t, 1)\nprintln("l", subSecret(a), r1, t.N, sub.CallOther(b), other.Touch())',
               lambda inp: ok([('l', ['(+ (* 2 in_0) 100)', '(+ in_0 in_1)', '(+ in_0 in_1 1)', '(+ in_1 101)', '100'])]),
               files={'sub/sub.go': SUBL, 'sub/empty.s': '', 'other/other.go': OTHER, 'empty.s': ''}))
    return C


REJECTED = {
    'linkname_on_variable': ('package main\n\nimport _ "unsafe"\n\n//go:linkname v verifprog/sub.Base\nvar v int\n\nfunc main() { println(v) }\n', 'only supported for functions'),
    'linkname_without_unsafe': ('package main\n\n//go:linkname f verifprog/sub.secret\nfunc f(int) int\n\nfunc main() { println(f(1)) }\n', 'import "unsafe"'),
    'linkname_pushing_local_body': ('package main\n\nimport _ "unsafe"\n\n//go:linkname f verifprog/sub.missing\nfunc f(x int) int { return x }\n\nfunc main() { println(f(1)) }\n', 'can not insert local implementation'),
}


def rejected_observations():
    out = []
    work = os.path.join(core.scratch(), 'C10rej')
    for name, (src, want) in REJECTED.items():
        d = os.path.join(work, name)
        core.write_pkg(d, {'main.go': src, 'sub/sub.go': 'package sub\n\nvar Base = 1\n\nfunc secret(x int) int { return x }\n', 'empty.s': ''})
        okb, msg = core.compile_js(d)
        out.append({'program': name, 'build_failed': not okb, 'message_matches': (not okb) and want in msg, 'message': (msg if not okb else '')[-300:]})
    return out


def main():
    tier = core.tier()
    cases = build_cases(tier)
    only = os.environ.get('VERIF_ONLY')
    if only:
        import re
        cases = [c for c in cases if re.search(only, c.tag)]
    rej = rejected_observations()
    bad = [r for r in rej if not r['build_failed']]
    sys.path.insert(0, os.path.dirname(os.path.abspath(__file__)))
    import check_kernel
    konly = bool(only and only.startswith('VHarness'))
    krc, kev = check_kernel.run(tier) if (konly or not only) else (0, None)
    if konly:
        return krc

    def post(ev, rep):
        if kev:
            ev['coverage']['kernel_checks'] = kev['coverage']
            ev['violations'] += kev['violations']
    rc = krc | runner.run_property('C10', cases, tier=tier, chunk=1, post=post,
                             title='initialisation order of packages, files, variables and init functions under every subset of suspending initialisers; go:linkname targets in both import directions',
                             bounds={'yield points': 'each dynamic VerifYield() in an initialiser or init function is an independent symbolic boolean (<= 14 per program); every subset explored',
                                     'programs': '%d templates (4 packages in a chain/diamond; 3 files in one package; hidden dependencies through methods, closures, method expressions, multi-value initialisers)' % len(cases),
                                     'outside': 'types.Info.InitOrder as an algorithm (go/types); programs outside the corpus'},
                             extra_evidence={'rejected_linkname_forms': rej},
                             cfg={'maxDepth': 600, 'maxPaths': 40000, 'timeoutMs': 20000, 'maxWallMs': 600000, 'maxYields': 14})
    for r in bad:
        # an unsupported use of the directive that is silently accepted: a violation of the build-time rejection clause; replay = the program text
        d = os.path.join(core.VERIF, 'evidence', 'replay', 'C10', r['program'])
        os.makedirs(d, exist_ok=True)
        with open(os.path.join(d, 'main.go'), 'w') as f:
            f.write(REJECTED[r['program']][0])
        print('VIOLATION property=C10 replay=%s' % d)
        print('  unsupported go:linkname form %s was accepted by the build' % r['program'])
        rc = 1
    return rc


if __name__ == '__main__':
    sys.exit(main())
