//go:build verif

package compiler

import "errors"

var vPkgNames = [...]string{"runtime", "p1", "p2", "p3", "main"}
var vEdgeNames = [5][5]string{{}, {"e10"}, {"e20", "e21"}, {"e30", "e31", "e32"}, {"e40", "e41", "e42", "e43"}}
var vRevNames = [5]string{"", "rev1", "rev2", "rev3", "rev4"}

// Every import DAG over runtime + 3 packages + main (an edge i -> j only for j < i, each present or not, import lists in either order):
// every reachable package occurs exactly once, after everything it imports, runtime first, the main archive last; unreachable
// packages do not occur.
func VHarness_ImportDependencies() {
	n := len(vPkgNames)
	archives := make([]*Archive, n)
	imports := make([][]int, n)
	for i := 0; i < n; i++ {
		archives[i] = &Archive{ImportPath: vPkgNames[i]}
		var imps []int
		for j := 0; j < i; j++ {
			if VNondetBool(vEdgeNames[i][j]) {
				imps = append(imps, j)
			}
		}
		if i > 0 && VNondetBool(vRevNames[i]) { // the order of an import list is arbitrary
			for a, b := 0, len(imps)-1; a < b; a, b = a+1, b-1 {
				imps[a], imps[b] = imps[b], imps[a]
			}
		}
		imports[i] = imps
		for _, j := range imps {
			archives[i].Imports = append(archives[i].Imports, vPkgNames[j])
		}
	}
	calls := 0
	importPkg := func(path string) (*Archive, error) {
		calls++
		for i, nm := range vPkgNames {
			if nm == path {
				return archives[i], nil
			}
		}
		return nil, errors.New("unknown package")
	}
	deps, err := ImportDependencies(archives[n-1], importPkg)
	VAssert(err == nil, "no error when every import resolves")
	// reference: reachability from main (+ runtime always)
	reach := make([]bool, n)
	reach[0], reach[n-1] = true, true
	for changed := true; changed; {
		changed = false
		for i := 0; i < n; i++ {
			if reach[i] {
				for _, j := range imports[i] {
					if !reach[j] {
						reach[j] = true
						changed = true
					}
				}
			}
		}
	}
	pos := make([]int, n)
	for i := range pos {
		pos[i] = -1
	}
	for k, d := range deps {
		for i := range archives {
			if archives[i] == d {
				VAssert(pos[i] == -1, "each package is listed once")
				pos[i] = k
			}
		}
	}
	for i := 0; i < n; i++ {
		VAssert((pos[i] >= 0) == reach[i], "exactly the packages reachable from main (and runtime) are listed")
		if pos[i] >= 0 {
			for _, j := range imports[i] {
				VAssert(pos[j] >= 0 && pos[j] < pos[i], "a package comes after every package it imports")
			}
		}
	}
	VAssert(len(deps) > 0 && deps[0] == archives[0], "runtime is first")
	VAssert(deps[len(deps)-1] == archives[n-1], "the main archive is last")
	VReach("deps-checked")
}
