"""C10 kernels: linkname.readLinknameFromComment on all directive strings, compiler.ImportDependencies on all small import DAGs (gosym engine)."""
import os, sys
sys.path.insert(0, os.path.dirname(os.path.dirname(os.path.dirname(os.path.abspath(__file__)))))
from vlib import core, gokernel

COMMON = ['strings', 'unicode/utf8', 'unicode', 'internal/bytealg', 'errors', 'fmt']


def kernels():
    return [gokernel.Kernel('C10', 'compiler/linkname', ['linkname_harness.go'], init=['github.com/gopherjs/gopherjs/compiler/linkname'] + COMMON),
            gokernel.Kernel('C10', 'compiler', ['deps_harness.go'], init=['github.com/gopherjs/gopherjs/compiler'] + COMMON)]


def run(tier):
    return gokernel.run_kernels('C10', kernels(), tier, write=False,
                                title='readLinknameFromComment vs the documented directive form on all strings; ImportDependencies order on all small import DAGs',
                                bounds={'directives': '"//go:linkname " followed by every string of <= %d characters over {a . / space}' % (6 if tier == 'quick' else 9),
                                        'import graphs': 'runtime + 3 packages + main, every subset of the 10 possible edges (acyclic by construction), import lists in both orders',
                                        'outside': 'types.Info.InitOrder (go/types)'},
                                harness_re='^VHarness_' if tier == 'quick' else '^VHarness')
