//go:build verif

package linkname

import "go/ast"

var vLkAlphabet = [...]byte{'a', '.', '/', ' '}
var vLkNames = [9]string{"t0", "t1", "t2", "t3", "t4", "t5", "t6", "t7", "t8"}

// reference: the documented form "//go:linkname localname importpath.name" - importpath may contain dots before its last
// slash; name is everything after the first dot that follows the last slash (so methods "T.m" / "(*T).m" stay in the name).
func vRefLinkname(pkgPath, text string) (ok bool, isErr bool, refName, implPkg, implName string) {
	const prefix = "//go:linkname "
	if len(text) < len(prefix) || text[:len(prefix)] != prefix {
		return false, false, "", "", ""
	}
	var fields []string
	cur := ""
	for i := 0; i < len(text); i++ {
		if text[i] == ' ' {
			if cur != "" {
				fields = append(fields, cur)
				cur = ""
			}
			continue
		}
		cur += string(text[i])
	}
	if cur != "" {
		fields = append(fields, cur)
	}
	switch len(fields) {
	case 2:
		return false, false, "", "", ""
	case 3:
	default:
		return false, true, "", "", ""
	}
	local, ext := fields[1], fields[2]
	if local == ext {
		return false, false, "", "", ""
	}
	lastSlash := -1
	for i := 0; i < len(ext); i++ {
		if ext[i] == '/' {
			lastSlash = i
		}
	}
	dot := -1
	for i := lastSlash + 1; i < len(ext); i++ {
		if ext[i] == '.' {
			dot = i
			break
		}
	}
	if dot == -1 {
		return true, false, local, "", ext
	}
	return true, false, local, ext[:dot], ext[dot+1:]
}

func vLinkname(max int) {
	n := VNondetInt("len", 0, max)
	tail := make([]byte, n)
	for i := range tail {
		tail[i] = vLkAlphabet[VNondetInt(vLkNames[i], 0, len(vLkAlphabet)-1)]
	}
	text := "//go:linkname " + string(tail)
	link, err := readLinknameFromComment("my/pkg", &ast.Comment{Text: text})
	ok, isErr, refName, implPkg, implName := vRefLinkname("my/pkg", text)
	VAssert((err != nil) == isErr, "wrong arity is an error, everything else is not")
	VAssert((link != nil) == ok, "a directive is produced exactly for well-formed three-field comments with different names")
	if link != nil && ok {
		VAssert(link.Reference.PkgPath == "my/pkg" && link.Reference.Name == refName, "the reference is the local name in the current package")
		VAssert(link.Implementation.PkgPath == implPkg && link.Implementation.Name == implName, "the implementation is split at the first dot after the last slash")
	}
	VReach("linkname-checked")
}

func VHarness_ReadLinkname()         { vLinkname(6) }
func VHarnessThorough_ReadLinkname() { vLinkname(9) }
