"""C02 — suspending and resuming a goroutine is invisible to the program.

Every dynamic call of VerifYield() is a *symbolic* yield point: the engine decides by a fresh boolean whether the call
behaves exactly like a blocking runtime primitive ($block(); return {$blk}; resumed later through $schedule) or returns
immediately.  All subsets of yield points are therefore explored (one path per feasible subset/control-flow
combination) through the real $restore/$s/$r/$c save-restore code, $go/$schedule/$runScheduled and $callDeferred.  The
printed trace must be the one the Go specification prescribes, for every subset and every scalar input."""
import os, sys
sys.path.insert(0, os.path.dirname(os.path.dirname(os.path.dirname(os.path.abspath(__file__)))))
from vlib import core, tv, runner

Y = '''
import "runtime"

//go:noinline
func VerifYield() { runtime.Gosched() }

//go:noinline
func yv(v int) int { VerifYield(); return v }
'''

TYPES = '''
type acc struct{ total int }

func (a *acc) add(v int) int { VerifYield(); a.total += v; VerifYield(); return a.total }
func (a acc) peek() int      { VerifYield(); return a.total }

type adder interface{ add(v int) int }

//go:noinline
func generic[T int | int16](x, y T) T { VerifYield(); r := x + y; VerifYield(); return r }
'''


def build_cases(tier):
    C = []
    T = tv.trace_case
    V = 'a := int(NondetInt16(0))\nb := int(NondetInt16(1))\n_, _ = a, b\n'
    ok = lambda evs: [('true', evs, 'normal')]
    C.append(T('locals_and_loop', [Y], V + 'sum := 0\nfor i := 0; i < 3; i++ {\n\tVerifYield()\n\tsum += a * i\n\tVerifYield()\n}\nprintln("s", sum, a, b)',
               lambda inp: ok([('s', ['(* 3 in_0)', 'in_0', 'in_1'])])))
    C.append(T('args_order', [Y, '//go:noinline\nfunc three(x, y, z int) int { return x*100 + y*10 + z }\n'], V + 'k := 1\nr := three(k, yv(2), func() int { k = 7; return k }())\nprintln("r", r, k)',
               lambda inp: ok([('r', ['127', '7'])])))
    C.append(T('short_circuit', [Y], V + 'n := 0\nf := func(v bool) bool { n++; VerifYield(); return v }\nr1 := a > b && f(true)\nr2 := a > b || f(false)\nprintln("r", r1, r2, n)',
               lambda inp: [('(> in_0 in_1)', [('r', ['true', 'true', '1'])], 'normal'), ('(not (> in_0 in_1))', [('r', ['false', 'false', '1'])], 'normal')]))
    C.append(T('method_calls', [Y, TYPES], V + 'x := &acc{a}\nr1 := x.add(b)\nf := x.add\nr2 := f(1)\ng := (*acc).add\nr3 := g(x, 1)\nvar i adder = x\nr4 := i.add(1)\nprintln("m", r1, r2, r3, r4, x.peek())',
               lambda inp: ok([('m', ['(+ in_0 in_1)', '(+ in_0 in_1 1)', '(+ in_0 in_1 2)', '(+ in_0 in_1 3)', '(+ in_0 in_1 3)'])])))
    C.append(T('generic_instance', [Y, TYPES], V + 'r := generic(a, b)\ns := generic(int16(3), int16(4))\nprintln("g", r, s)',
               lambda inp: ok([('g', ['(+ in_0 in_1)', '7'])])))
    C.append(T('closure_capture', [Y], V + 'x := a\nadd := func(v int) { VerifYield(); x += v; VerifYield() }\nfor i := 0; i < 2; i++ {\n\tadd(b)\n}\np := &x\nVerifYield()\n*p += 1\nprintln("c", x)',
               lambda inp: ok([('c', ['(+ in_0 (* 2 in_1) 1)'])])))
    C.append(T('loop_var_capture', [Y], V + 'var fs []func() int\nfor i := 0; i < 3; i++ {\n\tVerifYield()\n\tfs = append(fs, func() int { return i * a })\n}\nt := 0\nfor _, f := range fs {\n\tVerifYield()\n\tt += f()\n}\nprintln("t", t)',
               lambda inp: ok([('t', ['(* 9 in_0)'])])))
    C.append(T('switch_position', [Y], V + 'r := 0\nswitch k := yv(a & 3); k {\ncase 0:\n\tr = 10\n\tVerifYield()\n\tfallthrough\ncase 1:\n\tr += 1\ncase 2:\n\tVerifYield()\n\tr = 20\ndefault:\n\tr = 30\n}\nprintln("r", r)',
               lambda inp: [('(= (mod in_0 4) 0)', [('r', ['11'])], 'normal'), ('(= (mod in_0 4) 1)', [('r', ['1'])], 'normal'),
                            ('(= (mod in_0 4) 2)', [('r', ['20'])], 'normal'), ('(= (mod in_0 4) 3)', [('r', ['30'])], 'normal')]))
    C.append(T('defer_and_named_result', [Y], V + 'println("f", func() (res int) {\n\tdefer func() {\n\t\tres += b\n\t\tVerifYield()\n\t\tres += b\n\t}()\n\tVerifYield()\n\treturn a\n}())',
               lambda inp: ok([('f', ['(+ in_0 in_1 in_1)'])])))
    C.append(T('return_after_blocking_defer', [Y, '//go:noinline\nfunc plain(x int) int {\n\tdefer func() { x = -1; VerifYield(); x = -2 }()\n\treturn x\n}\n//go:noinline\nfunc pair(x int, s string) (int, string) {\n\tdefer func() { x = 0; s = "changed"; VerifYield(); x = 1; s = "again" }()\n\treturn x, s\n}\n'],
               V + 'println("p", plain(a))\nn, s := pair(b, "one")\nprintln("q", n, s)',
               lambda inp: ok([('p', ['in_0']), ('q', ['in_1', 'one'])])))
    C.append(T('panic_recover_across_yield', [Y], V + 'r := func() (out int) {\n\tdefer func() {\n\t\tVerifYield()\n\t\tif v := recover(); v != nil {\n\t\t\tVerifYield()\n\t\t\tout = v.(int) + 1\n\t\t}\n\t}()\n\tVerifYield()\n\tif a > b {\n\t\tpanic(a)\n\t}\n\treturn b\n}()\nprintln("r", r)',
               lambda inp: [('(> in_0 in_1)', [('r', ['(+ in_0 1)'])], 'normal'), ('(not (> in_0 in_1))', [('r', ['in_1'])], 'normal')]))
    C.append(T('deep_call_chain', [Y, '//go:noinline\nfunc l3(x int) int { VerifYield(); return x + 1 }\n//go:noinline\nfunc l2(x int) int { r := l3(x) * 2; VerifYield(); return r }\n//go:noinline\nfunc l1(x int) int { return l2(x) + l3(x) }\n'],
               V + 'println("d", l1(a))', lambda inp: ok([('d', ['(+ (* 2 (+ in_0 1)) (+ in_0 1))'])])))
    C.append(T('struct_and_array_locals', [Y, 'type pt struct{ x, y int }\n'], V + 'p := pt{a, b}\narr := [3]int{a, b, 0}\nVerifYield()\nq := p\nq.x++\narr[2] = yv(p.x) + arr[1]\nVerifYield()\nprintln("s", p.x, q.x, arr[2])',
               lambda inp: ok([('s', ['in_0', '(+ in_0 1)', '(+ in_0 in_1)'])])))
    C.append(T('range_loops', [Y], V + 'm := 0\nfor i, v := range []int{a, b, 3} {\n\tVerifYield()\n\tm += i * v\n}\nfor i := range [2]int{} {\n\tm += yv(i)\n}\nprintln("m", m)',
               lambda inp: ok([('m', ['(+ in_1 6 1)'])])))
    C.append(T('pkg_init', [Y, 'var initA = yv(5)\nvar initB = initA + yv(1)\nfunc init() { VerifYield(); initB *= 2 }\n'], 'println("i", initA, initB)',
               lambda inp: ok([('i', ['5', '12'])])))
    C.append(T('other_goroutine_result', [Y], V + 'c := make(chan int, 1)\ngo func() {\n\tVerifYield()\n\tc <- a + b\n}()\nVerifYield()\nprintln("g", <-c)',
               lambda inp: ok([('g', ['(+ in_0 in_1)'])])))
    # an earlier argument that is a compound of a suspending call and a later plain call keeps its place in the evaluation order
    C.append(T('args_compound_order', [Y, 'var cnt int\n//go:noinline\nfunc stamp() int { cnt++; return cnt * 1000 }\n//go:noinline\nfunc yc(v int) int { VerifYield(); cnt += 10; return v }\n//go:noinline\nfunc two(x, y int) int { return x*7 + y }\ntype bx struct{ p, q int }\n//go:noinline\nfunc viaBox(b bx, y int) int { return b.p*100000 + b.q + y }\n'],
               V + 'r1 := two(yc(1)+stamp(), yc(2))\ncnt = 0\nr2 := viaBox(bx{yc(1), stamp()}, yc(3))\nprintln("r", r1, r2)',
               lambda inp: ok([('r', ['(+ (* 7 11001) 2)', '(+ 100000 11000 3)'])])))
    # leads reported by a sub-agent while reading the unchanged compiler
    C.append(T('ptr_method_on_named_nonstruct_local', [Y, 'type ctr int\nfunc (c *ctr) inc() { *c++ }\n'], V + 'var x ctr\nx.inc()\nVerifYield()\nx.inc()\np := &x\nVerifYield()\np.inc()\nprintln("x", int(x))',
               lambda inp: ok([('x', ['3'])])))
    C.append(T('panic_through_suspending_defer', [Y, '//go:noinline\nfunc pf(v int) int {\n\tdefer func() { VerifYield() }()\n\tif v != 12345 {\n\t\tpanic("p")\n\t}\n\treturn 1\n}\n//go:noinline\nfunc pg(v int) (r int) {\n\tdefer func() {\n\t\trecover()\n\t\tr = 5\n\t}()\n\tr = pf(v)\n\tprintln("after")\n\treturn r + 100\n}\n'], V + 'println("g", pg(a&255))',
               lambda inp: ok([('g', ['5'])])))
    return C


def main():
    tier = core.tier()
    cases = build_cases(tier)
    only = os.environ.get('VERIF_ONLY')
    if only:
        import re
        cases = [c for c in cases if re.search(only, c.tag)]

    def post(ev, rep):
        ev['coverage']['yield_points'] = 'each dynamic VerifYield() call is an independent symbolic boolean (input yield_<n>); up to %d per path' % (14 if tier == 'quick' else 20)
    return runner.run_property('C02', cases, tier=tier, chunk=1, post=post,
                               title='all subsets of yield points vs the specified trace; the yield intrinsic performs the same $block/$schedule/{ $blk } protocol as $recv/$send',
                               bounds={'yield points per path': '<= 14 dynamic calls (quick), 20 (thorough); every subset explored', 'scalars': 'all int16 pairs',
                                       'premise': 'no other goroutine is runnable at a yield (except in other_goroutine_result, whose result is schedule-independent)'},
                               cfg={'maxDepth': 600, 'maxPaths': 40000, 'timeoutMs': 20000, 'maxWallMs': 900000})


if __name__ == '__main__':
    sys.exit(main())
