//go:build verif

package sourcemapx

import "go/token"

// vRec records everything written to it.
type vRec struct{ out []byte }

func (w *vRec) Write(p []byte) (int, error) { w.out = append(w.out, p...); return len(p), nil }

type vCB struct {
	line, col, pos int
	name           string
}

// Stubs (see bounds): gob decoding of the payload and FileSet look-ups are outside the claim; the stubs make the hint's
// "original position" a function of its payload, so that the association hint -> callback stays observable.
func VStub_Unpack(h *Hint) (any, error) {
	if len(h.Payload) > 0 && h.Payload[0]&1 == 1 {
		return Identifier{Name: "id", OriginalName: "orig", OriginalPos: token.Pos(int(h.Payload[0]) + 1)}, nil
	}
	if len(h.Payload) > 0 {
		return token.Pos(int(h.Payload[0]) + 1), nil
	}
	return token.Pos(1), nil
}

func VStub_Position(s *token.FileSet, p token.Pos) token.Position { return token.Position{Offset: int(p)} }

var vCodeNames = [3][4]string{{"c00", "c01", "c02", "c03"}, {"c10", "c11", "c12", "c13"}, {"c20", "c21", "c22", "c23"}}
var vPayNames = [2][3]string{{"p00", "p01", "p02"}, {"p10", "p11", "p12"}}
var vLenNames = [3]string{"len0", "len1", "len2"}
var vPlNames = [2]string{"plen0", "plen1"}

type vHint struct{ start, end, pos int; name string }

func vBuildStream(maxHints, maxCode, maxPayload int) ([]byte, []vHint) {
	var stream []byte
	var hints []vHint
	nh := VNondetInt("nhints", 0, maxHints)
	for k := 0; k <= nh; k++ {
		n := VNondetInt(vLenNames[k], 0, maxCode)
		for j := 0; j < n; j++ {
			b := VNondetByte(vCodeNames[k][j])
			VAssume(b != HintMagic) // generated code never contains the magic byte outside hints (documented premise)
			stream = append(stream, b)
		}
		if k < nh {
			pl := VNondetInt(vPlNames[k], 0, maxPayload)
			payload := make([]byte, pl)
			for j := range payload {
				payload[j] = VNondetByte(vPayNames[k][j]) // any byte, the magic byte included
			}
			h := Hint{Payload: payload}
			var enc vRec
			if _, err := h.WriteTo(&enc); err != nil { // the real encoder
				panic(err)
			}
			start := len(stream)
			stream = append(stream, enc.out...)
			hi := vHint{start: start, end: len(stream), pos: 1}
			if pl > 0 {
				hi.pos = int(payload[0]) + 1
				if payload[0]&1 == 1 {
					hi.name = "orig"
				}
			}
			hints = append(hints, hi)
		}
	}
	return stream, hints
}

// vCheckFilter writes the stream in the given chunks, starting from the filter state (line0, col0), and compares everything observable
// with a plain rescan of the stream from that state.
func vCheckFilter(stream []byte, hints []vHint, cuts []int, withCallback bool, line0, col0 int) {
	w := &vRec{}
	var cbs []vCB
	f := &Filter{Writer: w, line: line0, column: col0}
	if withCallback {
		f.goMappingCallback = func(line, col int, pos token.Position, name string) {
			cbs = append(cbs, vCB{line, col, pos.Offset, name})
		}
	}
	prev := 0
	for _, c := range append(cuts, len(stream)) {
		n, err := f.Write(stream[prev:c])
		VAssert(err == nil, "no error from a writer that does not fail")
		VAssert(n == c-prev, "n returned equals the bytes consumed")
		prev = c
	}
	// reference: a plain rescan of the stream
	var want []byte
	var wantCB []vCB
	line, col := line0, col0
	hi := 0
	for i := 0; i < len(stream); {
		if hi < len(hints) && i == hints[hi].start {
			wantCB = append(wantCB, vCB{line + 1, col, hints[hi].pos, hints[hi].name})
			i = hints[hi].end
			hi++
			continue
		}
		b := stream[i]
		want = append(want, b)
		if b == '\n' {
			line++
			col = 0
		} else {
			col++
		}
		i++
	}
	VAssert(len(w.out) == len(want), "output is the input minus the hints (length)")
	for i := range want {
		VAssert(w.out[i] == want[i], "output is the input minus the hints (bytes)")
	}
	for _, b := range w.out {
		VAssert(b != HintMagic, "no hint byte reaches the writer")
	}
	if withCallback {
		VAssert(len(cbs) == len(wantCB), "exactly one callback per hint")
		for i := range wantCB {
			VAssert(cbs[i].line == wantCB[i].line && cbs[i].col == wantCB[i].col, "callback position = position in the output of the first byte after the hint")
			VAssert(cbs[i].pos == wantCB[i].pos && cbs[i].name == wantCB[i].name, "callback carries its own hint's payload")
		}
	}
	VAssert(f.line == line && f.column == col, "line/column state after the chunk is the rescan state")
	VReach("filter-checked")
}

// One Write from an ARBITRARY filter state (symbolic line and column): the effect of the call is exactly the effect of rescanning the
// chunk from that state.  Because rescanning is compositional (rescan(a++b) = rescan(b) after rescan(a)), this single step covers every
// stream and every chunking into writes that do not split a hint, of any length, made of chunks within the bound.
func vStep(maxHints, maxCode, maxPayload int) {
	stream, hints := vBuildStream(maxHints, maxCode, maxPayload)
	line0 := VNondetInt("line0", 0, 1<<40)
	col0 := VNondetInt("col0", 0, 1<<40)
	vCheckFilter(stream, hints, nil, VNondetBool("with_callback"), line0, col0)
}

func VHarness_FilterStep_2hints() { vStep(2, 1, 1) }
func VHarness_FilterStep_1hint()  { vStep(1, 2, 2) }
func VHarnessThorough_FilterStep() { vStep(2, 2, 2) }

// Explicit chunkings of small streams (a direct check of the composition argument): <= 1 hint, <= 1 code byte per segment, every pair of cuts.
func VHarness_FilterChunkings() {
	stream, hints := vBuildStream(1, 1, 1)
	c1 := VNondetInt("cut1", 0, len(stream))
	c2 := VNondetInt("cut2", 0, len(stream))
	VAssume(c1 <= c2)
	for _, h := range hints {
		VAssume(c1 <= h.start || c1 >= h.end)
		VAssume(c2 <= h.start || c2 >= h.end)
	}
	vCheckFilter(stream, hints, []int{c1, c2}, true, 0, 0)
}

// ReadHint(WriteTo(h)) = h for every payload, also when followed by more bytes.
func VHarness_HintRoundTrip() {
	pl := VNondetInt("plen", 0, 3)
	payload := make([]byte, pl)
	names := [3]string{"b0", "b1", "b2"}
	for j := range payload {
		payload[j] = VNondetByte(names[j])
	}
	h := Hint{Payload: payload}
	var enc vRec
	n, err := h.WriteTo(&enc)
	VAssert(err == nil && int(n) == pl+3, "encoded size is payload + 3")
	VAssert(FindHint(enc.out) == 0, "an encoded hint starts with the magic byte")
	tail := VNondetInt("tail", 0, 2)
	buf := append([]byte{}, enc.out...)
	tn := [2]string{"t0", "t1"}
	for j := 0; j < tail; j++ {
		buf = append(buf, VNondetByte(tn[j]))
	}
	got, length := ReadHint(buf)
	VAssert(length == pl+3, "ReadHint consumes exactly the encoded hint")
	VAssert(len(got.Payload) == pl, "payload length survives")
	for j := range payload {
		VAssert(got.Payload[j] == payload[j], "payload bytes survive")
	}
	if pl > 0 {
		buf[3] ^= 0xff
		VAssert(got.Payload[0] == payload[0], "returned payload does not share memory with the input")
	}
	VReach("roundtrip-checked")
}
