"""C19 — source maps: hints never reach the output, removing them changes nothing else, callbacks fire at the right output position.

Kernel check (gosym engine) of internal/sourcemapx: Filter.Write, FindHint, ReadHint, Hint.WriteTo on ALL byte streams within the
bounds and ALL chunkings into writes that do not split a hint."""
import os, sys
sys.path.insert(0, os.path.dirname(os.path.dirname(os.path.dirname(os.path.abspath(__file__)))))
from vlib import core, gokernel

GOROOT_TOKEN = None


MARK_PROGRAM = '''package main

//go:noinline
func mark(s string) int { return len(s) }

type T struct{ a, b int }

func two(f func(), n int) int { f(); return n }

func main() {
	x := mark("M1")                                   //@ M1
	if mark("M2") > 0 {                               //@ M2
		x += mark("M3")                               //@ M3
	}
	for i := 0; i < mark("M4"); i += mark("M5") {     //@ M4 M5
		x++
	}
	y := two(func() {                                 //@stmt S1
		mark("M6")                                    //@ M6
	}, mark("M7"))                                    //@cont S1 M7
	func() {                                          //@stmt S2
		mark("M8")                                    //@ M8
	}()
	x += mark("M9")                                   //@ M9
	defer two(func() {                                //@stmt S3
		mark("M10")                                   //@ M10
	}, mark("M11"))                                   //@cont S3 M11
	t := T{                                           //@stmt S4
		a: mark("M12"),                               //@cont S4 M12
		b: mark("M13"),                               //@cont S4 M13
	}
	switch mark("M14") {                              //@ M14
	case 3:
		x = mark("M15")                               //@ M15
	}
	c := make(chan int, 1)
	go two(func() { c <- mark("M16") }, mark("M17"))  //@ M16 M17
	println(x, y, t.a, <-c,                           //@stmt S5
		mark("M18"))                                  //@cont S5 M18
}
'''


def mapping_observations():
    """Plain observations on the real toolchain (no solver): for a marker program built with source maps, with and without -m,
    every marker's generated position must map to the first line of the Go statement that produced it (or to the line the marker
    itself is written on, or to no Go position), and every mapping must be in range on both sides."""
    from vlib import srcmap
    import re
    src_lines = MARK_PROGRAM.split('\n')
    want = {}      # marker -> (statement first line, own line), 1-based
    labels = {}
    for i, ln in enumerate(src_lines, 1):
        m = re.search(r'//@(?:(stmt|cont) (S\d+))?((?: M\d+)*)\s*$', ln)
        if not m:
            continue
        kind, label = m.group(1), m.group(2)
        if kind == 'stmt':
            labels[label] = i
        first = labels[label] if kind == 'cont' else i
        for mk in m.group(3).split():
            want[mk] = (first, i)
    out = {'programs': 0, 'markers_checked': 0, 'exact': 0, 'unmapped': 0, 'mappings_in_range': 0, 'failures': []}
    for minify in (False, True):
        d = os.path.join(core.scratch(), 'C19obs_%d' % int(minify))
        core.write_pkg(d, {'main.go': MARK_PROGRAM})
        okb, js = core.compile_js(d, minify=minify)
        out['programs'] += 1
        if not okb:
            out['failures'].append({'minify': minify, 'error': 'build failed: ' + js[-300:]})
            continue
        text = open(js).read()
        if '\b' in text:
            out['failures'].append({'minify': minify, 'error': 'the emitted JavaScript contains a source-map hint byte'})
        glines = text.split('\n')
        sources, lines = srcmap.load(js + '.map')
        nsrc = len(src_lines)
        for gl, segs in lines.items():
            for (gc, si, sl, sc) in segs:
                if gl >= len(glines) or gc > len(glines[gl]):
                    out['failures'].append({'minify': minify, 'error': 'mapping outside the generated file: line %d col %d' % (gl + 1, gc)})
                elif si is not None and sources[si].endswith('main.go') and not (0 <= sl < nsrc):
                    out['failures'].append({'minify': minify, 'error': 'mapping to a line that does not exist in main.go: %d' % (sl + 1)})
                else:
                    out['mappings_in_range'] += 1
        for mk, (stmt_line, own_line) in sorted(want.items()):
            pos = [(i, l.find('"%s"' % mk)) for i, l in enumerate(glines) if '"%s"' % mk in l]
            if len(pos) != 1:
                out['failures'].append({'minify': minify, 'marker': mk, 'error': 'marker occurs %d times in the output' % len(pos)})
                continue
            seg = srcmap.lookup_global(lines, pos[0][0], pos[0][1])
            out['markers_checked'] += 1
            if seg is None or seg[1] is None:
                out['unmapped'] += 1
                continue
            if not sources[seg[1]].endswith('main.go'):
                out['failures'].append({'minify': minify, 'marker': mk, 'error': 'maps to another file: %s' % sources[seg[1]]})
            elif seg[2] + 1 == stmt_line or seg[2] + 1 == own_line:
                out['exact'] += 1
            else:
                out['failures'].append({'minify': minify, 'marker': mk, 'error': 'generated code of the statement starting at main.go:%d (marker on line %d) maps to main.go:%d' % (stmt_line, own_line, seg[2] + 1)})
    if out['markers_checked'] and out['exact'] * 2 < out['markers_checked']:
        out['failures'].append({'error': 'fewer than half of the markers have a Go position at all'})
    return out


def main():
    tier = core.tier()
    goroot = core.run(['go', 'env', 'GOROOT']).stdout.strip()
    k = gokernel.Kernel('C19', 'internal/sourcemapx', ['filter_harness.go'],
                        init=['github.com/gopherjs/gopherjs/internal/sourcemapx', 'bytes', 'encoding/binary', 'errors', 'io', 'unicode/utf8', 'go/token', 'internal/bytealg', 'fmt'],
                        stubs=[('(*github.com/gopherjs/gopherjs/internal/sourcemapx.Hint).Unpack', 'VStub_Unpack'), ('(*go/token.FileSet).Position', 'VStub_Position')],
                        native_patches=[(os.path.join(core.REPO, 'internal/sourcemapx/hint.go'), 'func (h *Hint) Unpack() (any, error) {', 'func (h *Hint) Unpack() (any, error) {\n\tif true {\n\t\treturn VStub_Unpack(h)\n\t}'),
                                        (os.path.join(goroot, 'src/go/token/position.go'), 'func (s *FileSet) Position(p Pos) (pos Position) {', 'func (s *FileSet) Position(p Pos) (pos Position) {\n\tif true {\n\t\treturn Position{Offset: int(p)}\n\t}')])
    obs = mapping_observations() if not os.environ.get('VERIF_ONLY') else {}
    rc, ev = gokernel.run_kernels('C19', [k], tier, extra={'compiler_mapping_observations': obs}, write=False,
                                  title='Filter.Write / FindHint / ReadHint / Hint.WriteTo on all byte streams and chunkings within the bounds',
                                  bounds={'chunk (one Write call)': 'quick: <= 2 hints with <= 1 code byte per segment and <= 1 payload byte, and <= 1 hint with <= 2 code bytes per segment and <= 2 payload bytes; thorough: <= 2 hints, <= 2 code bytes per segment, <= 2 payload bytes; every byte value (code bytes differ from the magic byte, payload bytes are unrestricted)',
                                          'filter state': 'arbitrary (symbolic) line and column before the call, so the one-step result composes to streams and chunkings of any length built from such chunks; chunk boundaries never cut a hint',
                                          'explicit chunkings': 'all pairs of cuts of streams with <= 1 hint / <= 1 code byte per segment', 'outside': 'gob decoding of hint payloads (Hint.Unpack is stubbed: the original position is a function of the payload), FileSet look-ups, esbuild source maps of the prelude, writers that fail'},
                                  explanation='symbolic execution (go/ssa) of the real Filter.Write/ReadHint/WriteTo code; the property is asserted against a plain rescan of the stream inside the harness',
                                  harness_re='^VHarness_' if tier == 'quick' else '^VHarness',
                                  budgets={'maxseconds': 600 if tier == 'quick' else 3000, 'maxpaths': 400000})
    if obs.get('failures'):
        d = os.path.join(core.VERIF, 'evidence', 'replay', 'C19', 'mapping_observation')
        os.makedirs(d, exist_ok=True)
        with open(os.path.join(d, 'main.go'), 'w') as f:
            f.write(MARK_PROGRAM)
        with open(os.path.join(d, 'failures.json'), 'w') as f:
            import json
            json.dump(obs['failures'], f, indent=1)
        print('VIOLATION property=C19 replay=%s' % d)
        for fl in obs['failures'][:5]:
            print('  source-map observation: %s' % fl)
        ev['violations'] += 1
        rc = 1
    if not os.environ.get('VERIF_NO_EVIDENCE'):
        core.write_evidence('C19', ev)
    return rc


if __name__ == '__main__':
    sys.exit(main())
