"""C19 — source maps: hints never reach the output, removing them changes nothing else, callbacks fire at the right output position.

Kernel check (gosym engine) of internal/sourcemapx: Filter.Write, FindHint, ReadHint, Hint.WriteTo on ALL byte streams within the
bounds and ALL chunkings into writes that do not split a hint."""
import os, sys
sys.path.insert(0, os.path.dirname(os.path.dirname(os.path.dirname(os.path.abspath(__file__)))))
from vlib import core, gokernel

GOROOT_TOKEN = None


def main():
    tier = core.tier()
    goroot = core.run(['go', 'env', 'GOROOT']).stdout.strip()
    k = gokernel.Kernel('C19', 'internal/sourcemapx', ['filter_harness.go'],
                        init=['github.com/gopherjs/gopherjs/internal/sourcemapx', 'bytes', 'encoding/binary', 'errors', 'io', 'unicode/utf8', 'go/token', 'internal/bytealg', 'fmt'],
                        stubs=[('(*github.com/gopherjs/gopherjs/internal/sourcemapx.Hint).Unpack', 'VStub_Unpack'), ('(*go/token.FileSet).Position', 'VStub_Position')],
                        native_patches=[(os.path.join(core.REPO, 'internal/sourcemapx/hint.go'), 'func (h *Hint) Unpack() (any, error) {', 'func (h *Hint) Unpack() (any, error) {\n\tif true {\n\t\treturn VStub_Unpack(h)\n\t}'),
                                        (os.path.join(goroot, 'src/go/token/position.go'), 'func (s *FileSet) Position(p Pos) (pos Position) {', 'func (s *FileSet) Position(p Pos) (pos Position) {\n\tif true {\n\t\treturn Position{Offset: int(p)}\n\t}')])
    rc, ev = gokernel.run_kernels('C19', [k], tier,
                                  title='Filter.Write / FindHint / ReadHint / Hint.WriteTo on all byte streams and chunkings within the bounds',
                                  bounds={'chunk (one Write call)': 'quick: <= 2 hints with <= 1 code byte per segment and <= 1 payload byte, and <= 1 hint with <= 2 code bytes per segment and <= 2 payload bytes; thorough: <= 2 hints, <= 2 code bytes per segment, <= 2 payload bytes; every byte value (code bytes differ from the magic byte, payload bytes are unrestricted)',
                                          'filter state': 'arbitrary (symbolic) line and column before the call, so the one-step result composes to streams and chunkings of any length built from such chunks; chunk boundaries never cut a hint',
                                          'explicit chunkings': 'all pairs of cuts of streams with <= 1 hint / <= 1 code byte per segment', 'outside': 'gob decoding of hint payloads (Hint.Unpack is stubbed: the original position is a function of the payload), FileSet look-ups, esbuild source maps of the prelude, writers that fail'},
                                  explanation='symbolic execution (go/ssa) of the real Filter.Write/ReadHint/WriteTo code; the property is asserted against a plain rescan of the stream inside the harness',
                                  harness_re='^VHarness_' if tier == 'quick' else '^VHarness',
                                  budgets={'maxseconds': 600 if tier == 'quick' else 3000, 'maxpaths': 400000})
    return rc


if __name__ == '__main__':
    sys.exit(main())
