//go:build verif

package compiler

var vByteNames = [6]string{"s0", "s1", "s2", "s3", "s4", "s5"}

func vSymbolicString(max int) string {
	n := VNondetInt("len", 0, max)
	bs := make([]byte, n)
	for i := range bs {
		bs[i] = VNondetByte(vByteNames[i])
	}
	return string(bs)
}

// vDecodeJSLiteral decodes a double-quoted JavaScript string literal made of single-byte characters, following the ECMAScript
// grammar for the escapes that can occur (\b \f \n \r \t \v \" \\ \xHH); ok=false if the text is not such a literal.
func vDecodeJSLiteral(lit string) (out []byte, ok bool) {
	if len(lit) < 2 || lit[0] != '"' || lit[len(lit)-1] != '"' {
		return nil, false
	}
	body := lit[1 : len(lit)-1]
	hex := func(c byte) (byte, bool) {
		switch {
		case c >= '0' && c <= '9':
			return c - '0', true
		case c >= 'A' && c <= 'F':
			return c - 'A' + 10, true
		case c >= 'a' && c <= 'f':
			return c - 'a' + 10, true
		}
		return 0, false
	}
	for i := 0; i < len(body); {
		c := body[i]
		if c == '"' || c < 0x20 || c > 0x7e {
			return nil, false // a raw quote, control or non-ASCII byte inside the literal
		}
		if c != '\\' {
			out = append(out, c)
			i++
			continue
		}
		if i+1 >= len(body) {
			return nil, false
		}
		switch body[i+1] {
		case 'b':
			out = append(out, '\b')
		case 'f':
			out = append(out, '\f')
		case 'n':
			out = append(out, '\n')
		case 'r':
			out = append(out, '\r')
		case 't':
			out = append(out, '\t')
		case 'v':
			out = append(out, '\v')
		case '"':
			out = append(out, '"')
		case '\\':
			out = append(out, '\\')
		case 'x':
			if i+3 >= len(body) {
				return nil, false
			}
			h, ok1 := hex(body[i+2])
			l, ok2 := hex(body[i+3])
			if !ok1 || !ok2 {
				return nil, false
			}
			out = append(out, h<<4|l)
			i += 4
			continue
		default:
			return nil, false
		}
		i += 2
	}
	return out, true
}

// For every byte string up to the bound, encodeString yields a printable-ASCII JavaScript literal that decodes to exactly the input bytes.
func vEncodeRoundTrip(max int) {
	s := vSymbolicString(max)
	lit := encodeString(s)
	for i := 0; i < len(lit); i++ {
		VAssert(lit[i] >= 0x20 && lit[i] <= 0x7e, "the literal is printable ASCII")
		VAssert(lit[i] != '\b', "no source-map magic byte inside a literal")
	}
	dec, ok := vDecodeJSLiteral(lit)
	VAssert(ok, "the emitted text is a well-formed JavaScript string literal")
	VAssert(len(dec) == len(s), "decoded length equals the input length")
	for i := 0; i < len(s) && i < len(dec); i++ {
		VAssert(dec[i] == s[i], "decoded bytes equal the input bytes")
	}
	VReach("encode-checked")
}

func VHarness_EncodeString()         { vEncodeRoundTrip(3) }
func VHarnessThorough_EncodeString() { vEncodeRoundTrip(5) }
