"""C14 kernel: compiler.encodeString on all byte strings up to the bound (gosym engine)."""
import os, sys
sys.path.insert(0, os.path.dirname(os.path.dirname(os.path.dirname(os.path.abspath(__file__)))))
from vlib import core, gokernel

INIT = ['github.com/gopherjs/gopherjs/compiler', 'bytes', 'errors', 'io', 'unicode/utf8', 'internal/bytealg', 'strings', 'unicode']


def kernel():
    return gokernel.Kernel('C14', 'compiler', ['encode_harness.go'], init=INIT)


def run(tier):
    """-> (exit code, evidence dict) of the kernel part"""
    return gokernel.run_kernels('C14', [kernel()], tier, write=False,
                                title='compiler.encodeString: the emitted JavaScript literal is printable ASCII and decodes (ECMAScript escapes) to exactly the input bytes',
                                bounds={'strings': 'every byte string of length <= %d' % (3 if tier == 'quick' else 5), 'outside': 'longer strings'},
                                harness_re='^VHarness_' if tier == 'quick' else '^VHarness')
