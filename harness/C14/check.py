"""C14 — strings are byte sequences with Go's UTF-8 behaviour.

Templates over fully symbolic byte strings (every byte 0..255, length 0..N case-split by the engine) are compiled by the
real compiler; the emitted JavaScript + prelude ($decodeRune, $encodeRune, $stringToRunes, $runesToString, $stringToBytes,
$bytesToString, $substring, ...) is executed symbolically; each path's printed trace is compared by z3 with a reference
written from the Go specification (vlib/utf8spec.py)."""
import os, sys, json, random
sys.path.insert(0, os.path.dirname(os.path.dirname(os.path.dirname(os.path.abspath(__file__)))))
from vlib import core, tv, runner, utf8spec as U


def sbytes(inputs, sid):
    """byte variable names of symbolic string input `sid` on this path (its length is concrete per path)"""
    out = []
    k = 0
    while ('in_%d_%d' % (sid, k)) in inputs:
        out.append('in_%d_%d' % (sid, k))
        k += 1
    return out


def AND(xs):
    xs = [x for x in xs if x != 'true']
    if not xs:
        return 'true'
    return '(and %s)' % ' '.join(xs)


def eq(a, b):
    return '(= %s %s)' % (a, b)


def expect_events(evs, spec):
    """spec: list of (tag, [terms]) ; evs: JS events.  -> formula or None when the shapes cannot match"""
    if len(evs) != len(spec):
        return None
    cs = []
    for e, (tag, vals) in zip(evs, spec):
        if e['tag'] != tag or len(e['args']) != len(vals):
            return None
        for (jt, jk), v in zip(e['args'], vals):
            if jk == 'bool' or jk == 'int':
                cs.append(eq(jt, v))
            else:
                return None
    return AND(cs)


def case(tag, decl, body, trace, inputs=None):
    return tv.Case(tag, decl, body, inputs or {}, lambda names: {'trace': trace})


def build_cases(tier):
    N = 4 if tier == 'quick' else 5
    cases = []

    # ---- range over string: (index, rune) per step, U+FFFD width 1 for every invalid byte
    def t_range(evs, end, inputs):
        bs = sbytes(inputs, 0)
        L = len(bs)
        if end[0] != 'normal' or not evs or evs[-1]['tag'] != 'end':
            return None
        steps = evs[:-1]
        dec = [U.decode_at(bs, i) for i in range(L)]
        pos = '0'
        cs = []
        for e in steps:
            if e['tag'] != 'e' or len(e['args']) != 2:
                return None
            cs.append('(< %s %d)' % (pos, L))
            cs.append(eq(tv.arg(e, 0), pos))
            cs.append(eq(tv.arg(e, 1), U.select(pos, [d[0] for d in dec] + ['0'])))
            pos = '(+ %s %s)' % (pos, U.select(pos, [d[1] for d in dec] + ['1']))
        cs.append('(>= %s %d)' % (pos, L))
        return AND(cs)
    cases.append(case('range', '', 's := NondetString(0, %d)\nfor i, r := range s {\n\tprintln("e", i, r)\n}\nprintln("end")' % N, t_range))

    # ---- []rune(s): same decoding, as a slice
    def t_runes(evs, end, inputs):
        bs = sbytes(inputs, 0)
        L = len(bs)
        if end[0] != 'normal' or not evs or evs[0]['tag'] != 'n':
            return None
        dec = [U.decode_at(bs, i) for i in range(L)]
        pos = '0'
        cs = []
        rs = evs[1:]
        cs.append(eq(tv.arg(evs[0], 0), str(len(rs))))
        for e in rs:
            if e['tag'] != 'r':
                return None
            cs.append('(< %s %d)' % (pos, L))
            cs.append(eq(tv.arg(e, 0), U.select(pos, [d[0] for d in dec] + ['0'])))
            pos = '(+ %s %s)' % (pos, U.select(pos, [d[1] for d in dec] + ['1']))
        cs.append('(>= %s %d)' % (pos, L))
        return AND(cs)
    cases.append(case('runes', '', 's := NondetString(0, %d)\nrs := []rune(s)\nprintln("n", len(rs))\nfor k := 0; k < len(rs); k++ {\n\tprintln("r", rs[k])\n}' % N, t_runes))

    # ---- string(rune) for every int32
    def t_encode(evs, end, inputs):
        ln, b = U.encode('in_0')
        if end[0] != 'normal' or not evs or evs[0]['tag'] != 'n':
            return None
        k = len(evs) - 1
        cs = [eq(tv.arg(evs[0], 0), ln), eq(ln, str(k))]
        for j, e in enumerate(evs[1:]):
            cs.append(eq(tv.arg(e, 0), b[j]))
        return AND(cs)
    cases.append(case('encode_rune', '', 'r := NondetInt32(0)\nt := string(rune(r))\nprintln("n", len(t))\nfor k := 0; k < len(t); k++ {\n\tprintln("b", t[k])\n}', t_encode, {0: 'int32'}))

    # ---- string([]rune{r1, r2}): concatenated encodings
    def t_encode2(evs, end, inputs):
        l0, b0 = U.encode('in_0')
        l1, b1 = U.encode('in_1')
        if end[0] != 'normal' or not evs or evs[0]['tag'] != 'n':
            return None
        k = len(evs) - 1
        cs = [eq(tv.arg(evs[0], 0), '(+ %s %s)' % (l0, l1)), eq('(+ %s %s)' % (l0, l1), str(k))]
        for j, e in enumerate(evs[1:]):
            # byte j of the concatenation
            first = U.select(str(j), b0 + ['0']) if j < 4 else '0'
            second = U.select('(- %d %s)' % (j, l0), b1 + ['0'])
            cs.append(eq(tv.arg(e, 0), '(ite (< %d %s) %s %s)' % (j, l0, first, second)))
        return AND(cs)
    cases.append(case('runes_to_string', '', 'rs := []rune{rune(NondetInt32(0)), rune(NondetInt32(1))}\nt := string(rs)\nprintln("n", len(t))\nfor k := 0; k < len(t); k++ {\n\tprintln("b", t[k])\n}', t_encode2, {0: 'int32', 1: 'int32'}))

    # ---- len and indexing (panic exactly when out of range)
    def t_index(evs, end, inputs):
        bs = sbytes(inputs, 0)
        L = len(bs)
        inr = '(and (<= 0 in_1) (< in_1 %d))' % L
        if end[0] == 'panic':
            if 'index out of range' not in end[1] or len(evs) != 1:
                return None
            return AND([eq(tv.arg(evs[0], 0), str(L)), '(not %s)' % inr])
        if len(evs) != 2:
            return None
        return AND([eq(tv.arg(evs[0], 0), str(L)), inr, eq(tv.arg(evs[1], 0), U.select('in_1', bs + ['0']) if L else '0')])
    cases.append(case('index', '', 's := NondetString(0, %d)\ni := NondetInt(1)\nprintln("l", len(s))\nprintln("b", s[i])' % N, t_index, {1: 'int'}))

    # ---- slicing s[i:j]
    def t_slice(evs, end, inputs):
        bs = sbytes(inputs, 0)
        L = len(bs)
        ok = '(and (<= 0 in_1) (<= in_1 in_2) (<= in_2 %d))' % L
        if end[0] == 'panic':
            if 'slice bounds out of range' not in end[1] or evs:
                return None
            return '(not %s)' % ok
        if not evs or evs[0]['tag'] != 'l':
            return None
        k = len(evs) - 1
        cs = [ok, eq(tv.arg(evs[0], 0), '(- in_2 in_1)'), eq('(- in_2 in_1)', str(k))]
        for j, e in enumerate(evs[1:]):
            cs.append(eq(tv.arg(e, 0), U.select('(+ in_1 %d)' % j, bs + ['0'])))
        return AND(cs)
    cases.append(case('slice', '', 's := NondetString(0, %d)\ni := NondetRange(1, -1, %d)\nj := NondetRange(2, -1, %d)\nt := s[i:j]\nprintln("l", len(t))\nfor k := 0; k < len(t); k++ {\n\tprintln("b", t[k])\n}' % (N, N + 1, N + 1), t_slice))

    # ---- concatenation and comparison
    M = 2 if tier == 'quick' else 3

    def lex(op, a, b):
        # byte-wise lexicographic comparison of two concrete-length byte lists
        n = min(len(a), len(b))
        if op == '==':
            return 'false' if len(a) != len(b) else AND([eq(x, y) for x, y in zip(a, b)])
        t = {'<': 'true' if len(a) < len(b) else 'false', '<=': 'true' if len(a) <= len(b) else 'false'}[op]
        for i in range(n - 1, -1, -1):
            t = '(ite (= %s %s) %s (< %s %s))' % (a[i], b[i], t, a[i], b[i])
        return t

    def t_cmp(evs, end, inputs):
        a, b = sbytes(inputs, 0), sbytes(inputs, 1)
        if end[0] != 'normal':
            return None
        spec = [('eq', [lex('==', a, b)]), ('lt', [lex('<', a, b)]), ('le', [lex('<=', a, b)]), ('gt', [lex('<', b, a)]), ('ne', ['(not %s)' % lex('==', a, b)])]
        return expect_events(evs, spec)
    cases.append(case('compare', '', 's := NondetString(0, %d)\nt := NondetString(1, %d)\nprintln("eq", s == t)\nprintln("lt", s < t)\nprintln("le", s <= t)\nprintln("gt", s > t)\nprintln("ne", s != t)' % (M, M), t_cmp))

    def t_concat(evs, end, inputs):
        a, b = sbytes(inputs, 0), sbytes(inputs, 1)
        u = a + b
        if end[0] != 'normal':
            return None
        spec = [('l', [str(len(u))])] + [('b', [x]) for x in u]
        return expect_events(evs, spec)
    cases.append(case('concat', '', 's := NondetString(0, %d)\nt := NondetString(1, %d)\nu := s + t\nprintln("l", len(u))\nfor k := 0; k < len(u); k++ {\n\tprintln("b", u[k])\n}' % (M, M), t_concat))

    # ---- []byte(s) and string([]byte) round trip, copy and append from a string
    def t_bytes(evs, end, inputs):
        a = sbytes(inputs, 0)
        if end[0] != 'normal':
            return None
        spec = [('l', [str(len(a))])] + [('b', [x]) for x in a] + [('same', ['true'])]
        k = min(len(a), 2)
        spec += [('c', [str(k)])] + [('cb', [x]) for x in a[:k]]
        spec += [('al', [str(1 + len(a))]), ('a0', ['7'])] + [('ab', [x]) for x in a]
        return expect_events(evs, spec)
    cases.append(case('bytes', '', '''s := NondetString(0, %d)
b := []byte(s)
println("l", len(b))
for k := 0; k < len(b); k++ {
	println("b", b[k])
}
println("same", string(b) == s)
var d [2]byte
n := copy(d[:], s)
println("c", n)
for k := 0; k < n; k++ {
	println("cb", d[k])
}
e := append([]byte{7}, s...)
println("al", len(e))
println("a0", e[0])
for k := 1; k < len(e); k++ {
	println("ab", e[k])
}''' % (N - 1), t_bytes))

    # ---- string as map key and switch operand
    def t_map(evs, end, inputs):
        a, b = sbytes(inputs, 0), sbytes(inputs, 1)
        e_ = lex('==', a, b)
        if end[0] != 'normal':
            return None
        spec = [('len', ['(ite %s 1 2)' % e_]), ('s', ['(ite %s 3 1)' % e_]), ('t', ['(ite %s 3 2)' % e_])]
        return expect_events(evs, spec)
    cases.append(case('mapkey', '', 's := NondetString(0, %d)\nt := NondetString(1, %d)\nm := map[string]int{}\nm[s] = 1\nm[t] += 2\nprintln("len", len(m))\nprintln("s", m[s])\nprintln("t", m[t])' % (M, M), t_map))

    def t_switch(evs, end, inputs):
        a = sbytes(inputs, 0)
        if end[0] != 'normal':
            return None
        lits = [[0x61], [0xff], [0x22, 0x5c], [], [0x24]]
        t = '9'
        for k in range(len(lits) - 1, -1, -1):
            t = '(ite %s %d %s)' % (lex('==', a, [str(x) for x in lits[k]]), k, t)
        return expect_events(evs, [('k', [t])])
    cases.append(case('switch', '', 's := NondetString(0, 2)\nk := 9\nswitch s {\ncase "a":\n\tk = 0\ncase "\\xff":\n\tk = 1\ncase "\\"\\\\":\n\tk = 2\ncase "":\n\tk = 3\ncase "$":\n\tk = 4\n}\nprintln("k", k)', t_switch))

    # ---- literals with awkward bytes survive compilation: indexed by a symbolic position
    LIT = [0, 1, 8, 9, 10, 13, 0x22, 0x27, 0x5c, 0x24, 0x7f, 0x80, 0xbf, 0xc0, 0xe2, 0x82, 0xac, 0xf0, 0x9f, 0x98, 0x80, 0xff, 0xfe, 0x2f, 0x2a, 0x2f, 0x2f]
    golit = ''.join('\\x%02x' % b for b in LIT)

    def t_lit(evs, end, inputs):
        if end[0] != 'normal':
            return None
        return expect_events(evs, [('l', [str(len(LIT))]), ('b', [U.select('in_1', [str(x) for x in LIT])])])
    cases.append(case('literal_hex', '', 'const lit = "%s"\ni := NondetRange(1, 0, %d)\nprintln("l", len(lit))\nprintln("b", lit[i])' % (golit, len(LIT) - 1), t_lit))
    # same bytes written as raw UTF-8 / escapes where legal
    raw = '"\\x00\\a\\b\\t\\n\\r\\"\'\\\\$\\u007f€😀/*//"'
    RAW = list(b'\x00\x07\x08\t\n\r"\'\\$\x7f' + '€😀'.encode() + b'/*//')

    def t_raw(evs, end, inputs):
        if end[0] != 'normal':
            return None
        return expect_events(evs, [('l', [str(len(RAW))]), ('b', [U.select('in_1', [str(x) for x in RAW])])])
    cases.append(case('literal_raw', '', 'const lit = %s\ni := NondetRange(1, 0, %d)\nprintln("l", len(lit))\nprintln("b", lit[i])' % (raw, len(RAW) - 1), t_raw))
    def t_named(evs, end, inputs):
        if end[0] != 'normal':
            return None
        ln, bs = U.encode('in_0')
        exp = [('n', [ln, ln, ln, '3', '3'])]
        for i in range(4):
            exp.append(('b', [U.select('(- %s 1)' % ln, [bs[min(i, k)] if i <= k else '(- 1)' for k in range(4)]) if False else ('(ite (< %d %s) %s (- 1))' % (i, ln, bs[i]))] * 3))
        return expect_events(evs, exp)
    cases.append(case('named_elem_slice_conversions', 'type myRune rune\ntype myRunes []myRune\ntype myByte byte\ntype myBytes []myByte\n//go:noinline\nfunc at(s string, i int) int {\n\tif i < len(s) {\n\t\treturn int(s[i])\n\t}\n\treturn -1\n}\n',
                      'r := NondetInt32(0)\ns1 := string([]myRune{myRune(r)})\ns2 := string(myRunes{myRune(r)})\ns3 := string([]rune{r})\nb1 := string([]myByte{65, 200, 66})\nb2 := string(myBytes{65, 200, 66})\nprintln("n", len(s1), len(s2), len(s3), len(b1), len(b2))\nfor i := 0; i < 4; i++ {\n\tprintln("b", at(s1, i), at(s2, i), at(s3, i))\n}\nrs := []myRune(s3)\nbs := []myByte(b1)\nprintln("c", len(rs), len(bs), int(bs[1]))', None))
    cases[-1] = case('named_elem_slice_conversions', cases[-1].decl, cases[-1].body.replace('\nrs := []myRune(s3)\nbs := []myByte(b1)\nprintln("c", len(rs), len(bs), int(bs[1]))', ''), t_named)
    return cases


def main():
    tier = core.tier()
    cases = build_cases(tier)
    only = os.environ.get('VERIF_ONLY')
    if only:
        import re
        cases = [c for c in cases if re.search(only, c.tag)]
    N = 4 if tier == 'quick' else 5
    # kernel part (gosym engine): compiler.encodeString on all byte strings up to the bound
    sys.path.insert(0, os.path.dirname(os.path.abspath(__file__)))
    import check_kernel
    krc, kev = check_kernel.run(tier) if not (only and not only.startswith('VHarness')) else (0, None)

    def post(ev, rep):
        if kev:
            ev['coverage']['kernel_checks'] = kev['coverage']
            ev['violations'] += kev['violations']
    if only and only.startswith('VHarness'):
        return krc
    return krc | runner.run_property('C14', cases, tier=tier, chunk=1, post=post,
                               title='UTF-8 / byte-string semantics of the Go specification vs symbolic execution of the emitted JavaScript and prelude string helpers',
                               bounds={'string length': '0..%d bytes, every byte fully symbolic (0..255); compare/concat/map operands 0..%d bytes each' % (N, 2 if tier == 'quick' else 3),
                                       'runes': 'string(rune) for every int32 value', 'outside': 'strings longer than the bound; the 10000-byte chunking in $bytesToString'},
                               cfg={'maxDepth': 800, 'maxPaths': 20000, 'timeoutMs': 20000, 'maxWallMs': 1500000 if tier == 'thorough' else 400000})


if __name__ == '__main__':
    sys.exit(main())
