"""C09 — dynamic types: identity, assertions, method sets and dispatch.

Type-family templates: symbolic selectors choose the dynamic type of an interface value (among named / unnamed /
same-named-in-different-scopes / cross-package types) and the target of an assertion or type switch; payloads are
symbolic and mutated after calls so that receiver copying vs sharing is observable.  The emitted JavaScript (with the
real $newType / $methodSet / $implements / $assertType / $interfaceIsEqual / $ifaceKeyFor / method wrappers) is executed
symbolically; each path must give the trace that Go's type identity and method-set rules prescribe."""
import os, sys
sys.path.insert(0, os.path.dirname(os.path.dirname(os.path.dirname(os.path.abspath(__file__)))))
from vlib import core, tv, runner

V = 'a := int(NondetInt16(0))\nb := int(NondetInt16(1))\n_, _ = a, b\n'
ok = lambda evs: [('true', evs, 'normal')]


def sel(k, rows, end='normal'):
    """alternatives selected by the value of input k: rows = [events for k=0, events for k=1, ...]"""
    return [('(= in_%d %d)' % (k, i), ev, end if not isinstance(end, list) else end[i]) for i, ev in enumerate(rows)]


SUB = '''package sub

type T int

func (T) Pub() int { return 1 }
func (T) priv() int { return 2 }

type Priv interface{ priv() int }
type Pub interface{ Pub() int }

type Pair struct{ A, B int }

func MakeSlice() interface{}  { return []int{1} }
func MakeStruct() interface{} { return struct{ A, B int }{1, 2} }
func MakeMap() interface{}    { return map[string][]int{} }
func MakeFunc() interface{}   { return func(int) string { return "" } }
func MakeT(v int) interface{} { return T(v) }
func MakePair(a, b int) interface{} { return Pair{a, b} }
func MakeLower() interface{} { return struct{ a int }{1} }

func IsPriv(v interface{}) bool { _, ok := v.(Priv); return ok }
'''


def build_cases(tier):
    C = []
    T = tv.trace_case

    # ---- distinct named types with the same underlying type; unnamed composite types coincide
    C.append(T('named_vs_underlying', 'type celsius int\ntype kelvin int\ntype ints []int\n',
               V + 'var v interface{}\nswitch NondetRange(2, 0, 4) {\ncase 0:\n\tv = a\ncase 1:\n\tv = celsius(a)\ncase 2:\n\tv = kelvin(a)\ncase 3:\n\tv = []int{a}\ncase 4:\n\tv = ints{a}\n}\n'
               '_, i0 := v.(int)\n_, i1 := v.(celsius)\n_, i2 := v.(kelvin)\n_, i3 := v.([]int)\n_, i4 := v.(ints)\nprintln("t", i0, i1, i2, i3, i4)\n'
               'println("e", v == interface{}(a), v == interface{}(celsius(a)), v == interface{}(kelvin(b)))',
               lambda inp: sel(2, [[('t', ['true', 'false', 'false', 'false', 'false']), ('e', ['true', 'false', 'false'])],
                                   [('t', ['false', 'true', 'false', 'false', 'false']), ('e', ['false', 'true', 'false'])],
                                   [('t', ['false', 'false', 'true', 'false', 'false']), ('e', ['false', 'false', '(= in_0 in_1)'])],
                                   [('t', ['false', 'false', 'false', 'true', 'false']), ('e', ['false', 'false', 'false'])], [('t', ['false', 'false', 'false', 'false', 'true']), ('e', ['false', 'false', 'false'])]])))
    C.append(T('unnamed_identity', 'type pt struct{ x, y int }\n',
               V + 'vals := []interface{}{[]int{1}, []int(nil), [2]int{}, [3]int{}, map[string]int{}, map[string]int8{}, struct{ x, y int }{1, 2}, pt{1, 2}, struct{ x, y int }{1, 2}, &pt{}, (*pt)(nil), func(int) {}, func(int) int { return 0 }, make(chan int), make(<-chan int), make(chan<- int)}\n'
               'i := NondetRange(2, 0, 15)\nv := vals[i]\nr := -1\nswitch v.(type) {\ncase []int:\n\tr = 0\ncase [2]int:\n\tr = 1\ncase [3]int:\n\tr = 2\ncase map[string]int:\n\tr = 3\ncase map[string]int8:\n\tr = 4\ncase struct{ x, y int }:\n\tr = 5\ncase pt:\n\tr = 6\ncase *pt:\n\tr = 7\ncase func(int):\n\tr = 8\ncase func(int) int:\n\tr = 9\ncase chan int:\n\tr = 10\ncase <-chan int:\n\tr = 11\ncase chan<- int:\n\tr = 12\n}\nprintln("r", r)',
               lambda inp: sel(2, [[('r', [str(x)])] for x in (0, 0, 1, 2, 3, 4, 5, 6, 5, 7, 7, 8, 9, 10, 11, 12)])))
    C.append(T('struct_identity_fields', '', V + 'vals := []interface{}{struct{ a int }{a}, struct{ b int }{a}, struct {\n\ta int `tag`\n}{a}, struct{ a int32 }{1}, struct{ A int }{a}}\ni := NondetRange(2, 0, 4)\nj := NondetRange(3, 0, 4)\nprintln("e", vals[i] == vals[j])',
               lambda inp: ok([('e', ['(= in_2 in_3)'])])))
    # ---- same-named types in different scopes stay distinct (known finding: run-time caches are keyed by the printed name)
    LOC = 'type marker interface{ M() int }\ntype A struct{ v int }\nfunc (a A) M() int { return a.v }\n//go:noinline\nfunc localA(v int) interface{} {\n\ttype A struct{ v int }\n\treturn A{v}\n}\n//go:noinline\nfunc otherA(v int) interface{} {\n\ttype A struct{ v int }\n\treturn A{v}\n}\n//go:noinline\nfunc isMarker(v interface{}) bool { _, ok := v.(marker); return ok }\n'
    C.append(T('local_type_same_name_assert', LOC, V + 'g := interface{}(A{a})\nl := localA(a)\nif NondetBool(2) {\n\tprintln("o", isMarker(g), isMarker(l))\n} else {\n\tprintln("o", isMarker(l), isMarker(g))\n}',
               lambda inp: [('in_2', [('o', ['true', 'false'])], 'normal'), ('(not in_2)', [('o', ['false', 'true'])], 'normal')]))
    C.append(T('local_type_same_name_identity', LOC, V + 'g := interface{}(A{a})\nl := localA(a)\no := otherA(a)\n_, gl := l.(A)\n_, gg := g.(A)\nprintln("i", g == l, l == o, l == localA(a), gl, gg)',
               lambda inp: ok([('i', ['false', 'false', 'true', 'false', 'true'])])))
    # ---- method sets: value vs pointer receivers, promotion through embedding (value and pointer hops)
    MS = '''type vm interface{ V() int }
type pm interface{ P() int }
type both interface {
	V() int
	P() int
}
type core struct{ n int }

func (c core) V() int   { return c.n }
func (c *core) P() int  { c.n++; return c.n }

type byVal struct{ core }
type byPtr struct{ *core }
type deepVal struct{ byVal }
type deepPtr struct{ *byVal }
type ptrThenVal struct{ byPtr }
type plain struct{ n int }
'''
    kinds = ['core{a}', '&core{a}', 'byVal{core{a}}', '&byVal{core{a}}', 'byPtr{&core{a}}', '&byPtr{&core{a}}', 'deepVal{byVal{core{a}}}', '&deepVal{}', 'deepPtr{&byVal{core{a}}}',
             '&deepPtr{&byVal{}}', 'ptrThenVal{byPtr{&core{a}}}', 'plain{a}', '&plain{a}']
    #          V      P
    sets = [(1, 0), (1, 1), (1, 0), (1, 1), (1, 1), (1, 1), (1, 0), (1, 1), (1, 1), (1, 1), (1, 1), (0, 0), (0, 0)]
    tf = lambda x: 'true' if x else 'false'
    C.append(T('method_sets_embedding', MS, V + 'vals := []interface{}{%s}\ni := NondetRange(2, 0, %d)\nv := vals[i]\n_, hv := v.(vm)\n_, hp := v.(pm)\n_, hb := v.(both)\nprintln("m", hv, hp, hb)\nswitch v.(type) {\ncase both:\n\tprintln("s", 2)\ncase vm:\n\tprintln("s", 1)\ndefault:\n\tprintln("s", 0)\n}' % (', '.join(kinds), len(kinds) - 1),
               lambda inp: sel(2, [[('m', [tf(v), tf(p), tf(v and p)]), ('s', [str(2 if (v and p) else 1 if v else 0)])] for v, p in sets])))
    C.append(T('promoted_dispatch_receivers', MS, V + 'c := core{a}\nbv := byVal{c}\nbp := byPtr{&c}\nvar i1 vm = bv\nvar i2 both = bp\nvar i3 both = &bv\nc.n = b\nr1 := i1.V()\nr2 := i2.V()\ni2.P()\ni3.P()\nf := bv.V\ng := bp.P\nbv.n = 77\nh := (*core).P\nk := core.V\nr3 := i3.V()\nr4 := f()\nr5 := g()\nr6 := h(&c)\nr7 := k(c)\nr8 := byVal.V(bv)\nr9 := (*byVal).P(&bv)\nprintln("d", r1, r2, r3, r4, r5, r6, r7, r8, r9, c.n, bv.n)',
               lambda inp: ok([('d', ['in_0', 'in_1', '77', '(+ in_0 1)', '(+ in_1 2)', '(+ in_1 3)', '(+ in_1 3)', '77', '78', '(+ in_1 3)', '78'])])))
    C.append(T('iface_holds_copy', 'type box struct{ n int }\nfunc (b box) get() int { return b.n }\nfunc (b *box) set(v int) { b.n = v }\ntype getter interface{ get() int }\ntype setter interface {\n\tget() int\n\tset(int)\n}\n',
               V + 'x := box{a}\nvar g getter = x\nvar s setter = &x\nx.n = b\ns.set(b + 1)\ny := g.(box)\ny.n = 5\nprintln("c", g.get(), s.get(), x.n, g.(box).n)',
               lambda inp: ok([('c', ['in_0', '(+ in_1 1)', '(+ in_1 1)', 'in_0'])])))
    # ---- interface-to-interface assertions and nil
    C.append(T('iface_to_iface', 'type rd interface{ Read() int }\ntype wr interface{ Write(int) }\ntype rw interface {\n\trd\n\twr\n}\ntype file struct{ n int }\nfunc (f *file) Read() int { return f.n }\nfunc (f *file) Write(v int) { f.n = v }\ntype ro struct{ n int }\nfunc (r ro) Read() int { return r.n }\n',
               V + 'var r rd\nswitch NondetRange(2, 0, 2) {\ncase 0:\n\tr = &file{a}\ncase 1:\n\tr = ro{a}\n}\nw, okw := r.(wr)\n_, okrw := r.(rw)\n_, oke := r.(interface{})\nprintln("a", okw, okrw, oke, r == nil)\nif okw {\n\tw.Write(b)\n\tprintln("w", r.Read())\n}\nprintln("x", r.(rd).Read())',
               lambda inp: [('(= in_2 0)', [('a', ['true', 'true', 'true', 'false']), ('w', ['in_1']), ('x', ['in_1'])], 'normal'),
                            ('(= in_2 1)', [('a', ['false', 'false', 'true', 'false']), ('x', ['in_0'])], 'normal'),
                            ('(= in_2 2)', [('a', ['false', 'false', 'false', 'true'])], ('panic', 'interface conversion'))]))
    C.append(T('nil_pointer_in_iface', 'type node struct{ v int }\nfunc (n *node) val() int {\n\tif n == nil {\n\t\treturn -1\n\t}\n\treturn n.v\n}\ntype valer interface{ val() int }\n',
               V + 'var p *node\nif a > b {\n\tp = &node{a}\n}\nvar i valer = p\nvar e interface{} = p\n_, isn := e.(*node)\nprintln("n", i == nil, i.val(), isn, e == interface{}((*node)(nil)))',
               lambda inp: [('(> in_0 in_1)', [('n', ['false', 'in_0', 'true', 'false'])], 'normal'), ('(<= in_0 in_1)', [('n', ['false', '(- 1)', 'true', 'true'])], 'normal')]))
    # ---- interface equality: dynamic type and value
    C.append(T('iface_equality', 'type pair struct{ x, y int }\ntype id int\n',
               V + 'mk := func(k, v int) interface{} {\n\tswitch k {\n\tcase 0:\n\t\treturn v\n\tcase 1:\n\t\treturn id(v)\n\tcase 2:\n\t\treturn pair{v, 1}\n\tcase 3:\n\t\treturn [2]int{v, 1}\n\tcase 4:\n\t\treturn int8(v)\n\tcase 5:\n\t\treturn "s"\n\t}\n\treturn nil\n}\ni := NondetRange(2, 0, 6)\nj := NondetRange(3, 0, 6)\nprintln("e", mk(i, a) == mk(j, b))',
               lambda inp: ok([('e', ['(and (= in_2 in_3) (or (>= in_2 5) (ite (= in_2 4) (= (mod (+ in_0 128) 256) (mod (+ in_1 128) 256)) (= in_0 in_1))))'])])))
    # ---- cross-package identity and unexported methods
    XP = 'import "verifprog/sub"\ntype T int\nfunc (T) Pub() int { return 10 }\nfunc (T) priv() int { return 20 }\ntype mypriv interface{ priv() int }\n'
    C.append(T('cross_package_identity', XP, V + 'vals := []interface{}{sub.MakeSlice(), sub.MakeStruct(), sub.MakeMap(), sub.MakeFunc(), sub.MakeT(a), sub.MakePair(a, b), T(a), sub.MakeLower()}\ni := NondetRange(2, 0, 7)\nv := vals[i]\nr := -1\nswitch x := v.(type) {\ncase []int:\n\tr = 0\ncase struct{ A, B int }:\n\tr = 1 + x.A - 1\ncase map[string][]int:\n\tr = 2\ncase func(int) string:\n\tr = 3\ncase T:\n\tr = 6\ncase sub.T:\n\tr = 4\ncase sub.Pair:\n\tr = 5\ncase struct{ a int }:\n\tr = 9\n}\n_, p1 := v.(sub.Pub)\n_, p2 := v.(mypriv)\nprintln("r", r, p1, p2, sub.IsPriv(v), v == interface{}(sub.T(a)), v == interface{}(T(a)))',
               lambda inp: sel(2, [[('r', ['0', 'false', 'false', 'false', 'false', 'false'])], [('r', ['1', 'false', 'false', 'false', 'false', 'false'])], [('r', ['2', 'false', 'false', 'false', 'false', 'false'])],
                                   [('r', ['3', 'false', 'false', 'false', 'false', 'false'])], [('r', ['4', 'true', 'false', 'true', 'true', 'false'])], [('r', ['5', 'false', 'false', 'false', 'false', 'false'])],
                                   [('r', ['6', 'true', 'true', 'false', 'false', 'true'])], [('r', ['(- 1)', 'false', 'false', 'false', 'false', 'false'])]],
),
               files={'sub/sub.go': SUB}))
    # ---- type switch details: multi-type cases keep the interface type, nil case, fallthrough-free, default position
    C.append(T('type_switch_binding', 'type str string\n', V + 'vals := []interface{}{a, int8(a), "s", str("t"), nil, 1.5, []byte{1}}\ni := NondetRange(2, 0, 6)\nswitch x := vals[i].(type) {\ndefault:\n\tprintln("d", x != nil)\ncase int, int8:\n\t_, isInt := x.(int)\n\tprintln("n", isInt)\ncase string:\n\tprintln("s", len(x))\ncase str:\n\tprintln("t", len(x)+10)\ncase nil:\n\tprintln("nil", x == nil)\n}',
               lambda inp: sel(2, [[('n', ['true'])], [('n', ['false'])], [('s', ['1'])], [('t', ['11'])], [('nil', ['true'])], [('d', ['true'])], [('d', ['true'])]])))
    C.append(T('assert_panics_message', 'type a1 struct{}\ntype mer interface{ M() }\n', V + 'var v interface{}\nswitch NondetRange(2, 0, 3) {\ncase 0:\n\tv = a1{}\ncase 1:\n\tv = 5\ncase 2:\n\tv = nil\ncase 3:\n\tv = &a1{}\n}\nprintln("s")\nswitch NondetRange(3, 0, 2) {\ncase 0:\n\t_ = v.(a1)\ncase 1:\n\t_ = v.(mer)\ncase 2:\n\t_ = v.(*a1)\n}\nprintln("e")',
               lambda inp: [('(or (and (= in_2 0) (= in_3 0)) (and (= in_2 3) (= in_3 2)))', [('s', []), ('e', [])], 'normal'),
                            ('(not (or (and (= in_2 0) (= in_3 0)) (and (= in_2 3) (= in_3 2))))', [('s', [])], ('panic', 'interface conversion'))]))
    # ---- method values / expressions through interfaces; embedded interface in struct
    C.append(T('method_value_from_iface', 'type sh interface{ area() int }\ntype sq struct{ s int }\nfunc (q sq) area() int { return q.s * q.s }\ntype wrap struct {\n\tsh\n\tk int\n}\n',
               V + 'q := sq{a}\nvar s sh = q\nf := s.area\ng := sh.area\nw := wrap{s, 2}\nq.s = b\ns = sq{b}\nvar s2 sh = w\nprintln("m", f(), g(s), w.area(), s2.area(), wrap.area(w))',
               lambda inp: ok([('m', ['(* in_0 in_0)', '(* in_1 in_1)', '(* in_0 in_0)', '(* in_0 in_0)', '(* in_0 in_0)'])])))
    # ---- dynamic types as map keys (distinct types, equal printed payload)
    C.append(T('dynamic_type_map_keys', 'type t1 int\ntype t2 int\n', V + 'm := map[interface{}]int{}\nm[t1(a)] = 1\nm[t2(a)] = 2\nm[a] = 3\nm[int8(1)] = 4\nm[uint8(1)] = 5\nm["1"] = 6\nm[[1]int{a}] = 7\nm[struct{ v int }{a}] = 8\nprintln("k", len(m), m[t1(a)], m[t2(a)], m[a], m[int8(1)], m[uint8(1)], m[[1]int{a}], m[struct{ v int }{a}], m[t1(b)])',
               lambda inp: ok([('k', ['8', '1', '2', '3', '4', '5', '7', '8', '(ite (= in_0 in_1) 1 0)'])])))
    LK = '//go:noinline\nfunc k1(v int) interface{} {\n\ttype T int\n\treturn T(v)\n}\n//go:noinline\nfunc k2(v int) interface{} {\n\ttype T int\n\treturn T(v)\n}\n'
    C.append(T('same_name_types_as_map_keys', LK, V + 'm := map[interface{}]int{}\nm[k1(a)] = 1\nm[k2(a)] = 2\nm[k1(b)] += 10\nprintln("k", len(m), m[k1(a)], m[k2(a)], k1(a) == k2(a))',
               lambda inp: [('(= in_0 in_1)', [('k', ['2', '11', '2', 'false'])], 'normal'), ('(not (= in_0 in_1))', [('k', ['3', '1', '2', 'false'])], 'normal')]))
    EM = 'type A struct{ v int }\nfunc (a A) M() int { return a.v }\ntype pkgA = A\ntype inner struct{ v int }\nfunc (i inner) N() int { return i.v + 5 }\ntype hasN interface{ N() int }\ntype hasM interface{ M() int }\n'
    C.append(T('same_name_types_embedded_methods', EM, V + 'mk := func() interface{} {\n\ttype A struct{ inner }\n\ttype mid struct{ A }\n\treturn struct {\n\t\tpkgA\n\t\tmid\n\t}{pkgA{a}, mid{A{inner{b}}}}\n}\nv := mk()\n_, m1 := v.(hasM)\nn, n1 := v.(hasN)\nprintln("s", m1, n1)\nprintln("n", n.N())',
               lambda inp: ok([('s', ['true', 'true']), ('n', ['(+ in_1 5)'])])))
    return C


def main():
    tier = core.tier()
    cases = build_cases(tier)
    only = os.environ.get('VERIF_ONLY')
    if only:
        import re
        cases = [c for c in cases if re.search(only, c.tag)]
    return runner.run_property('C09', cases, tier=tier, chunk=1,
                               title='type-family templates: dynamic type identity, assertions / type switches against interfaces, method sets through embedding, dispatch and receiver copying, interface equality',
                               bounds={'selectors': 'every combination of the listed dynamic types (<= 16 per template) and assertion targets', 'payloads': 'all int16 pairs',
                                       'outside': 'type families not in the corpus; reflection (reflect does not build in this sandbox)'},
                               cfg={'maxDepth': 600, 'maxPaths': 20000, 'timeoutMs': 20000, 'maxWallMs': 600000})


if __name__ == '__main__':
    sys.exit(main())
