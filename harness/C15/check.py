"""C15 — maps use Go key equality for every comparable key type.

Two symbolic keys k1, k2 of a key type are inserted/overwritten/deleted/looked up; the printed lengths and values must be
those Go's == dictates, for ALL key values.  This exercises every keyFor in the prelude (identity, "$"+string, $floatKey,
high$low, escaped joins for arrays/structs, $ifaceKeyFor) together with the emitted map code, executed symbolically.
Operation histories are chosen by a symbolic opcode sequence."""
import os, sys
sys.path.insert(0, os.path.dirname(os.path.dirname(os.path.dirname(os.path.abspath(__file__)))))
from vlib import core, tv, runner


def str_eq(inp, i, j):
    a, b = [], []
    k = 0
    while ('in_%d_%d' % (i, k)) in inp:
        a.append('in_%d_%d' % (i, k)); k += 1
    k = 0
    while ('in_%d_%d' % (j, k)) in inp:
        b.append('in_%d_%d' % (j, k)); k += 1
    if len(a) != len(b):
        return 'false'
    if not a:
        return 'true'
    return '(and %s)' % ' '.join('(= %s %s)' % (x, y) for x, y in zip(a, b))


def probe(decl_k1, decl_k2, ktype, extra=''):
    """the standard two-key probe; prints len, m[k1], m[k2], presence of k2 after deleting k1"""
    return (decl_k1 + '\n' + decl_k2 + '\n' + extra +
            'm := map[%s]int{}\nm[k1] = 1\nm[k2] += 2\nv2, ok2 := m[k2]\nprintln("a", len(m), m[k1], v2, ok2)\ndelete(m, k1)\n_, ok3 := m[k2]\nprintln("b", len(m), ok3)' % ktype)


def probe_alts(eq):
    return [(eq, [('a', ['1', '3', '3', 'true']), ('b', ['0', 'false'])], 'normal'),
            ('(not %s)' % eq, [('a', ['2', '1', '2', 'true']), ('b', ['1', 'true'])], 'normal')]


def build_cases(tier):
    C = []
    T = tv.trace_case
    S = 1 if tier == 'quick' else 2       # symbolic string length bound
    # scalar kinds
    for t, nd in [('int8', 'Int8'), ('uint8', 'Uint8'), ('int16', 'Int16'), ('int32', 'Int32'), ('uint32', 'Uint32'), ('int', 'Int'), ('uintptr', 'Uintptr'),
                  ('int64', 'Int64'), ('uint64', 'Uint64')]:
        C.append(T('key_' + t, '', probe('k1 := Nondet%s(0)' % nd, 'k2 := Nondet%s(1)' % nd, t), lambda inp: probe_alts('(= in_0 in_1)')))
    C.append(T('key_bool', '', probe('k1 := NondetBool(0)', 'k2 := NondetBool(1)', 'bool'), lambda inp: probe_alts('(= in_0 in_1)')))
    C.append(T('key_string', '', probe('k1 := NondetString(0, %d)' % (S + 1), 'k2 := NondetString(1, %d)' % (S + 1), 'string'), lambda inp: probe_alts(str_eq(inp, 0, 1))))
    C.append(T('key_named_string', 'type name string\n', probe('k1 := name(NondetString(0, %d))' % S, 'k2 := name(NondetString(1, %d))' % S, 'name'), lambda inp: probe_alts(str_eq(inp, 0, 1))))
    # floats: NaN never equal, +0 == -0
    feq = '(fp.eq in_0 in_1)'
    C.append(T('key_float64', '', probe('k1 := NondetFloat64(0)', 'k2 := NondetFloat64(1)', 'float64').replace('println("a", len(m), m[k1], v2, ok2)', 'println("a", len(m), v2, ok2)').replace('_, ok3 := m[k2]\nprintln("b", len(m), ok3)', 'println("b", len(m))'),
               lambda inp: [(feq, [('a', ['1', '3', 'true']), ('b', ['0'])], 'normal'),
                            ('(and (not %s) (not (fp.isNaN in_0)) (not (fp.isNaN in_1)))' % feq, [('a', ['2', '2', 'true']), ('b', ['1'])], 'normal'),
                            ('(and (fp.isNaN in_0) (not (fp.isNaN in_1)))', [('a', ['2', '2', 'true']), ('b', ['2'])], 'normal'),
                            ('(and (not (fp.isNaN in_0)) (fp.isNaN in_1))', [('a', ['2', '0', 'false']), ('b', ['1'])], 'normal'),
                            ('(and (fp.isNaN in_0) (fp.isNaN in_1))', [('a', ['2', '0', 'false']), ('b', ['2'])], 'normal')]))
    # complex keys: equal iff both parts are equal as floats; a NaN in either part makes the key unequal to every key, itself included
    nan1, nan2 = '(or (fp.isNaN in_0) (fp.isNaN in_1))', '(or (fp.isNaN in_2) (fp.isNaN in_3))'
    ceq = '(and (fp.eq in_0 in_2) (fp.eq in_1 in_3))'
    C.append(T('key_complex128', '', probe('k1 := complex(NondetFloat64(0), NondetFloat64(1))', 'k2 := complex(NondetFloat64(2), NondetFloat64(3))', 'complex128').replace('println("a", len(m), m[k1], v2, ok2)', 'println("a", len(m), v2, ok2)').replace('_, ok3 := m[k2]\nprintln("b", len(m), ok3)', 'println("b", len(m))'),
               lambda inp: [(ceq, [('a', ['1', '3', 'true']), ('b', ['0'])], 'normal'),
                            ('(and (not %s) (not %s) (not %s))' % (ceq, nan1, nan2), [('a', ['2', '2', 'true']), ('b', ['1'])], 'normal'),
                            ('(and %s (not %s))' % (nan1, nan2), [('a', ['2', '2', 'true']), ('b', ['2'])], 'normal'),
                            ('(and (not %s) %s)' % (nan1, nan2), [('a', ['2', '0', 'false']), ('b', ['1'])], 'normal'),
                            ('(and %s %s)' % (nan1, nan2), [('a', ['2', '0', 'false']), ('b', ['2'])], 'normal')]))
    # arrays and structs: element-wise, with separator/escape characters inside string components
    C.append(T('key_array_int', '', probe('k1 := [2]int16{NondetInt16(0), NondetInt16(1)}', 'k2 := [2]int16{NondetInt16(2), NondetInt16(3)}', '[2]int16'),
               lambda inp: probe_alts('(and (= in_0 in_2) (= in_1 in_3))')))
    C.append(T('key_array_string', '', probe('k1 := [2]string{NondetString(0, %d), NondetString(1, %d)}' % (S, S), 'k2 := [2]string{NondetString(2, %d), NondetString(3, %d)}' % (S, S), '[2]string'),
               lambda inp: probe_alts('(and %s %s)' % (str_eq(inp, 0, 2), str_eq(inp, 1, 3)))))
    C.append(T('key_struct', 'type skey struct {\n\ta int8\n\ts string\n\tb bool\n}\n',
               probe('k1 := skey{NondetInt8(0), NondetString(1, %d), NondetBool(2)}' % S, 'k2 := skey{NondetInt8(3), NondetString(4, %d), NondetBool(5)}' % S, 'skey'),
               lambda inp: probe_alts('(and (= in_0 in_3) %s (= in_2 in_5))' % str_eq(inp, 1, 4))))
    C.append(T('key_nested', 'type inner struct{ x, y string }\ntype nkey struct {\n\tin inner\n\tar [2]uint8\n}\n',
               probe('k1 := nkey{inner{NondetString(0, %d), NondetString(1, %d)}, [2]uint8{NondetUint8(2), 7}}' % (S, S),
                     'k2 := nkey{inner{NondetString(3, %d), NondetString(4, %d)}, [2]uint8{NondetUint8(5), 7}}' % (S, S), 'nkey'),
               lambda inp: probe_alts('(and %s %s (= in_2 in_5))' % (str_eq(inp, 0, 3), str_eq(inp, 1, 4)))))
    C.append(T('key_struct_int64', 'type wkey struct {\n\th int64\n\tu uint32\n}\n', probe('k1 := wkey{NondetInt64(0), NondetUint32(1)}', 'k2 := wkey{NondetInt64(2), NondetUint32(3)}', 'wkey'),
               lambda inp: probe_alts('(and (= in_0 in_2) (= in_1 in_3))')))
    # interface keys: dynamic type and value
    C.append(T('key_iface', 'type myint int32\n', '''var k1, k2 interface{}
switch NondetRange(0, 0, 3) {
case 0:
	k1 = NondetInt32(1)
case 1:
	k1 = myint(NondetInt32(1))
case 2:
	k1 = NondetString(1, %d)
case 3:
	k1 = nil
}
switch NondetRange(2, 0, 3) {
case 0:
	k2 = NondetInt32(3)
case 1:
	k2 = myint(NondetInt32(3))
case 2:
	k2 = NondetString(3, %d)
case 3:
	k2 = nil
}
m := map[interface{}]int{}
m[k1] = 1
m[k2] += 2
println("a", len(m), m[k1], k1 == k2)''' % (S, S),
               lambda inp: (lambda e: [(e, [('a', ['1', '3', 'true'])], 'normal'), ('(not %s)' % e, [('a', ['2', '1', 'false'])], 'normal')])(
                   '(and (= in_0 in_2) (or (= in_0 3) %s %s))' % (
                       '(and (< in_0 2) (= in_1 in_3))' if ('in_1' in inp and 'in_3' in inp) else 'false',
                       '(and (= in_0 2) %s)' % str_eq(inp, 1, 3) if ('in_1_len' in inp and 'in_3_len' in inp) else 'false'))))
    C.append(T('key_iface_unhashable', '', 'var k interface{} = 1\nif NondetBool(0) {\n\tk = []int{1}\n}\nm := map[interface{}]int{}\nprintln("a")\nm[k] = 1\nprintln("b", len(m))',
               lambda inp: [('(not in_0)', [('a', []), ('b', ['1'])], 'normal'), ('in_0', [('a', [])], ('panic', ''))]))
    # pointers and channels: identity
    C.append(T('key_pointer', '', 'x, y := 1, 1\nps := [2]*int{&x, &y}\nk1 := ps[NondetRange(0, 0, 1)]\nk2 := ps[NondetRange(1, 0, 1)]\nm := map[*int]int{}\nm[k1] = 1\nm[k2] += 2\nprintln("a", len(m), m[k1])',
               lambda inp: [('(= in_0 in_1)', [('a', ['1', '3'])], 'normal'), ('(not (= in_0 in_1))', [('a', ['2', '1'])], 'normal')]))
    # operation histories chosen by symbolic opcodes over three int8 keys
    nops = 3 if tier == 'quick' else 4
    body = ['m := map[int8]int{}', 'ks := [3]int8{NondetInt8(0), NondetInt8(1), NondetInt8(2)}', 'sum := 0']
    for i in range(nops):
        body.append('switch NondetRange(%d, 0, 2) {\ncase 0:\n\tm[ks[%d]] = %d\ncase 1:\n\tdelete(m, ks[%d])\ncase 2:\n\tsum += m[ks[%d]]\n}' % (10 + i, i % 3, i + 1, (i + 1) % 3, (i + 2) % 3))
    body.append('println("h", len(m), sum)')

    def t_hist(inp):
        # reference: an association list over the three symbolic keys, unrolled symbolically
        ks = ['in_0', 'in_1', 'in_2']
        present = ['false'] * 3      # is ks[j]'s *value class* present, tracked per key slot via equality
        # model: map as function from key value to (present, value); we track for each of the three key terms
        pres = {k: 'false' for k in ks}
        val = {k: '0' for k in ks}
        ssum = '0'
        for i in range(nops):
            op = 'in_%d' % (10 + i)
            ki, kd, kl = ks[i % 3], ks[(i + 1) % 3], ks[(i + 2) % 3]
            npres, nval = {}, {}
            for k in ks:
                ins = '(and (= %s 0) (= %s %s))' % (op, k, ki)
                dele = '(and (= %s 1) (= %s %s))' % (op, k, kd)
                npres[k] = '(ite %s true (ite %s false %s))' % (ins, dele, pres[k])
                nval[k] = '(ite %s %d (ite %s 0 %s))' % (ins, i + 1, dele, val[k])
            ssum = '(+ %s (ite (and (= %s 2) %s) %s 0))' % (ssum, op, pres[kl], val[kl])
            pres, val = npres, nval
        # len = number of distinct present key values
        p0, p1, p2 = pres['in_0'], pres['in_1'], pres['in_2']
        ln = '(+ (ite %s 1 0) (ite (and %s (not (and %s (= in_1 in_0)))) 1 0) (ite (and %s (not (and %s (= in_2 in_0))) (not (and %s (= in_2 in_1)))) 1 0))' % (p0, p1, p0, p2, p0, p1)
        return [('true', [('h', [ln, ssum])], 'normal')]
    C.append(T('history_int8', '', '\n'.join(body), t_hist))
    # range with deletion: an entry deleted before it is reached is not visited; every other entry exactly once
    C.append(T('range_delete', '', 'm := map[int]int{1: 10, 2: 20, 3: 30}\nd := NondetRange(0, 1, 4)\nn, s := 0, 0\nfirst := true\nfor k, v := range m {\n\tif first {\n\t\tfirst = false\n\t\tif k != d {\n\t\t\tdelete(m, d)\n\t\t}\n\t}\n\tn++\n\ts += v\n}\nprintln("r", n, s, len(m))',
               lambda inp: [('(= in_0 4)', [('r', ['3', '60', '3'])], 'normal'),
                            ('(and (<= 1 in_0) (<= in_0 3))', None, 'normal')]))
    C.append(T('map_literal_key_copy', 'type pk struct{ x, y int }\n', 'a := int(NondetInt16(0))\nb := int(NondetInt16(1))\np := pk{a, 1}\narr := [2]int{a, 2}\nm := map[pk]int{p: 1}\nn := map[[2]int]int{arr: 2}\nvar e interface{} = p\nq := map[interface{}]int{e: 3}\np.x = b\narr[0] = b\nsum := 0\nfor k := range m {\n\tsum += k.x\n}\nfor k := range n {\n\tsum += k[0] * 3\n}\nprintln("k", sum, m[pk{a, 1}], n[[2]int{a, 2}], q[pk{a, 1}], len(m))',
               lambda inp: [('true', [('k', ['(* 4 in_0)', '1', '2', '3', '1'])], 'normal')]))
    return C


def main():
    tier = core.tier()
    cases = build_cases(tier)
    # range_delete has an order-dependent reference; handled by a custom trace function
    for c in cases:
        if c.tag == 'range_delete':
            def trace(evs, end, inp):
                if end[0] != 'normal' or len(evs) != 1 or evs[0]['tag'] != 'r':
                    return 'false'
                n, s, l = [a[0] for a in evs[0]['args']]
                # d == 4: nothing deleted.  otherwise: if the first visited key is d nothing is deleted (3, 60, 3), else d is
                # removed before being reached (2 entries visited, sum 60 - 10 d) -- Go leaves the iteration order open, so both are allowed
                return '(or (and (= in_0 4) (= %s 3) (= %s 60) (= %s 3)) (and (<= 1 in_0) (<= in_0 3) (or (and (= %s 3) (= %s 60) (= %s 3)) (and (= %s 2) (= %s (- 60 (* 10 in_0))) (= %s 2)))))' % (n, s, l, n, s, l, n, s, l)
            c.ref = lambda names, trace=trace: {'trace': trace}
    only = os.environ.get('VERIF_ONLY')
    if only:
        import re
        cases = [c for c in cases if re.search(only, c.tag)]
    return runner.run_property('C15', cases, tier=tier, chunk=1,
                               title='map key equality (keyFor injectivity and soundness) and map operation histories vs Go ==, for all key values',
                               bounds={'keys': 'all values of every listed key type; symbolic strings up to %d byte(s) per component (every byte 0..255, so separator and escape characters are included)' % (1 if tier == 'quick' else 2),
                                       'histories': '%d symbolic operations (insert/delete/lookup) over three symbolic int8 keys' % (3 if tier == 'quick' else 4),
                                       'outside': 'number formatting: decimal renderings of symbolic numbers are opaque segments compared by value (Number::toString is injective up to +-0/NaN and emits no "$" or "\\\\")'},
                               cfg={'maxDepth': 800, 'maxPaths': 20000, 'timeoutMs': 20000, 'maxWallMs': 600000})


if __name__ == '__main__':
    sys.exit(main())
