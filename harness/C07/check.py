"""C07 — arrays and structs are values; pointers, slices and maps alias.

Alias probes: a symbolic value is copied in some context (or aliased through a pointer/slice/map/closure), one side is
then mutated with a second symbolic value, and both sides are printed.  The emitted JavaScript ($clone / type.copy /
receiver proxies / $append / $growSlice / $subslice / pointer objects) is executed symbolically; z3 compares the
printed values with what the Go specification says for every pair of values (and every symbolic index/length)."""
import os, sys
sys.path.insert(0, os.path.dirname(os.path.dirname(os.path.dirname(os.path.abspath(__file__)))))
from vlib import core, tv, runner

TYPES = '''
type inner struct{ a, b int }
type outer struct {
	in  inner
	arr [2]int
	n   int
}
type emb struct {
	inner
	z int
}
type named [2]inner

//go:noinline
func byValue(o outer, v int) int { o.in.a = v; o.arr[1] = v; return o.in.a + o.arr[1] }

//go:noinline
func retValue(p *outer) outer { return *p }

func (o outer) valueMethod(v int) int { o.n = v; o.in.b = v; return o.n }
func (o *outer) ptrMethod(v int)    { o.n = v; o.in.b = v }

//go:noinline
func box(v interface{}) interface{} { return v }
'''


def build_cases(tier):
    C = []
    T = tv.trace_case
    V = 'a := int(NondetInt16(0))\nb := int(NondetInt16(1))\n'
    ok = lambda evs: [('true', evs, 'normal')]
    # ---- copying contexts: mutation of either side is invisible to the other
    C.append(T('copy_assign_struct', TYPES, V + 'x := outer{in: inner{a, 1}, arr: [2]int{a, 2}, n: 3}\ny := x\ny.in.a = b\ny.arr[0] = b\nx.n = b\nprintln("x", x.in.a, x.arr[0], x.n)\nprintln("y", y.in.a, y.arr[0], y.n)',
               lambda inp: ok([('x', ['in_0', 'in_0', 'in_1']), ('y', ['in_1', 'in_1', '3'])])))
    C.append(T('copy_assign_array', TYPES, V + 'x := named{{a, 1}, {2, a}}\nvar y named\ny = x\ny[0].a = b\nx[1].b = b\nprintln("x", x[0].a, x[1].b)\nprintln("y", y[0].a, y[1].b)',
               lambda inp: ok([('x', ['in_0', 'in_1']), ('y', ['in_1', 'in_0'])])))
    C.append(T('copy_call_arg', TYPES, V + 'x := outer{in: inner{a, 1}, arr: [2]int{5, a}}\nr := byValue(x, b)\nprintln("x", x.in.a, x.arr[1], r)',
               lambda inp: ok([('x', ['in_0', 'in_0', '(* 2 in_1)'])])))
    C.append(T('copy_return', TYPES, V + 'x := &outer{in: inner{a, 1}, n: a}\ny := retValue(x)\ny.in.a = b\nx.n = b\nprintln("x", x.in.a, x.n)\nprintln("y", y.in.a, y.n)',
               lambda inp: ok([('x', ['in_0', 'in_1']), ('y', ['in_1', 'in_0'])])))
    C.append(T('copy_range_value', TYPES, V + 'xs := []inner{{a, 1}, {2, a}}\nfor _, e := range xs {\n\te.a = b\n}\narr := [2]inner{{a, 1}, {a, 2}}\nfor i, e := range arr {\n\tarr[1].a = b\n\tprintln("e", i, e.a)\n}\nprintln("xs", xs[0].a, xs[1].a, arr[1].a)',
               lambda inp: ok([('e', ['0', 'in_0']), ('e', ['1', 'in_0']), ('xs', ['in_0', '2', 'in_1'])])))
    C.append(T('copy_send', TYPES, V + 'c := make(chan inner, 1)\nx := inner{a, 1}\nc <- x\nx.a = b\ny := <-c\nprintln("y", y.a, x.a)',
               lambda inp: ok([('y', ['in_0', 'in_1'])])))
    C.append(T('copy_select_send', TYPES, V + 'c := make(chan [2]int, 1)\nx := [2]int{a, 1}\nselect {\ncase c <- x:\ndefault:\n}\nx[0] = b\ny := <-c\nprintln("y", y[0], x[0])',
               lambda inp: ok([('y', ['in_0', 'in_1'])])))
    C.append(T('copy_map_store', TYPES, V + 'm := map[int]inner{}\nx := inner{a, 1}\nm[1] = x\nx.a = b\ny := m[1]\ny.b = b\nprintln("m", m[1].a, m[1].b, x.a, y.b)',
               lambda inp: ok([('m', ['in_0', '1', 'in_1', 'in_1'])])))
    C.append(T('copy_slice_store', TYPES, V + 's := make([]outer, 2)\nx := outer{n: a}\ns[0] = x\nx.n = b\ns[1] = s[0]\ns[1].arr[0] = b\nprintln("s", s[0].n, s[0].arr[0], s[1].arr[0], x.n)',
               lambda inp: ok([('s', ['in_0', '0', 'in_1', 'in_1'])])))
    C.append(T('copy_field_store', TYPES, V + 'var o outer\ni := inner{a, a}\no.in = i\ni.a = b\no.in.b = b\nar := [2]int{a, a}\no.arr = ar\nar[0] = b\nprintln("o", o.in.a, o.in.b, i.b, o.arr[0])',
               lambda inp: ok([('o', ['in_0', 'in_1', 'in_0', 'in_0'])])))
    C.append(T('copy_iface_box', TYPES, V + 'x := inner{a, 1}\nv := box(x)\nx.a = b\ny := v.(inner)\ny.b = b\nz := v.(inner)\nprintln("v", y.a, z.b, x.a)',
               lambda inp: ok([('v', ['in_0', '1', 'in_1'])])))
    C.append(T('copy_iface_array', TYPES, V + 'x := [2]int{a, 1}\nvar v interface{} = x\nx[0] = b\ny := v.([2]int)\nprintln("v", y[0], x[0])',
               lambda inp: ok([('v', ['in_0', 'in_1'])])))
    C.append(T('copy_method_value', TYPES, V + 'x := outer{n: a}\nf := x.valueMethod\nx.n = b\nr := f(7)\nprintln("m", r, x.n, x.in.b)',
               lambda inp: ok([('m', ['7', 'in_1', '0'])])))
    C.append(T('copy_value_receiver', TYPES, V + 'x := outer{n: a}\nr := x.valueMethod(b)\np := &x\nr2 := p.valueMethod(b)\nprintln("m", r, r2, x.n, x.in.b)',
               lambda inp: ok([('m', ['in_1', 'in_1', 'in_0', '0'])])))
    C.append(T('copy_embedded', TYPES, V + 'x := emb{inner{a, 1}, 2}\ny := x\ny.a = b\ni := x.inner\ni.b = b\nprintln("e", x.a, x.b, y.a, i.b)',
               lambda inp: ok([('e', ['in_0', '1', 'in_1', 'in_1'])])))
    C.append(T('copy_array_of_arrays', '', V + 'x := [2][2]int{{a, 1}, {2, 3}}\ny := x\ny[0][0] = b\nrow := x[1]\nrow[0] = b\nprintln("x", x[0][0], x[1][0], y[0][0], row[0])',
               lambda inp: ok([('x', ['in_0', '2', 'in_1', 'in_1'])])))
    C.append(T('copy_closure_capture_value', TYPES, V + 'x := inner{a, 1}\ny := x\nf := func() int { return y.a }\nx.a = b\nprintln("c", f(), x.a)',
               lambda inp: ok([('c', ['in_0', 'in_1'])])))
    C.append(T('copy_composite_elem', TYPES, V + 'i := inner{a, 1}\no := outer{in: i}\ns := []inner{i, i}\ni.a = b\nprintln("c", o.in.a, s[0].a, s[1].a)\ns[0].a = b\nprintln("d", s[1].a)',
               lambda inp: ok([('c', ['in_0', 'in_0', 'in_0']), ('d', ['in_0'])])))
    C.append(T('copy_deref', TYPES, V + 'p := &inner{a, 1}\nx := *p\np.a = b\nq := &x\nq.b = b\nprintln("d", x.a, x.b, p.b)',
               lambda inp: ok([('d', ['in_0', 'in_1', '1'])])))
    # ---- aliasing contexts: mutation through any alias is visible through all
    C.append(T('alias_ptr_field', TYPES, V + 'x := outer{in: inner{a, 1}}\np := &x.in\nq := &x.in.a\n*q = b\np.b = b\nr := &x.arr[1]\n*r = b\nprintln("x", x.in.a, x.in.b, x.arr[1], p.a)',
               lambda inp: ok([('x', ['in_1', 'in_1', 'in_1', 'in_1'])])))
    C.append(T('alias_ptr_method', TYPES, V + 'x := outer{n: a}\nx.ptrMethod(b)\nf := x.ptrMethod\nprintln("x", x.n, x.in.b)\nf(a)\nprintln("y", x.n)',
               lambda inp: ok([('x', ['in_1', 'in_1']), ('y', ['in_0'])])))
    C.append(T('alias_slice_elem_ptr', TYPES, V + 's := []inner{{a, 1}, {2, 3}}\np := &s[1]\np.a = b\nt := s[1:]\nt[0].b = b\nprintln("s", s[1].a, s[1].b, t[0].a)',
               lambda inp: ok([('s', ['in_1', 'in_1', 'in_1'])])))
    C.append(T('alias_subslice', '', V + 'i := NondetRange(2, 0, 3)\ns := []int{a, a, a, a}\nt := s[1:3]\ns[i] = b\nprintln("t", t[0], t[1], len(t), cap(t))\nt = append(t, 9)\nprintln("s", s[3])',
               lambda inp: ok([('t', ['(ite (= in_2 1) in_1 in_0)', '(ite (= in_2 2) in_1 in_0)', '2', '3']), ('s', ['9'])])))
    C.append(T('alias_append_cap', '', V + 'n := NondetRange(2, 0, 3)\ns := make([]int, 2, 4)\ns[0] = a\nt := s\nfor k := 0; k < n; k++ {\n\tt = append(t, k)\n}\nt[0] = b\nprintln("s", s[0], len(t), cap(t) >= len(t))',
               lambda inp: ok([('s', ['(ite (<= in_2 2) in_1 in_0)', '(+ 2 in_2)', 'true'])])))
    C.append(T('alias_append_struct_realloc', TYPES, V + 's := []inner{{a, 1}}\nt := append(s, inner{2, 2})\ns[0].a = b\nprintln("t", t[0].a, s[0].a, len(t))',
               lambda inp: ok([('t', ['in_0', 'in_1', '2'])])))
    C.append(T('alias_map', TYPES, V + 'm := map[string]*inner{"k": {a, 1}}\nn := m\nn["k"].a = b\nn["j"] = &inner{b, b}\nprintln("m", m["k"].a, len(m), m["j"].b)',
               lambda inp: ok([('m', ['in_1', '2', 'in_1'])])))
    C.append(T('alias_closure', '', V + 'x := a\ninc := func() { x = b }\nget := func() int { return x }\np := &x\ninc()\nprintln("c", x, get(), *p)\n*p = a\nprintln("d", get())',
               lambda inp: ok([('c', ['in_1', 'in_1', 'in_1']), ('d', ['in_0'])])))
    C.append(T('alias_pkg_var', [TYPES, 'var pkgVar = inner{1, 2}\nvar pkgArr [3]int\n//go:noinline\nfunc pv() *inner { return &pkgVar }\n'], V + 'p := pv()\np.a = a\nq := &pkgArr[2]\n*q = b\ncp := pkgVar\ncp.a = b\nprintln("p", pkgVar.a, pkgArr[2], cp.a)',
               lambda inp: ok([('p', ['in_0', 'in_1', 'in_1'])])))
    C.append(T('alias_array_ptr', '', V + 'x := [3]int{a, a, a}\np := &x\np[1] = b\ns := x[:]\ns[2] = b\nfor i := range p {\n\tp[i]++\n}\nprintln("x", x[0], x[1], x[2])',
               lambda inp: ok([('x', ['(+ in_0 1)', '(+ in_1 1)', '(+ in_1 1)'])])))
    C.append(T('alias_copy_builtin', TYPES, V + 'src := []inner{{a, 1}, {a, 2}}\ndst := make([]inner, 2)\ncopy(dst, src)\nsrc[0].a = b\ndst[1].b = b\ncopy(src[1:], src[:1])\nprintln("c", dst[0].a, src[1].b, src[1].a, dst[1].b)',
               lambda inp: ok([('c', ['in_0', '1', 'in_1', 'in_1'])])))
    # a variable that already has aliases is overwritten as a whole by a composite literal: the aliases see the new value
    C.append(T('alias_reassign_composite', [TYPES, 'var pkgStruct = inner{1, 2}\n'], V + 'x := inner{a, 1}\np := &x\nfp := &x.b\nx = inner{b, 2}\narr := [2]int{a, 1}\ns := arr[:]\narr = [2]int{b, 2}\no := outer{n: a}\nf := o.ptrMethod\no = outer{n: 5}\nf(b)\nq := &pkgStruct\npkgStruct = inner{a, b}\nprintln("r", p.a, p.b, *fp, s[0], s[1], o.n, q.a, q.b)',
               lambda inp: ok([('r', ['in_1', '2', '2', 'in_1', '2', 'in_1', 'in_0', 'in_1'])])))
    return C


def main():
    tier = core.tier()
    cases = build_cases(tier)
    only = os.environ.get('VERIF_ONLY')
    if only:
        import re
        cases = [c for c in cases if re.search(only, c.tag)]
    return runner.run_property('C07', cases, tier=tier, chunk=2,
                               title='value vs reference semantics: alias probes on every copying and aliasing context, compared with the Go specification for all stored values',
                               bounds={'values': 'all int16 pairs (a, b)', 'shapes': 'the listed struct/array shapes (nesting depth <= 3), slices of length <= 4',
                                       'outside': 'type shapes not in the corpus'},
                               cfg={'maxDepth': 400, 'maxPaths': 2000, 'timeoutMs': 20000})


if __name__ == '__main__':
    sys.exit(main())
