//go:build verif

package analysis

import (
	"go/ast"
	"go/parser"
	"go/token"
	"go/types"
)

const vEscSrc = `package p

func f(n int) func() int {
	total := 0
	for i := 0; i < n; i++ {
		v := i * 2
		w := i + 1
		x := i
		p := &w
		g := func() int { return v + x + *p }
		total += g()
	}
	a, b := 1, 2
	return func() int { return a + b + total }
}
`

// Whatever order Go's maps are iterated in, EscapingObjects reports the escaping variables in one fixed order (their first use in the
// syntax tree), so that the identifiers allocated for them - and hence the emitted JavaScript - do not depend on map iteration.
func VHarness_EscapingObjectsOrder() {
	fset := token.NewFileSet()
	file, err := parser.ParseFile(fset, "a.go", vEscSrc, 0)
	VAssert(err == nil, "the sample parses")
	info := &types.Info{Defs: map[*ast.Ident]types.Object{}, Uses: map[*ast.Ident]types.Object{}, Scopes: map[ast.Node]*types.Scope{}, Types: map[ast.Expr]types.TypeAndValue{}}
	conf := types.Config{}
	_, err = conf.Check("p", fset, []*ast.File{file}, info)
	VAssert(err == nil, "the sample type-checks")
	fn := file.Decls[0].(*ast.FuncDecl)
	loop := fn.Body.List[1].(*ast.ForStmt)
	VMapOrder(true) // every map iteration inside the analysis runs under every permutation
	got := EscapingObjects(loop.Body, info)
	VMapOrder(false)
	var names []string
	for _, o := range got {
		names = append(names, o.Name())
	}
	VAssert(len(names) == 4, "four variables of the loop body escape")
	if len(names) == 4 {
		VAssert(names[0] == "w" && names[1] == "v" && names[2] == "x" && names[3] == "p", "the order is the order of first escaping use in the syntax tree")
	}
	VReach("escape-order-checked")
}
