//go:build verif

package sources

import (
	"go/ast"
	"go/token"
)

var vFileNames = [...]string{"a.go", "b.go", "c_test.go", "z.go"}
var vPermNames = [...]string{"perm0", "perm1", "perm2"}

// Sort puts the files in one order that depends only on their names, whatever order they were listed or discovered in.
func VHarness_SourcesSortCanonical() {
	fset := token.NewFileSet()
	var files []*ast.File
	for _, n := range vFileNames {
		f := fset.AddFile(n, -1, 10)
		files = append(files, &ast.File{Package: f.Pos(0), Name: ast.NewIdent("p")})
	}
	// an arbitrary permutation of the input (symbolic choices)
	rest := append([]*ast.File{}, files...)
	var in []*ast.File
	for i := 0; len(rest) > 1; i++ {
		k := VNondetInt(vPermNames[i], 0, len(rest)-1)
		in = append(in, rest[k])
		rest = append(rest[:k], rest[k+1:]...)
	}
	in = append(in, rest[0])
	s := &Sources{Files: in, FileSet: fset}
	s.Sort()
	for i := 1; i < len(s.Files); i++ {
		VAssert(s.getFileName(s.Files[i-1]) > s.getFileName(s.Files[i]), "the files end up in descending name order for every input order")
	}
	VAssert(len(s.Files) == len(vFileNames), "no file is lost")
	VReach("sources-sort-checked")
}
