"""C17 — builds are reproducible (kernel level).

gosym engine with SYMBOLIC MAP ITERATION ORDER: every `range` over a map inside the analysed code is executed under every permutation of
its entries (one solver-enumerated choice per position).  Each order-canonicalisation site that has a harness must produce the same
result under all of them."""
import os, sys
sys.path.insert(0, os.path.dirname(os.path.dirname(os.path.dirname(os.path.abspath(__file__)))))
from vlib import core, gokernel

STD = ['strings', 'unicode/utf8', 'unicode', 'internal/bytealg', 'errors', 'fmt', 'sort', 'slices', 'bytes', 'io', 'strconv', 'go/token', 'go/scanner', 'go/parser', 'go/ast', 'go/types', 'go/constant', 'math/big', 'math', 'math/bits',
       'internal/godebugs', 'internal/godebug', 'go/version', 'internal/types/errors', 'path/filepath', 'container/heap', 'internal/goversion', 'go/build/constraint', 'cmp', 'iter', 'maps', 'sync', 'sync/atomic', 'internal/lazyregexp', 'regexp', 'regexp/syntax', 'text/tabwriter', 'go/internal/typeparams', 'internal/abi', 'unicode/utf16', 'os', 'io/fs', 'time', 'path']


def kernels():
    G = 'github.com/gopherjs/gopherjs/'
    return [gokernel.Kernel('C17', 'compiler/internal/analysis', ['escape_harness.go'], init=[G + 'compiler/internal/analysis'] + STD),
            gokernel.Kernel('C17', 'compiler/internal/dce', ['order_harness_dce.go'], init=[G + 'compiler/internal/dce'] + STD),
            gokernel.Kernel('C17', 'compiler/sources', ['order_harness_sources.go'], init=[G + 'compiler/sources'] + STD),
            gokernel.Kernel('C17', 'compiler/internal/typeparams', ['order_harness_instances.go', 'order_harness_collector.go'], init=[G + 'compiler/internal/typeparams', 'golang.org/x/tools/go/types/typeutil'] + STD)]


OBS_MAIN = '''package main

import (
	"verifprog/gsub"
	"verifprog/gsub2"
	"verifprog/sub"
)

var first = initFirst()

func initFirst() int { return second + 1 }

type T struct{ a, b int }

func (t T) M() int  { return t.a }
func (t *T) P() int { return t.b }

type I interface{ M() int }

func gen[K comparable, V any](m map[K]V) int { return len(m) }

func main() {
	total := 0
	var fs []func() int
	for i := 0; i < 3; i++ {
		v := i * 2
		w := i + 1
		x := i
		p := &w
		fs = append(fs, func() int { return v + x + *p })
		{
			v := w
			x := &v
			fs = append(fs, func() int { return *x })
		}
	}
	for _, f := range fs {
		total += f()
	}
	var i I = T{1, 2}
	m := map[string]int{"a": 1}
	n := map[int]string{1: "x"}
	println(total, i.M(), gen(m), gen(n), sub.F(3), sub.G[int8](4), sub.G[string]("s"), gsub.A(1), gsub2.D("s"), first, T{}.Extra())
}
'''
OBS_GEN = {'other/o.go': 'package other\n\nfunc B[T any](v T) T { return v }\n', 'gsub/s.go': 'package gsub\n\nimport "verifprog/other"\n\nfunc A[T any](v T) T { return other.B(v) }\n',
           'gsub2/s.go': 'package gsub2\n\nimport "verifprog/other"\n\nfunc D[T any](v T) T { return other.B(v) }\n'}
OBS_OTHER = 'package main\n\nvar second = initSecond()\n\nfunc initSecond() int { return 2 }\n\nfunc init() { println("other", second) }\n\nfunc (t T) Extra() int { return t.a + third }\n\nvar third = first * 2\n'
OBS_SUB = 'package sub\n\nvar cache = map[string]int{}\n\nfunc F(x int) int { a, b := x, x+1; f := func() int { return a + b }; g := func() *int { return &b }; return f() + *g() }\n\nfunc G[T any](v T) T { return v }\n'


def reproducibility_observations(tier):
    """Plain observations (no solver): the same sources built repeatedly - fresh compiler process each time, GOMAXPROCS alternating, source files
    listed in different orders on the command line - give byte-identical JavaScript and source map, with and without -m."""
    import hashlib
    out = {'builds': 0, 'distinct_outputs': {}, 'failures': []}
    d = os.path.join(core.scratch(), 'C17obs')
    files = {'main.go': OBS_MAIN, 'other.go': OBS_OTHER, 'sub/sub.go': OBS_SUB}
    files.update(OBS_GEN)
    files.update({'a.inc.js': '$global.verifIncA = 1;\n', 'b.inc.js': '$global.verifIncB = 2;\n'})
    core.write_pkg(d, files)
    n = 8 if tier == 'quick' else 24
    for minify in (False, True):
        seen = {}
        for k in range(n):
            files = ['main.go', 'other.go', 'a.inc.js', 'b.inc.js'] if k % 2 == 0 else ['b.inc.js', 'other.go', 'a.inc.js', 'main.go']
            target = files if k % 3 else ['.']
            cmd = [core.gopherjs_bin(), 'build', '-o', 'out%d.js' % k] + (['-m'] if minify else []) + target
            env = dict(core.GOENV, GOMAXPROCS=str(1 + (k % 4)))
            p = core.run(cmd, cwd=d, env=env, check=False)
            out['builds'] += 1
            if p.returncode != 0:
                out['failures'].append({'minify': minify, 'error': 'build failed: ' + (p.stdout + p.stderr)[-300:]})
                continue
            js = open(os.path.join(d, 'out%d.js' % k), 'rb').read().replace(b'out%d.js' % k, b'out.js')
            mp = open(os.path.join(d, 'out%d.js.map' % k), 'rb').read().replace(b'out%d.js' % k, b'out.js')
            h = hashlib.sha256(js).hexdigest()[:16] + '/' + hashlib.sha256(mp).hexdigest()[:16]
            seen.setdefault(('dir' if target == ['.'] else 'files') + ':' + h, []).append(k)
        out['distinct_outputs']['minified' if minify else 'plain'] = len(seen)
        if len(seen) > 2:       # one output per way of naming the package (directory / explicit file list, listed in either order)
            out['failures'].append({'minify': minify, 'error': 'builds of the same sources differ', 'groups': list(seen.values())})
    return out, d


def main():
    tier = core.tier()
    obs, obsdir = reproducibility_observations(tier) if not os.environ.get('VERIF_ONLY') else ({}, None)
    rc, ev = gokernel.run_kernels('C17', kernels(), tier, write=False, extra={'reproducibility_observations': obs},
                                  title='order-canonicalisation sites under every map iteration order and every input order',
                                  bounds={'sites with a harness': 'analysis.EscapingObjects (escaping-variable order -> identifier allocation), dce.Info.getDeps (<= 5 dependencies), sources.Sources.Sort (every permutation of 4 files), typeparams.InstanceSet (ids / values / ByObj in discovery order, a duplicate added at any moment)',
                                          'map iteration': 'inside the analysed call every range over a map is executed under EVERY permutation of its entries (solver-enumerated choice per position)',
                                          'sites without a harness (reported, not claimed)': 'importDecls / updateImports / FuncLit escaping list sorting inside the translator (they need a whole compile)',
                                          'outside': 'determinism of go/types and of the translator as a whole (not encodable): only observed by repeated builds'},
                                  explanation='go/ssa interpreter with symbolic map iteration order: a result that depends on the order in which a Go map is ranged over shows up as a failing permutation')
    if obs.get('failures'):
        import shutil
        d = os.path.join(core.VERIF, 'evidence', 'replay', 'C17', 'observation')
        shutil.rmtree(d, ignore_errors=True)
        shutil.copytree(obsdir, d, ignore=shutil.ignore_patterns('out*.js', 'out*.map'))
        print('VIOLATION property=C17 replay=%s' % d)
        for f in obs['failures'][:4]:
            print('  reproducibility observation: %s' % f)
        ev['violations'] += 1
        rc = 1
    if not os.environ.get('VERIF_NO_EVIDENCE'):
        core.write_evidence('C17', ev)
    return rc


if __name__ == '__main__':
    sys.exit(main())
