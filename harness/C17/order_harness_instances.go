//go:build verif

package typeparams

import (
	"go/token"
	"go/types"
)

// Instance ids and the processing order of an InstanceSet depend only on the order in which instances are discovered (added), not on the
// iteration order of the maps inside InstanceMap; adding an instance again changes nothing.
func VHarness_InstanceSetDiscoveryOrder() {
	pkg := types.NewPackage("example.com/p", "p")
	sig := types.NewSignatureType(nil, nil, nil, nil, nil, false)
	f := types.NewFunc(token.NoPos, pkg, "f", sig)
	g := types.NewFunc(token.NoPos, pkg, "g", sig)
	insts := []Instance{
		{Object: f, TArgs: []types.Type{types.Typ[types.Int]}},
		{Object: f, TArgs: []types.Type{types.Typ[types.String]}},
		{Object: g, TArgs: []types.Type{types.Typ[types.Int]}},
		{Object: f, TArgs: []types.Type{types.NewSlice(types.Typ[types.Int])}},
	}
	dupAt := VNondetInt("dup_at", 0, len(insts)-1) // one instance is added a second time at an arbitrary moment
	VMapOrder(true)
	iset := &InstanceSet{}
	for i, inst := range insts {
		iset.Add(inst)
		if i >= dupAt {
			iset.Add(insts[dupAt])
		}
	}
	vals := iset.Values()
	VAssert(len(vals) == len(insts), "each instance is in the set once")
	for i, inst := range insts {
		VAssert(iset.ID(inst) == i, "ids are assigned in discovery order")
		VAssert(vals[i].Object == inst.Object && len(vals[i].TArgs) == 1 && types.Identical(vals[i].TArgs[0], inst.TArgs[0]), "values are kept in discovery order")
	}
	by := iset.ByObj()
	VAssert(len(by[f]) == 3 && len(by[g]) == 1, "instances are grouped by object")
	VAssert(types.Identical(by[f][0].TArgs[0], types.Typ[types.Int]) && types.Identical(by[f][1].TArgs[0], types.Typ[types.String]), "within an object the discovery order is kept")
	VMapOrder(false)
	VReach("instances-checked")
}
