//go:build verif

package dce

var vDepPool = [...]string{"pkg.A", "pkg.B", "pkg.C", "pkg.a", "other.Z"}
var vDepPick = [...]string{"has0", "has1", "has2", "has3", "has4"}

// getDeps returns the same (sorted) list whatever order the dependency map is iterated in.
func VHarness_GetDepsCanonical() {
	var d Info
	n := 0
	for i, name := range vDepPool {
		if VNondetBool(vDepPick[i]) {
			d.addDepName(name)
			n++
		}
	}
	VMapOrder(true)
	got := d.getDeps()
	VMapOrder(false)
	VAssert(len(got) == n, "every dependency is listed once")
	for i := 1; i < len(got); i++ {
		VAssert(got[i-1] < got[i], "the dependency list is sorted, independent of map iteration order")
	}
	VReach("getdeps-checked")
}
