//go:build verif

package typeparams

import (
	"go/ast"
	"go/parser"
	"go/token"
	"go/types"
)

var vColSrc = map[string]string{
	"verifprog/other": "package other\n\nfunc B[T any](v T) T { return v }\n",
	"verifprog/sub":   "package sub\n\nimport \"verifprog/other\"\n\nfunc A[T any](v T) T { return other.B(v) }\n",
	"verifprog/sub2":  "package sub2\n\nimport \"verifprog/other\"\n\nfunc D[T any](v T) T { return other.B(v) }\n",
	"verifprog":       "package main\n\nimport (\n\t\"verifprog/sub\"\n\t\"verifprog/sub2\"\n)\n\nfunc main() { println(sub.A(1), sub2.D(\"s\")) }\n",
}
var vColOrder = [...]string{"verifprog/other", "verifprog/sub", "verifprog/sub2", "verifprog"}

type vImporter map[string]*types.Package

func (m vImporter) Import(path string) (*types.Package, error) { return m[path], nil }

type vChecked struct {
	pkg   *types.Package
	info  *types.Info
	files []*ast.File
}

// vCollect type-checks the four packages once (shared by both collectors) and runs the real Scan + Finish.
func vCollectIDs(checked []vChecked, tc *types.Context, symbolicOrder bool) map[string]int {
	col := &Collector{TContext: tc, Instances: &PackageInstanceSets{}}
	for _, c := range checked {
		col.Scan(c.info, c.pkg, c.files...)
	}
	VMapOrder(symbolicOrder)
	col.Finish()
	VMapOrder(false)
	ids := map[string]int{}
	for _, iset := range *col.Instances {
		for _, inst := range iset.Values() {
			ids[inst.String()] = iset.ID(inst)
		}
	}
	return ids
}

// The ids of generic instances (they are keys in the emitted JavaScript) must not depend on the order in which Go iterates the map of
// per-package instance sets while instances found in generic code are propagated: the collection run under EVERY iteration order gives
// the ids of the run under one fixed order.
func VHarness_CollectorFinishOrder() {
	fset := token.NewFileSet()
	imp := vImporter{}
	tc := types.NewContext()
	var checked []vChecked
	for _, path := range vColOrder {
		f, err := parser.ParseFile(fset, path+"/x.go", vColSrc[path], 0)
		VAssert(err == nil, "the sample parses")
		info := &types.Info{Defs: map[*ast.Ident]types.Object{}, Uses: map[*ast.Ident]types.Object{}, Instances: map[*ast.Ident]types.Instance{}, Types: map[ast.Expr]types.TypeAndValue{}, Scopes: map[ast.Node]*types.Scope{}, Selections: map[*ast.SelectorExpr]*types.Selection{}, Implicits: map[ast.Node]types.Object{}}
		conf := types.Config{Importer: imp, Context: tc}
		pkg, err := conf.Check(path, fset, []*ast.File{f}, info)
		VAssert(err == nil, "the sample type-checks")
		imp[path] = pkg
		checked = append(checked, vChecked{pkg, info, []*ast.File{f}})
	}
	fixed := vCollectIDs(checked, tc, false)
	any_ := vCollectIDs(checked, tc, true)
	VAssert(len(fixed) == 4, "four instances are collected (A[int], D[string], B[int], B[string])")
	VAssert(len(any_) == len(fixed), "the same instances are collected under every map iteration order")
	for k, id := range fixed {
		VAssert(any_[k] == id, "instance ids do not depend on map iteration order: "+k)
	}
	VReach("collector-checked")
}
