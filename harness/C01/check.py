"""C01 — compiled programs behave like the reference Go toolchain.

A corpus with one or more templates per statement / expression form of the translator (compiler/statements.go,
expressions.go, functions.go, decls.go, utils.go, filter/*): every template is compiled by the real compiler, the
emitted JavaScript is executed symbolically for ALL values of its inputs and each path is compared by z3 with the trace
that the Go specification prescribes.  The build itself must succeed (no FatalError / compiler panic) and
`node --check` must accept the output (plain observations, recorded in the evidence)."""
import os, sys
sys.path.insert(0, os.path.dirname(os.path.dirname(os.path.dirname(os.path.abspath(__file__)))))
from vlib import core, tv, runner

IDX = 'index out of range'
V = 'a := int(NondetInt16(0))\nb := int(NondetInt16(1))\n_, _ = a, b\n'
ok = lambda evs: [('true', evs, 'normal')]


def alts_by(conds):
    """[(cond, events)] -> alternatives ending normally"""
    return [(c, e, 'normal') for c, e in conds]


def build_cases(tier):
    C = []
    T = tv.trace_case

    # ------------------------------------------------------------------ if / else / init statements
    C.append(T('if_chain', '', V + 'r := 0\nif x := a + b; x > 10 {\n\tr = 1\n} else if y := x * 2; y < -10 {\n\tr = 2 + y - y\n} else if a == b {\n\tr = 3\n} else {\n\tr = 4\n}\nprintln("r", r)',
               lambda inp: alts_by([('(> (+ in_0 in_1) 10)', [('r', ['1'])]), ('(and (<= (+ in_0 in_1) 10) (< (* 2 (+ in_0 in_1)) (- 10)))', [('r', ['2'])]),
                                    ('(and (<= (+ in_0 in_1) 10) (>= (* 2 (+ in_0 in_1)) (- 10)) (= in_0 in_1))', [('r', ['3'])]),
                                    ('(and (<= (+ in_0 in_1) 10) (>= (* 2 (+ in_0 in_1)) (- 10)) (not (= in_0 in_1)))', [('r', ['4'])])])))
    C.append(T('bool_ops', '//go:noinline\nfunc side(k int, v bool) bool { println("s", k); return v }\n',
               V + 'r := side(1, a > 0) && side(2, b > 0) || side(3, a == b)\nprintln("r", r, !(a > 0) != (b > 0))',
               lambda inp: [('(and (> in_0 0) (> in_1 0))', [('s', ['1']), ('s', ['2']), ('r', ['true', '(not (= (not (> in_0 0)) (> in_1 0)))'])], 'normal'),
                            ('(and (> in_0 0) (not (> in_1 0)))', [('s', ['1']), ('s', ['2']), ('s', ['3']), ('r', ['(= in_0 in_1)', '(not (= (not (> in_0 0)) (> in_1 0)))'])], 'normal'),
                            ('(not (> in_0 0))', [('s', ['1']), ('s', ['3']), ('r', ['(= in_0 in_1)', '(not (= (not (> in_0 0)) (> in_1 0)))'])], 'normal')]))
    # ------------------------------------------------------------------ switch
    C.append(T('switch_expr', '', V + 'r := 0\nswitch k := a & 7; k {\ncase 0, 1:\n\tr = 10\n\tfallthrough\ncase 2:\n\tr += 5\ncase 3:\n\tif b > 0 {\n\t\tbreak\n\t}\n\tr = 30\ncase 4:\n\tfallthrough\ndefault:\n\tr = 99\ncase 5:\n\tr = 50\n}\nprintln("r", r)',
               lambda inp: alts_by([('(<= (mod in_0 8) 1)', [('r', ['15'])]), ('(= (mod in_0 8) 2)', [('r', ['5'])]), ('(and (= (mod in_0 8) 3) (> in_1 0))', [('r', ['0'])]),
                                    ('(and (= (mod in_0 8) 3) (<= in_1 0))', [('r', ['30'])]), ('(or (= (mod in_0 8) 4) (>= (mod in_0 8) 6))', [('r', ['99'])]), ('(= (mod in_0 8) 5)', [('r', ['50'])])])))
    C.append(T('switch_tagless', '', V + 'r := 0\nswitch {\ncase a < b:\n\tr = 1\ncase a == b:\n\tr = 2\ncase a > b && a > 100:\n\tr = 3\n}\nswitch x := a - b; {\ncase x > 0:\n\tr += 10\ndefault:\n\tr += 20\n}\nprintln("r", r)',
               lambda inp: alts_by([('(< in_0 in_1)', [('r', ['21'])]), ('(= in_0 in_1)', [('r', ['22'])]), ('(and (> in_0 in_1) (> in_0 100))', [('r', ['13'])]),
                                    ('(and (> in_0 in_1) (<= in_0 100))', [('r', ['10'])])])))
    C.append(T('switch_side_effect_order', '//go:noinline\nfunc tr(k int) int { println("t", k); return k }\n',
               V + 'switch tr(a & 3) {\ncase tr(2):\n\tprintln("c", 2)\ncase tr(1), tr(3):\n\tprintln("c", 13)\ndefault:\n\tprintln("c", 0)\n}',
               lambda inp: alts_by([('(= (mod in_0 4) 0)', [('t', ['0']), ('t', ['2']), ('t', ['1']), ('t', ['3']), ('c', ['0'])]),
                                    ('(= (mod in_0 4) 1)', [('t', ['1']), ('t', ['2']), ('t', ['1']), ('c', ['13'])]),
                                    ('(= (mod in_0 4) 2)', [('t', ['2']), ('t', ['2']), ('c', ['2'])]),
                                    ('(= (mod in_0 4) 3)', [('t', ['3']), ('t', ['2']), ('t', ['1']), ('t', ['3']), ('c', ['13'])])])))
    TS = 'type shape interface{ area() int }\ntype sq struct{ s int }\ntype rc struct{ w, h int }\nfunc (s sq) area() int { return s.s * s.s }\nfunc (r *rc) area() int { return r.w * r.h }\n'
    C.append(T('type_switch', TS, V + 'var v interface{}\nswitch NondetRange(2, 0, 5) {\ncase 0:\n\tv = a\ncase 1:\n\tv = "str"\ncase 2:\n\tv = sq{a}\ncase 3:\n\tv = &rc{a, b}\ncase 4:\n\tv = nil\ncase 5:\n\tv = int8(a)\n}\n'
               'switch x := v.(type) {\ncase int:\n\tprintln("int", x+1)\ncase string:\n\tprintln("string", len(x))\ncase shape:\n\tprintln("shape", x.area())\ncase nil:\n\tprintln("nil", x == nil)\ncase int8, int16:\n\tprintln("small", x != nil)\n}',
               lambda inp: alts_by([('(= in_2 0)', [('int', ['(+ in_0 1)'])]), ('(= in_2 1)', [('string', ['3'])]), ('(= in_2 2)', [('shape', ['(* in_0 in_0)'])]),
                                    ('(= in_2 3)', [('shape', ['(* in_0 in_1)'])]), ('(= in_2 4)', [('nil', ['true'])]), ('(= in_2 5)', [('small', ['true'])])])))
    # type switch in a loop whose only break sits in the default clause (break leaves the switch, not the loop)
    C.append(T('type_switch_break_default', '', V + 'vals := []interface{}{a, nil, "x", b}\nn := 0\nfor _, it := range vals {\n\tswitch v := it.(type) {\n\tcase int:\n\t\tn += v\n\tdefault:\n\t\tif it == nil {\n\t\t\tbreak\n\t\t}\n\t\tn += 1000\n\t}\n\tn += 1\n}\nprintln("n", n)',
               lambda inp: ok([('n', ['(+ in_0 in_1 1004)'])])))
    C.append(T('switch_break_in_loop', '', V + 'n := 0\nfor i := 0; i < 4; i++ {\n\tswitch {\n\tcase i == (a & 3):\n\t\tbreak\n\tdefault:\n\t\tn += i\n\t}\n\tn += 10\n}\nprintln("n", n)',
               lambda inp: ok([('n', ['(- 46 (mod in_0 4))'])])))
    # ------------------------------------------------------------------ loops, labels, goto
    C.append(T('for_forms', '', V + 'n := a & 3\ns := 0\nfor i := 0; i < n; i++ {\n\ts += i\n}\nj := 0\nfor j < n {\n\tj++\n}\nk := 0\nfor {\n\tif k >= n {\n\t\tbreak\n\t}\n\tk += 2\n}\nprintln("r", s, j, k)',
               lambda inp: ok([('r', ['(let ((n (mod in_0 4))) (div (* n (- n 1)) 2))', '(mod in_0 4)', '(let ((n (mod in_0 4))) (+ n (mod n 2)))'])])))
    C.append(T('labelled_break_continue', '', V + 'n := 0\nouter:\n\tfor i := 0; i < 3; i++ {\n\t\tfor j := 0; j < 3; j++ {\n\t\t\tif j == (a & 3) {\n\t\t\t\tcontinue outer\n\t\t\t}\n\t\t\tif i == 2 && b > 0 {\n\t\t\t\tbreak outer\n\t\t\t}\n\t\t\tn++\n\t\t}\n\t}\nprintln("n", n)',
               lambda inp: alts_by([('(> in_1 0)', [('n', ['(let ((m (mod in_0 4))) (ite (= m 0) 0 (* 2 (ite (= m 3) 3 m))))'])]),
                                    ('(<= in_1 0)', [('n', ['(let ((m (mod in_0 4))) (* 3 (ite (= m 3) 3 m)))'])])])))
    C.append(T('goto_loop', '', V + 'i := 0\ns := 0\nloop:\n\tif i < (a & 3) {\n\t\ts += i * 2\n\t\ti++\n\t\tgoto loop\n\t}\n\tif s > 100 {\n\t\tgoto done\n\t}\n\ts += 1\ndone:\n\tprintln("s", s)',
               lambda inp: ok([('s', ['(let ((n (mod in_0 4))) (+ 1 (* n (- n 1))))'])])))
    C.append(T('range_kinds', '', V + 's := 0\nfor i, v := range []int{a, b, 3} {\n\ts += i * v\n}\nfor i := range [4]int{} {\n\ts += i\n}\narr := [3]int{a, 1, 1}\nfor i, v := range &arr {\n\tarr[2] = 5\n\ts += i + v\n}\nfor i, r := range "a\\u00e9z" {\n\ts += i * int(r)\n}\nfor range "xy" {\n\ts++\n}\nc := make(chan int, 3)\nc <- a\nc <- b\nclose(c)\nfor v := range c {\n\ts += v\n}\nprintln("s", s)',
               lambda inp: ok([('s', ['(+ in_1 6 6 (+ in_0 1 1 2 5) 233 366 2 in_0 in_1)'])])))
    C.append(T('range_int_and_func_free', '', V + 's := 0\nxs := []int{1, 2, 3}\nfor i := range xs {\n\txs = append(xs, i)\n\ts += len(xs)\n}\nvar nilS []int\nfor range nilS {\n\ts += 100\n}\nvar np *[2]int\nfor i := range np {\n\ts += i\n}\nprintln("s", s, len(xs))',
               lambda inp: ok([('s', ['16', '6'])])))
    C.append(T('loop_closure_capture', '', V + 'var fs []func() int\nfor i := 0; i < 3; i++ {\n\tj := i * a\n\tfs = append(fs, func() int { j++; return j + i })\n}\nt := 0\nfor _, f := range fs {\n\tt += f() + f()\n}\nprintln("t", t)',
               lambda inp: ok([('t', ['(+ (* 6 in_0) 9 18)'])])))
    # ------------------------------------------------------------------ assignment forms
    C.append(T('multi_assign_swap', '', V + 'x, y := a, b\nx, y = y, x\ns := []int{1, 2, 3}\ni := 0\ni, s[1] = 2, 9\ns[0], s[2] = s[2], s[0]\nprintln("r", x, y, i, s[0], s[1], s[2])',
               lambda inp: ok([('r', ['in_1', 'in_0', '2', '3', '9', '1'])])))
    # known finding: index operands on the left of a tuple assignment must be evaluated before any assignment happens
    C.append(T('tuple_assign_lhs_snapshot', '', V + 's := []int{1, 2, 3}\ni := 0\ni, s[i] = 2, a\nprintln("r", i, s[0], s[2])',
               lambda inp: ok([('r', ['2', 'in_0', '3'])])))
    C.append(T('tuple_forward', '//go:noinline\nfunc two(a, b int) (int, int) { return b, a + b }\n//go:noinline\nfunc sub(x, y int) int { return x - y }\n//go:noinline\nfunc vsum(base int, xs ...int) int {\n\tfor _, x := range xs {\n\t\tbase += x\n\t}\n\treturn base + len(xs)*1000\n}\n',
               V + 'p, q := two(a, b)\nprintln("r", sub(two(a, b)), p, q, vsum(two(a, b)), vsum(1), vsum(1, []int{a, b}...), vsum(1, a, b, 3))',
               lambda inp: ok([('r', ['(- in_1 (+ in_0 in_1))', 'in_1', '(+ in_0 in_1)', '(+ in_1 in_0 in_1 1000)', '1', '(+ 1 in_0 in_1 2000)', '(+ 4 in_0 in_1 3000)'])])))
    C.append(T('op_assign', '', V + 'x := a\nx += b\nx -= 3\nx *= 2\ny := x\ny /= 4\nz := x\nz %= 5\nw := a\nw &= 255\nw |= 256\nw ^= 1\nw <<= 2\nw >>= 1\nw &^= 2\nx++\ny--\nprintln("r", x, y, z, w)',
               lambda inp: ok([('r', ['(+ (* 2 (- (+ in_0 in_1) 3)) 1)', '(- (go_tdiv (* 2 (- (+ in_0 in_1) 3)) 4) 1)', '(let ((x (* 2 (- (+ in_0 in_1) 3)))) (- x (* 5 (go_tdiv x 5))))',
                                      '(let ((m (mod in_0 256))) (let ((w (* 2 (+ 256 (ite (= (mod m 2) 0) (+ m 1) (- m 1)))))) (ite (= (mod (div w 2) 2) 1) (- w 2) w)))'])])))
    C.append(T('assign_index_order', '//go:noinline\nfunc idx(k int) int { println("i", k); return k }\n',
               V + 's := []int{0, 0, 0}\ns[idx(1)] = idx(a)\nm := map[int]int{}\nm[idx(5)] += idx(7)\nprintln("r", s[1], m[5])',
               lambda inp: ok([('i', ['1']), ('i', ['in_0']), ('i', ['5']), ('i', ['7']), ('r', ['in_0', '7'])])))
    # known finding: calls in index operands on the left run before calls on the right-hand side (lexical left-to-right order)
    C.append(T('tuple_assign_call_order', '//go:noinline\nfunc idx(k int) int { println("i", k); return k }\n',
               V + 's := []int{0, 0, 0}\ns[idx(1)], s[idx(2)] = idx(a), idx(b)\nprintln("r", s[1], s[2])',
               lambda inp: ok([('i', ['1']), ('i', ['2']), ('i', ['in_0']), ('i', ['in_1']), ('r', ['in_0', 'in_1'])])))
    C.append(T('struct_field_ops', 'type in struct{ v int }\ntype out struct {\n\tin\n\tp *in\n\tarr [2]in\n}\n', V + 'o := out{in{a}, &in{b}, [2]in{{1}, {2}}}\no.v++\no.p.v += o.v\no.arr[1].v *= a\nq := &o\nq.arr[0].v--\nprintln("r", o.v, o.p.v, o.arr[0].v, o.arr[1].v, q.in.v)',
               lambda inp: ok([('r', ['(+ in_0 1)', '(+ in_1 in_0 1)', '0', '(* 2 in_0)', '(+ in_0 1)'])])))
    # ------------------------------------------------------------------ functions, closures, methods
    C.append(T('named_results', '//go:noinline\nfunc nr(a, b int) (x, y int) {\n\tx = a\n\tif a > b {\n\t\treturn b, x\n\t}\n\ty = b * 2\n\treturn\n}\n', V + 'x, y := nr(a, b)\nprintln("r", x, y)',
               lambda inp: alts_by([('(> in_0 in_1)', [('r', ['in_1', 'in_0'])]), ('(<= in_0 in_1)', [('r', ['in_0', '(* 2 in_1)'])])])))
    C.append(T('recursion', '//go:noinline\nfunc fib(n int) int {\n\tif n < 2 {\n\t\treturn n\n\t}\n\treturn fib(n-1) + fib(n-2)\n}\n//go:noinline\nfunc even(n int) bool {\n\tif n == 0 {\n\t\treturn true\n\t}\n\treturn odd(n - 1)\n}\nfunc odd(n int) bool {\n\tif n == 0 {\n\t\treturn false\n\t}\n\treturn even(n - 1)\n}\n',
               V + 'n := a & 7\nprintln("r", fib(n), even(n))',
               lambda inp: ok([('r', ['(let ((n (mod in_0 8))) (ite (= n 0) 0 (ite (= n 1) 1 (ite (= n 2) 1 (ite (= n 3) 2 (ite (= n 4) 3 (ite (= n 5) 5 (ite (= n 6) 8 13))))))))', '(= (mod in_0 2) 0)'])])))
    MT = 'type cnt struct{ n int }\nfunc (c *cnt) inc(d int) int { c.n += d; return c.n }\nfunc (c cnt) get() int { return c.n }\ntype getter interface{ get() int }\ntype mint int\nfunc (m mint) twice() mint { return m * 2 }\nfunc (m *mint) set(v int) { *m = mint(v) }\n'
    C.append(T('method_forms', MT, V + 'c := cnt{a}\nf := c.inc\ng := c.get\nh := (*cnt).inc\nk := cnt.get\nf(b)\nh(&c, 1)\nvar i getter = c\nc.inc(1)\nvar m mint = mint(a)\nm.set(b)\nmt := m.twice\nm = 1\nprintln("r", c.n, g(), k(c), i.get(), int(mt()), int(m.twice()), int(mint.twice(7)))',
               lambda inp: ok([('r', ['(+ in_0 in_1 2)', 'in_0', '(+ in_0 in_1 2)', '(+ in_0 in_1 1)', '(* 2 in_1)', '2', '14'])])))
    C.append(T('closures_counter', '', V + 'mk := func(start int) (func() int, func(int)) {\n\tn := start\n\treturn func() int { n++; return n }, func(d int) { n += d }\n}\nn1, add1 := mk(a)\nn2, _ := mk(b)\nn1()\nadd1(10)\nprintln("r", n1(), n2(), func(x int) int { return x * a }(3))',
               lambda inp: ok([('r', ['(+ in_0 12)', '(+ in_1 1)', '(* 3 in_0)'])])))
    C.append(T('defer_order_args', '', V + 'x := a\nfunc() {\n\tfor i := 0; i < 3; i++ {\n\t\tdefer println("d", i, x)\n\t\tx += b\n\t}\n\tdefer func() { println("c", x) }()\n\tx = 0\n}()',
               lambda inp: ok([('c', ['0']), ('d', ['2', '(+ in_0 (* 2 in_1))']), ('d', ['1', '(+ in_0 in_1)']), ('d', ['0', 'in_0'])])))
    C.append(T('shadowing_reserved_words', 'var arguments = 3\nvar this = 4\n//go:noinline\nfunc function(var_ int) int { let := var_ + 1; const_ := let * 2; return const_ }\n',
               V + 'delete := a\nnew := b\n{\n\tdelete := new\n\tnew := delete + 1\n\t_ = new\n\tprintln("i", delete, new)\n}\ntypeof, instanceof, void, undefined, null, NaN, Infinity, eval, yield, await := 1, 2, 3, 4, 5, 6, 7, 8, 9, 10\nprintln("r", delete, new, arguments+this, function(a), typeof+instanceof+void+undefined+null+NaN+Infinity+eval+yield+await)',
               lambda inp: ok([('i', ['in_1', '(+ in_1 1)']), ('r', ['in_0', 'in_1', '7', '(* 2 (+ in_0 1))', '55'])])))
    C.append(T('js_global_names', 'type Object struct{ v int }\ntype Array [2]int\ntype String string\nvar Math = 5\n//go:noinline\nfunc Number(x int) int { return x + Math }\n', V + 'o := Object{a}\nar := Array{a, b}\ns := String("ab")\nError := 1\nJSON := 2\nSymbol := []int{3}\nprintln("r", o.v, ar[1], len(s), Number(b), Error+JSON+Symbol[0])',
               lambda inp: ok([('r', ['in_0', 'in_1', '2', '(+ in_1 5)', '6'])])))
    # ------------------------------------------------------------------ composite literals
    C.append(T('composite_literals', 'type pt struct{ x, y int }\ntype seg struct {\n\ta, b pt\n\ttags []string\n\tm    map[string]*pt\n}\n',
               V + 'ps := []pt{{a, 1}, {y: b}, 3: {x: 7}}\npp := []*pt{{a, b}, nil}\narr := [...]int{2: a, b, 0: 5}\nsg := seg{b: pt{1, a}, tags: []string{"p", "q"}, m: map[string]*pt{"k": {b, a}}}\nmm := map[pt]string{{1, 2}: "one", {a, a}: "aa"}\nnested := [][]int{{a}, {b, 2}, nil}\nprintln("r", len(ps), ps[0].x, ps[1].y, ps[3].x, ps[2].x, pp[0].y, pp[1] == nil, len(arr), arr[2], arr[3], arr[0], sg.a.x, sg.b.y, len(sg.tags), sg.m["k"].x, len(mm[pt{a, a}]), len(nested[1]), nested[2] == nil)',
               lambda inp: ok([('r', ['4', 'in_0', 'in_1', '7', '0', 'in_1', 'true', '4', 'in_0', 'in_1', '5', '0', 'in_0', '2', 'in_1', '(ite (and (= in_0 1) (= in_0 2)) 3 2)', '2', 'true'])])))
    C.append(T('zero_values', 'type zs struct {\n\ti  int\n\ts  string\n\tp  *int\n\tf  func()\n\tm  map[int]int\n\tsl []int\n\tar [2]int8\n\te  interface{}\n\tn  struct{ k uint8 }\n}\n', 'var z zs\nvar i64 int64\nvar f float64\nvar c complex128\nprintln("r", z.i, len(z.s), z.p == nil, z.f == nil, z.m == nil, z.sl == nil, z.ar[1], z.e == nil, z.n.k, i64 == 0, f == 0, real(c) == 0, len(z.m), len(z.sl), cap(z.sl))',
               lambda inp: ok([('r', ['0', '0', 'true', 'true', 'true', 'true', '0', 'true', '0', 'true', 'true', 'true', '0', '0', '0'])])))
    # ------------------------------------------------------------------ builtins
    C.append(T('builtins_slices', '', V + 'n := NondetRange(2, 0, 3)\ns := make([]int, n, 5)\ns = append(s, a)\ns = append(s, b, 7)\nt := make([]int, 2)\nk := copy(t, s)\nvar e []int\ne = append(e, s[:1]...)\nu := append([]int(nil), 1, 2)\nprintln("r", len(s), cap(s) >= len(s), s[n], s[n+1], k, t[0], len(e), len(u), cap(s[1:2]) >= 1)',
               lambda inp: ok([('r', ['(+ in_2 3)', 'true', 'in_0', 'in_1', '2', '(ite (= in_2 0) in_0 0)', '1', '2', 'true'])])))
    C.append(T('copy_overlap', 'type pt struct{ x, y int }\n', V + 's := []pt{{a, 1}, {b, 2}, {3, 3}, {4, 4}}\ncopy(s[1:], s)\ng := [][2]int{{a, a}, {b, b}, {5, 5}}\ncopy(g[1:], g)\nq := []int{a, b, 3, 4}\ncopy(q[1:], q)\nr := []pt{{a, 1}, {b, 2}, {3, 3}}\ncopy(r, r[1:])\nprintln("r", s[0].x, s[1].x, s[2].x, s[3].x, g[1][0], g[2][1], q[2], q[3], r[0].x, r[1].x, r[2].x)',
               lambda inp: ok([('r', ['in_0', 'in_0', 'in_1', '3', 'in_0', 'in_1', 'in_1', '3', 'in_1', '3', '3'])])))
    C.append(T('builtin_on_call_result', 'var calls int\n//go:noinline\nfunc mkmap(n int) map[int]int { calls++; println("mk", n); return map[int]int{1: n, 2: n} }\n//go:noinline\nfunc mkslice(n int) []int { calls++; return make([]int, 2, 5) }\n//go:noinline\nfunc mkstr() string { calls++; return "abc" }\n//go:noinline\nfunc mkchan() chan int { calls++; return make(chan int, 4) }\n',
               V + 'println("r", len(mkmap(a)), len(mkslice(1)), cap(mkslice(2)), len(mkstr()), cap(mkchan()), len(mkchan()), calls)',
               lambda inp: ok([('mk', ['in_0']), ('r', ['2', '2', '5', '3', '4', '0', '6'])])))
    C.append(T('delete_clear_map', '', V + 'm := map[int]int{1: a, 2: b, 3: 3}\ndelete(m, 2)\ndelete(m, 9)\nv, okk := m[2]\nw, ok2 := m[1]\nprintln("r", len(m), v, okk, w, ok2)',
               lambda inp: ok([('r', ['2', '0', 'false', 'in_0', 'true'])])))
    C.append(T('new_and_pointers', 'type node struct {\n\tv    int\n\tnext *node\n}\n', V + 'p := new(int)\n*p = a\nq := p\n*q += b\npp := &p\n**pp += 1\nl := &node{1, &node{2, &node{v: a}}}\ns := 0\nfor n := l; n != nil; n = n.next {\n\ts += n.v\n}\nprintln("r", *p, s, l.next.next.next == nil)',
               lambda inp: ok([('r', ['(+ in_0 in_1 1)', '(+ 3 in_0)', 'true'])])))
    # ------------------------------------------------------------------ strings / conversions / constants
    C.append(T('string_build', '', V + 's := ""\nfor i := 0; i < (a & 3); i++ {\n\ts += string(rune(97 + i))\n}\ns += "é"\nbs := []byte(s)\nprintln("r", len(s), len(bs), s[0], s > "b", s+"x" == "aé"+"x")',
               lambda inp: ok([('r', ['(+ (mod in_0 4) 2)', '(+ (mod in_0 4) 2)', '(ite (= (mod in_0 4) 0) 195 97)', '(= (mod in_0 4) 0)', '(= (mod in_0 4) 1)'])])))
    C.append(T('const_expressions', 'const (\n\tk0 = iota * 10\n\tk1\n\tk2\n\tbig = 1 << 40\n\tmask = big>>38 | 1\n\tfl = 7.0 / 2\n)\ntype weekday int\nconst (\n\tmon weekday = iota + 1\n\ttue\n)\n', V + 'x := a + k2 + mask\ny := int64(big) + int64(b)\nprintln("r", x, int32(y>>32), uint32(y), int(fl*2), int(tue), k1, a*k0)',
               lambda inp: ok([('r', ['(+ in_0 25)', '(div (+ 1099511627776 in_1) 4294967296)', '(mod (+ 1099511627776 in_1) 4294967296)', '7', '2', '10', '0'])])))
    C.append(T('numeric_conversions', '', V + 'f := float64(a)\ni := int(f)\nu8 := uint8(a)\ni8 := int8(b)\nu := uint32(int32(a))\nl := int64(a)<<24 - int64(b)\nprintln("r", i, u8, i8, u, int32(l>>32), uint32(l), int(float32(a)), int16(u))',
               lambda inp: ok([('r', ['in_0', '(mod in_0 256)', '(- (mod (+ in_1 128) 256) 128)', '(mod in_0 4294967296)', '(div (- (* in_0 16777216) in_1) 4294967296)', '(mod (- (* in_0 16777216) in_1) 4294967296)', 'in_0', 'in_0'])])))
    # ------------------------------------------------------------------ interfaces, embedding
    C.append(T('embedding_promotion', 'type base struct{ id int }\nfunc (b base) ident() int { return b.id }\nfunc (b *base) setID(v int) { b.id = v }\ntype mid struct {\n\tbase\n\tname string\n}\ntype top struct {\n\t*mid\n\textra int\n}\ntype ider interface{ ident() int }\n',
               V + 't := top{&mid{base{a}, "n"}, 1}\nt.setID(b)\nvar i ider = t\nm := *t.mid\nm.setID(5)\nprintln("r", t.id, i.ident(), t.mid.base.ident(), m.ident(), len(t.name))',
               lambda inp: ok([('r', ['in_1', 'in_1', 'in_1', '5', '1'])])))
    C.append(T('interface_values', 'type st struct{ a, b int }\ntype er struct{ code int }\nfunc (e er) Error() string { return "er" }\n//go:noinline\nfunc mayFail(k int) error {\n\tif k > 0 {\n\t\treturn er{k}\n\t}\n\treturn nil\n}\n',
               V + 'var x, y interface{} = st{a, 1}, st{b, 1}\nerr := mayFail(a)\nvar e2 error\nprintln("r", x == y, x != nil, err == nil, e2 == nil, err == error(er{a}))\nif e, okk := err.(er); okk {\n\tprintln("e", e.code, e.Error())\n}',
               lambda inp: alts_by([('(> in_0 0)', [('r', ['(= in_0 in_1)', 'true', 'false', 'true', 'true']), ('e', ['in_0', 'er'])]),
                                    ('(<= in_0 0)', [('r', ['(= in_0 in_1)', 'true', 'true', 'true', 'false'])])])))
    # ------------------------------------------------------------------ goroutines, select, panics as program ending
    C.append(T('goroutine_sum', '', V + 'res := make(chan int)\nfor i := 0; i < 3; i++ {\n\tgo func(k int) { res <- k * a }(i)\n}\nt := 0\nfor i := 0; i < 3; i++ {\n\tt += <-res\n}\nselect {\ncase v := <-res:\n\tt += v\ndefault:\n\tt += b\n}\nprintln("t", t)',
               lambda inp: ok([('t', ['(+ (* 3 in_0) in_1)'])])))
    C.append(T('ending_uncaught_panic', 'type myErr struct{}\nfunc (myErr) Error() string { return "custom failure" }\n', V + 'println("start")\nswitch a & 3 {\ncase 0:\n\tpanic("boom")\ncase 1:\n\tvar s []int\n\t_ = s[b]\ncase 2:\n\tpanic(myErr{})\n}\nprintln("end")',
               lambda inp: [('(= (mod in_0 4) 0)', [('start', [])], ('panic', 'boom')), ('(= (mod in_0 4) 1)', [('start', [])], ('panic', IDX)),
                            ('(= (mod in_0 4) 2)', [('start', [])], ('panic', 'custom failure')), ('(= (mod in_0 4) 3)', [('start', []), ('end', [])], 'normal')]))
    C.append(T('ending_deadlock', '', V + 'c := make(chan int)\nprintln("start")\nif a > b {\n\tgo func() { c <- 1 }()\n}\nprintln("v", <-c)',
               lambda inp: [('(> in_0 in_1)', [('start', []), ('v', ['1'])], 'normal'), ('(<= in_0 in_1)', [('start', []), ('fatal error: all goroutines are asleep - deadlock!', [])], ('exit', 2))]))
    C.append(T('init_order_vars', 'var (\n\tva = vb + 1\n\tvb = f1()\n\tvc = 10\n)\nfunc f1() int { return vc * 2 }\nvar trace []int\nfunc init() { trace = append(trace, va) }\nfunc init() { trace = append(trace, vb) }\n', 'println("r", va, vb, vc, len(trace), trace[0], trace[1])',
               lambda inp: ok([('r', ['21', '20', '10', '2', '21', '20'])])))
    C.append(T('arrays_of_arrays', '', V + 'var g [3][2]int\nfor i := range g {\n\tfor j := range g[i] {\n\t\tg[i][j] = i*a + j*b\n\t}\n}\nh := g\nh[1][1] = 0\nrow := g[2]\nprintln("r", g[1][1], h[1][1], row[0], len(g), len(g[0]), g == h, row == [2]int{2 * a, 2*a + b})',
               lambda inp: ok([('r', ['(+ in_0 in_1)', '0', '(* 2 in_0)', '3', '2', '(= (+ in_0 in_1) 0)', 'true'])])))
    C.append(T('func_values_table', '', V + 'ops := map[string]func(int, int) int{"add": func(x, y int) int { return x + y }, "sub": func(x, y int) int { return x - y }}\nvar nilf func()\nnames := []string{"add", "sub"}\nr := 0\nfor _, n := range names {\n\tr = r*3 + ops[n](a, b)\n}\nprintln("r", r, nilf == nil, ops["mul"] == nil)',
               lambda inp: ok([('r', ['(+ (* 3 (+ in_0 in_1)) (- in_0 in_1))', 'true', 'true'])])))
    C.append(T('struct_compare_copy', 'type k struct {\n\ta int\n\ts string\n\tarr [2]int8\n}\n', V + 'x := k{a, "s", [2]int8{1, 2}}\ny := x\ny.arr[1] = int8(b)\nz := k{a, "s", [2]int8{1, int8(b)}}\nprintln("r", x == y, y == z, x != z)',
               lambda inp: ok([('r', ['(= (- (mod (+ in_1 128) 256) 128) 2)', 'true', '(not (= (- (mod (+ in_1 128) 256) 128) 2))'])])))
    return C


def build_observations(tier):
    """Plain observations on the real toolchain (not solver claims): every corpus program builds without an internal error and
    node --check accepts the output, also with -m."""
    out = {'programs_built': 0, 'node_check_ok': 0, 'failures': []}
    work = os.path.join(core.scratch(), 'C01obs')
    cases = build_cases(tier)
    step = 1
    for i in range(0, len(cases), step):
        ch = cases[i:i + step]
        for minify in (False, True):
            d = os.path.join(work, 'p%d_%d' % (i, int(minify)))
            files = {'main.go': tv.program_source(ch)}
            core.write_pkg(d, files)
            okb, js = core.compile_js(d, minify=minify)
            out['programs_built'] += 1
            if not okb:
                out['failures'].append({'cases': [c.tag for c in ch], 'minify': minify, 'error': js[-600:]})
                continue
            p = core.run(['node', '--check', js], check=False)
            if p.returncode == 0:
                out['node_check_ok'] += 1
            else:
                out['failures'].append({'cases': [c.tag for c in ch], 'minify': minify, 'error': 'node --check: ' + p.stderr[-400:]})
    return out


def main():
    tier = core.tier()
    cases = build_cases(tier)
    only = os.environ.get('VERIF_ONLY')
    if only:
        import re
        cases = [c for c in cases if re.search(only, c.tag)]
    obs = build_observations(tier) if not only else {}
    rc = runner.run_property('C01', cases, tier=tier, chunk=1,
                             title='one or more templates per statement/expression form of the translator; trace and ending compared with the Go specification for all inputs',
                             bounds={'inputs': 'all int16 pairs (a, b) plus the listed range selectors', 'loops': 'trip counts <= 8 (derived from masked inputs); every path explored, none cut',
                                     'outside': 'programs outside the corpus; packages that need fmt/strings/... (not buildable in this sandbox); file-order freedom'},
                             extra_evidence={'build_observations': obs},
                             cfg={'maxDepth': 600, 'maxPaths': 20000, 'timeoutMs': 20000, 'maxWallMs': 600000})
    if obs.get('failures'):
        for f in obs['failures'][:5]:
            print('  build observation failed: %s' % f)
    return rc


if __name__ == '__main__':
    sys.exit(main())
