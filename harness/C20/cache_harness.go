//go:build verif

package cache

import (
	"compress/gzip"
	"encoding/gob"
	"errors"
	"io"
	"os"
	"time"
)

// ---------------------------------------------------------------- the environment, as stubs
//
// File system, gzip, gob, clock and logging are replaced by the functions below (engine option -stub).  Each operation can fail: whether it
// does is a symbolic boolean ("fault schedule").  The fake file system maps a path to a list of encoded values; gob.Encode appends
// to the file being written, gob.Decode pops from the file being read.

var vErr = errors.New("injected fault")

type vFile struct {
	path    string
	temp    bool
	content []any
	closed  int
}

type vEnv struct {
	files      map[string][]any // final paths -> content
	temps      map[string][]any
	handles    map[*os.File]*vFile
	trace      []string // operations on final paths and temp files, in order
	encTarget  *vFile
	decSource  *vFile
	decPos     int
	decodes    int
	gzipHeader bool
	tempSeq    int
	sums       []string
}

var vE *vEnv

func vReset() {
	vE = &vEnv{files: map[string][]any{}, temps: map[string][]any{}, handles: map[*os.File]*vFile{}}
}

func vFault(name string) bool { return VNondetBool("fault_" + name) }

func VStub_UserCacheDir() (string, error) { return "/cache", nil }
func VStub_MkdirAll(p string, perm os.FileMode) error {
	if vFault("mkdir") {
		return vErr
	}
	return nil
}
func VStub_CreateTemp(dir, pattern string) (*os.File, error) {
	if vFault("createtemp") {
		return nil, vErr
	}
	vE.tempSeq++
	f := new(os.File)
	vf := &vFile{path: dir + "/" + pattern + ".tmp", temp: true}
	vE.handles[f] = vf
	vE.temps[vf.path] = nil
	vE.trace = append(vE.trace, "createtemp")
	return f, nil
}
func VStub_FileName(f *os.File) string { return vE.handles[f].path }
func VStub_FileClose(f *os.File) error {
	vf := vE.handles[f]
	vf.closed++
	if vf.temp && vf.closed == 1 {
		if _, ok := vE.temps[vf.path]; ok {
			vE.temps[vf.path] = vf.content
		}
	}
	return nil
}
func VStub_Rename(oldp, newp string) error {
	if vFault("rename") {
		return vErr
	}
	c, ok := vE.temps[oldp]
	if !ok {
		return vErr
	}
	delete(vE.temps, oldp)
	vE.files[newp] = c
	vE.trace = append(vE.trace, "rename")
	return nil
}
func VStub_Remove(p string) error {
	delete(vE.temps, p)
	if _, ok := vE.files[p]; ok {
		delete(vE.files, p)
		vE.trace = append(vE.trace, "remove-final")
	}
	return nil
}
func VStub_Open(p string) (*os.File, error) {
	c, ok := vE.files[p]
	if !ok {
		return nil, os.ErrNotExist
	}
	if vFault("open") {
		return nil, vErr
	}
	f := new(os.File)
	vE.handles[f] = &vFile{path: p, content: c}
	return f, nil
}
func VStub_IsNotExist(err error) bool { return err == os.ErrNotExist }

func VStub_GzipNewWriter(w io.Writer) *gzip.Writer {
	vE.encTarget = vE.handles[w.(*os.File)]
	return new(gzip.Writer)
}
func VStub_GzipWriterClose(z *gzip.Writer) error {
	if vFault("gzipflush") {
		return vErr
	}
	vE.encTarget.content = append(vE.encTarget.content, "gzip-trailer")
	return nil
}
func VStub_GzipNewReader(r io.Reader) (*gzip.Reader, error) {
	if vFault("gzipheader") {
		return nil, vErr // a damaged or truncated header
	}
	vE.decSource = vE.handles[r.(*os.File)]
	vE.decPos = 0
	return new(gzip.Reader), nil
}
func VStub_GzipReaderClose(z *gzip.Reader) error {
	if vFault("gzipchecksum") {
		return vErr // damage detected by the checksum when the stream is closed
	}
	return nil
}
func VStub_NewEncoder(w io.Writer) *gob.Encoder { return new(gob.Encoder) }
func VStub_Encode(e *gob.Encoder, v any) error {
	if vFault("encode") {
		return vErr
	}
	vE.encTarget.content = append(vE.encTarget.content, v)
	return nil
}
func VStub_NewDecoder(r io.Reader) *gob.Decoder { return new(gob.Decoder) }
func VStub_Decode(d *gob.Decoder, p any) error {
	vE.decodes++
	if vE.decodes == 1 && vFault("decode_time") {
		return vErr
	}
	if vE.decodes > 1 && vFault("decode_payload") {
		return vErr
	}
	src := vE.decSource
	if vE.decPos >= len(src.content) {
		return io.ErrUnexpectedEOF
	}
	v := src.content[vE.decPos]
	vE.decPos++
	switch ptr := p.(type) {
	case *time.Time:
		t, ok := v.(time.Time)
		if !ok {
			return vErr
		}
		*ptr = t
	case *int64:
		n, ok := v.(int64)
		if !ok {
			return vErr
		}
		*ptr = n
	case *int:
		n, ok := v.(int)
		if !ok {
			return vErr
		}
		*ptr = n
	case *string:
		s, ok := v.(string)
		if !ok {
			return vErr
		}
		*ptr = s
	default:
		return vErr
	}
	return nil
}
func VStub_Now() time.Time                               { return time.Time{} }
func VStub_Since(t time.Time) time.Duration              { return 0 }
func VStub_Round(d time.Duration, m time.Duration) time.Duration { return d }
func VStub_Logf(format string, args ...interface{})      {}
func VStub_Sum256(data []byte) [32]byte {
	// collision-free by construction on the inputs of one run (sha256 is assumed collision-free)
	s := string(data)
	for i, x := range vE.sums {
		if x == s {
			return [32]byte{byte(i + 1)}
		}
	}
	vE.sums = append(vE.sums, s)
	return [32]byte{byte(len(vE.sums))}
}

// ---------------------------------------------------------------- a Cacheable that records what happens to it

type vPayload struct {
	data   int
	reads  int
	writes int
}

func (p *vPayload) Write(encode func(any) error) error { p.writes++; return encode(p.data) }
func (p *vPayload) Read(decode func(any) error) error  { p.reads++; return decode(&p.data) }

func vTime(secName, nsName string) time.Time {
	sec := VNondetInt64(secName)
	ns := VNondetInt64(nsName)
	VAssume(sec >= 0 && sec < 4000000000 && ns >= 0 && ns < 1000000000)
	return time.Unix(sec, ns)
}

func vCache() *BuildCache {
	return &BuildCache{GOOS: "js", GOARCH: "ecmascript", GOROOT: "/goroot", GOPATH: "/gopath", BuildTags: []string{"t1"}, Version: "1.20.0", TestedPackage: "example.com/tested"}
}

// Store followed by Load under every fault schedule and all store / source-modification times.
func VHarness_StoreThenLoad() {
	vReset()
	bc := vCache()
	built := vTime("built_s", "built_ns")
	srcMod := vTime("src_s", "src_ns")
	in := &vPayload{data: 42}
	stored := bc.Store(in, "example.com/pkg", built)
	final := len(vE.files)
	if !stored {
		VAssert(final == 0, "a failed store leaves no entry under the final name")
	} else {
		VAssert(final == 1, "a successful store creates exactly one entry")
	}
	VAssert(len(vE.temps) == 0 || !stored, "no temporary file outlives a successful store")
	for _, op := range vE.trace {
		VAssert(op != "remove-final", "the final path is only ever written by rename")
	}
	if stored {
		last := vE.trace[len(vE.trace)-1]
		VAssert(last == "rename", "the entry appears by renaming a completely written temporary file")
		for _, c := range vE.files {
			VAssert(len(c) == 3 && c[2] == "gzip-trailer", "the renamed file is complete (build time, payload, checksum)")
		}
	}
	out := &vPayload{}
	vE.decodes = 0
	hit := bc.Load(out, "example.com/pkg", srcMod)
	if hit {
		VAssert(stored, "a hit needs a stored entry")
		VAssert(!srcMod.After(built), "an entry older than the sources is never returned")
		VAssert(out.data == 42 && out.reads == 1, "a hit returns exactly the stored payload")
		VAssert(!VNondetBool("fault_open") && !VNondetBool("fault_gzipheader") && !VNondetBool("fault_decode_time") && !VNondetBool("fault_decode_payload") && !VNondetBool("fault_gzipchecksum"),
			"a hit is reported only if open, header, build-time decoding, payload decoding and the closing checksum all succeeded")
	} else if stored && !srcMod.After(built) {
		VAssert(VNondetBool("fault_open") || VNondetBool("fault_gzipheader") || VNondetBool("fault_decode_time") || VNondetBool("fault_decode_payload") || VNondetBool("fault_gzipchecksum"),
			"a fresh, intact entry is found")
	}
	if srcMod.After(built) {
		VAssert(out.reads == 0, "the payload is not decoded before the staleness test")
	}
	VReach("store-load-checked")
}

var vPathChoices = [...]string{"example.com/pkg", "example.com/tested", "example.com/tested_test", "example.com/tested/sub", "", "example.com/foo", "example.com/foo_test", "example.com/foo_test_test"}
var vTestedChoices = [...]string{"example.com/tested", "example.com/foo_test", ""}

// The package under test (and its _test twin) is never stored or loaded.
func VHarness_TestedPackageNeverCached() {
	vReset()
	bc := vCache()
	bc.TestedPackage = vTestedChoices[VNondetInt("tested", 0, len(vTestedChoices)-1)] // also a package whose own path ends in _test, and no tested package at all
	k := VNondetInt("path", 0, len(vPathChoices)-1)
	p := vPathChoices[k]
	isTested := p != "" && (p == bc.TestedPackage || p == bc.TestedPackage+"_test")
	stored := bc.Store(&vPayload{data: 1}, p, time.Unix(100, 0))
	if isTested {
		VAssert(!stored && len(vE.files) == 0 && len(vE.trace) == 0, "the package under test is never stored")
	} else if p != "" && !VNondetBool("fault_mkdir") && !VNondetBool("fault_createtemp") && !VNondetBool("fault_encode") && !VNondetBool("fault_gzipflush") && !VNondetBool("fault_rename") {
		VAssert(stored, "every other package is stored when nothing fails")
	}
	out := &vPayload{}
	vE.decodes = 0
	hit := bc.Load(out, p, time.Unix(50, 0))
	if isTested {
		VAssert(!hit && out.reads == 0, "the package under test is never loaded from the cache")
	}
	var nilCache *BuildCache
	VAssert(!nilCache.Store(out, "x", time.Unix(1, 0)) && !nilCache.Load(out, "x", time.Unix(1, 0)), "a disabled cache never hits")
	VReach("tested-package-checked")
}

var vAlt = [...]string{"", "/a/b"}

// vCfg: the baseline configuration with each field either kept or replaced by one of two other values (symbolic choice per field).
func vCfg(prefix string) (*BuildCache, string) {
	pick := func(n, base string) string {
		k := VNondetInt(prefix+n, 0, len(vAlt))
		if k == 0 {
			return base
		}
		return vAlt[k-1]
	}
	bc := &BuildCache{GOOS: pick("goos", "js"), GOARCH: pick("goarch", "ecmascript"), GOROOT: pick("goroot", "/goroot"), GOPATH: pick("gopath", "/gopath"), Version: pick("version", "1.20")}
	nt := VNondetInt(prefix+"ntags", 0, 2)
	tags := [...]string{"t1", "t2"}
	for i := 0; i < nt; i++ {
		bc.BuildTags = append(bc.BuildTags, pick("tag"+tags[i], tags[i]))
	}
	imp := [...]string{"p", "p/q", "q"}[VNondetInt(prefix+"import", 0, 2)]
	return bc, imp
}

// Two configurations / import paths map to the same cache file only if they are equal field by field.
func VHarness_KeySeparation() {
	vReset()
	a, ia := vCfg("a_")
	b := &BuildCache{GOOS: "js", GOARCH: "ecmascript", GOROOT: "/goroot", GOPATH: "/gopath", Version: "1.20", BuildTags: []string{"t1"}}
	ib := "p/q"
	ka := cachedPath(a.packageKey(ia))
	kb := cachedPath(b.packageKey(ib))
	same := a.GOOS == b.GOOS && a.GOARCH == b.GOARCH && a.GOROOT == b.GOROOT && a.GOPATH == b.GOPATH && a.Version == b.Version && ia == ib && len(a.BuildTags) == len(b.BuildTags)
	if same {
		for i := range a.BuildTags {
			if a.BuildTags[i] != b.BuildTags[i] {
				same = false
			}
		}
	}
	if same {
		VAssert(ka == kb, "equal configurations share an entry")
	} else {
		VAssert(ka != kb, "different configurations or import paths never share an entry")
	}
	VReach("keys-checked")
}
