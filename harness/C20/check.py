"""C20 — the build cache is transparent, never stale and tolerates damage.

Kernel check (gosym engine) of build/cache with the environment stubbed: os (MkdirAll, CreateTemp, Rename, Remove, Open, File.Close/Name),
gzip (writer/reader incl. the closing checksum), gob (encoder/decoder), clock and logging.  Every operation can fail - the fault schedule is a set
of symbolic booleans - and store time / source modification time are symbolic instants."""
import os, sys
sys.path.insert(0, os.path.dirname(os.path.dirname(os.path.dirname(os.path.abspath(__file__)))))
from vlib import core, gokernel

C = 'github.com/gopherjs/gopherjs/build/cache'
STUBS = [('os.UserCacheDir', 'VStub_UserCacheDir'), ('os.MkdirAll', 'VStub_MkdirAll'), ('os.CreateTemp', 'VStub_CreateTemp'), ('(*os.File).Name', 'VStub_FileName'), ('(*os.File).Close', 'VStub_FileClose'),
         ('os.Rename', 'VStub_Rename'), ('os.Remove', 'VStub_Remove'), ('os.Open', 'VStub_Open'), ('os.IsNotExist', 'VStub_IsNotExist'),
         ('compress/gzip.NewWriter', 'VStub_GzipNewWriter'), ('(*compress/gzip.Writer).Close', 'VStub_GzipWriterClose'), ('compress/gzip.NewReader', 'VStub_GzipNewReader'), ('(*compress/gzip.Reader).Close', 'VStub_GzipReaderClose'),
         ('encoding/gob.NewEncoder', 'VStub_NewEncoder'), ('(*encoding/gob.Encoder).Encode', 'VStub_Encode'), ('encoding/gob.NewDecoder', 'VStub_NewDecoder'), ('(*encoding/gob.Decoder).Decode', 'VStub_Decode'),
         ('time.Now', 'VStub_Now'), ('time.Since', 'VStub_Since'), ('(time.Duration).Round', 'VStub_Round'),
         ('github.com/sirupsen/logrus.Infof', 'VStub_Logf'), ('github.com/sirupsen/logrus.Warningf', 'VStub_Logf'), ('crypto/sha256.Sum256', 'VStub_Sum256')]


def main():
    tier = core.tier()
    k = gokernel.Kernel('C20', 'build/cache', ['cache_harness.go'], init=[C, 'errors', 'io', 'io/fs', 'os', 'time', 'path', 'path/filepath', 'strings', 'unicode/utf8', 'internal/bytealg', 'strconv', 'fmt', 'internal/oserror', 'syscall'], stubs=STUBS)
    rc, ev = gokernel.run_kernels('C20', [k], tier,
                                  title='build/cache Store/Load under every fault schedule, all store and source-modification instants; tested-package exclusion; key separation',
                                  bounds={'faults': 'each of mkdir, createtemp, encode, gzip flush, rename, open, gzip header, build-time decode, payload decode, closing checksum fails or not (symbolic booleans), in every combination',
                                          'times': 'all pairs of instants with seconds in [0, 4e9) and nanoseconds in [0, 1e9)', 'keys': 'every pair of configurations with fields drawn from 6 strings, <= 2 build tags, 3 import paths',
                                          'outside': 'byte-level damage inside real gzip/gob streams (modelled as the reader/decoder reporting an error), sha256 (assumed collision-free), the AST serialisation of archives, path cleaning of non-canonical GOPATH/import paths'},
                                  explanation='symbolic execution (go/ssa) of the real build/cache code against a fake file system and codec whose failures are symbolic')
    return rc


if __name__ == '__main__':
    sys.exit(main())
