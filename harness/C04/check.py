"""C04 — every used generic instantiation exists, is distinct and behaves correctly.

Generic templates: each instance's arithmetic width, zero value, conversions, method dispatch and blocking behaviour are
compared with the Go specification for ALL operand values; identity / distinctness of instances is probed on every
path by type switches, assertions, interface equality and map keys chosen by symbolic selectors.  A missing or conflated
instance shows up as a run-time error or a wrong width / wrong switch arm on some path.  A valid program on which the
compiler aborts with an internal error is a violation as well (replayed: native go builds and runs it)."""
import os, sys
sys.path.insert(0, os.path.dirname(os.path.dirname(os.path.dirname(os.path.abspath(__file__)))))
from vlib import core, tv, runner, gospec

V = 'a := int(NondetInt16(0))\nb := int(NondetInt16(1))\n_, _ = a, b\n'
ok = lambda evs: [('true', evs, 'normal')]
W = gospec.wrap


def sel(k, rows):
    return [('(= in_%d %d)' % (k, i), ev, 'normal') for i, ev in enumerate(rows)]


YIELD = 'import "runtime"\n\n//go:noinline\nfunc VerifYield() { runtime.Gosched() }\n'

SUB = '''package sub

type Number interface {
	~int8 | ~int16 | ~int32 | ~int | ~uint8 | ~uint16 | ~uint32
}

type Box[T any] struct{ V T }

func (b Box[T]) Get() T       { return b.V }
func (b *Box[T]) Set(v T)     { b.V = v }
func NewBox[T any](v T) Box[T] { return Box[T]{v} }

func Sum[T Number](xs ...T) T {
	var t T
	for _, x := range xs {
		t += x
	}
	return t
}

func Map[T, U any](xs []T, f func(T) U) []U {
	out := make([]U, 0, len(xs))
	for _, x := range xs {
		out = append(out, f(x))
	}
	return out
}

type Namer interface{ Name() string }

func NameOf[T Namer](v T) string { return v.Name() }

func Wrap[T any](v T) interface{} { return Box[T]{v} }

func IntBox(v int) interface{}   { return Box[int]{v} }
func Int8Box(v int8) interface{} { return Box[int8]{v} }

type local int8

func (local) Name() string { return "sub.local" }

func OwnInstance(v int) int { return int(Sum(local(v), local(v))) }
func OwnName() string       { return NameOf(local(1)) }
'''


def build_cases(tier):
    C = []
    T = tv.trace_case
    NUM = 'type number interface {\n\t~int8 | ~int16 | ~int32 | ~int64 | ~int | ~uint8 | ~uint16 | ~uint32 | ~uint64 | ~uint\n}\n//go:noinline\nfunc add[T number](x, y T) T { return x + y }\n//go:noinline\nfunc mul[T number](x, y T) T { return x * y }\n//go:noinline\nfunc neg[T number](x T) T { return -x }\n//go:noinline\nfunc shl[T number](x T, n uint8) T { return x << n }\n//go:noinline\nfunc conv[T, U number](x T) U { return U(x) }\n'
    # ---- arithmetic width is the one of the type argument, for all operand values
    for t in ['int8', 'uint8', 'int16', 'uint16', 'int32', 'uint32', 'int'] + (['uint'] if tier == 'thorough' else []):
        nd = gospec.NONDET[t]
        # 32-bit unsigned products are the $imul kernel, decided in C06 with limb-declared inputs; here a constant factor keeps the query linear
        mulx = 'mul(x, y)' if t not in ('uint32', 'uint') else 'mul(x, 65537)'
        mulr = '(* in_0 in_1)' if t not in ('uint32', 'uint') else '(* in_0 65537)'
        C.append(T('width_%s' % t, NUM, 'x := Nondet%s(0)\ny := Nondet%s(1)\nn := NondetUint8(2)\nprintln("r", add(x, y), %s, neg(x), shl(x, n&7), add[%s](x, 1))' % (nd, nd, mulx, t),
                   lambda inp, t=t, mulr=mulr: ok([('r', [W(t, '(+ in_0 in_1)'), W(t, mulr), W(t, '(- in_0)'), W(t, '(* in_0 (go_p2 (mod in_2 8)))'), W(t, '(+ in_0 1)')])])))
    C.append(T('width_named', NUM + 'type celsius int8\ntype word uint16\n', 'x := celsius(NondetInt8(0))\ny := word(NondetUint16(1))\nprintln("r", add(x, 100), mul(y, 257), int(neg(x)), uint16(neg(y)))',
               lambda inp: ok([('r', [W('int8', '(+ in_0 100)'), W('uint16', '(* in_1 257)'), W('int8', '(- in_0)'), W('uint16', '(- in_1)')])])))
    C.append(T('width_64', NUM, 'x := NondetInt64(0)\ny := NondetUint64(1)\nVerifOutI64("a", add(x, 1))\nVerifOutU64("b", add(y, y))\nVerifOutI64("c", neg(x))',
               lambda inp: ok([('a', [W('int64', '(+ in_0 1)')]), ('b', [W('uint64', '(* 2 in_1)')]), ('c', [W('int64', '(- in_0)')])])))
    C.append(T('conversions_between_instances', NUM, 'x := NondetInt16(0)\nu := NondetUint32(1)\nprintln("r", conv[int16, int8](x), conv[int16, uint8](x), conv[int16, uint32](x), conv[uint32, int16](u), conv[uint32, int8](u), conv[int16, int](x))',
               lambda inp: ok([('r', [W('int8', 'in_0'), W('uint8', 'in_0'), W('uint32', 'in_0'), W('int16', 'in_1'), W('int8', 'in_1'), 'in_0'])])))
    # ---- zero values
    C.append(T('zero_values', 'type pt struct {\n\tx int\n\ts string\n}\n//go:noinline\nfunc zero[T any]() T {\n\tvar z T\n\treturn z\n}\n//go:noinline\nfunc isZero[T comparable](v T) bool {\n\tvar z T\n\treturn v == z\n}\n',
               V + 'p := zero[pt]()\nar := zero[[2]int8]()\nprintln("r", zero[int](), len(zero[string]()), zero[*int]() == nil, zero[[]int]() == nil, zero[map[int]int]() == nil, zero[func()]() == nil, zero[interface{}]() == nil, p.x, len(p.s), ar[1], zero[float64]() == 0, zero[bool]())\n'
               'println("z", isZero(a), isZero("x"), isZero(pt{a, ""}), isZero([2]int{a, b}), isZero(int64(a)))',
               lambda inp: ok([('r', ['0', '0', 'true', 'true', 'true', 'true', 'true', '0', '0', '0', 'true', 'false']),
                               ('z', ['(= in_0 0)', 'false', '(= in_0 0)', '(and (= in_0 0) (= in_1 0))', '(= in_0 0)'])])))
    # ---- generic types: methods, embedding, interfaces
    GT = 'type stack[T any] struct{ xs []T }\nfunc (s *stack[T]) push(x T) *stack[T] { s.xs = append(s.xs, x); return s }\nfunc (s *stack[T]) pop() (T, bool) {\n\tvar z T\n\tif len(s.xs) == 0 {\n\t\treturn z, false\n\t}\n\tx := s.xs[len(s.xs)-1]\n\ts.xs = s.xs[:len(s.xs)-1]\n\treturn x, true\n}\ntype pair[K comparable, V any] struct {\n\tk K\n\tv V\n}\nfunc (p pair[K, V]) swap() pair[V, K] where_ { return pair[V, K]{} }\n'
    GT = GT.replace('func (p pair[K, V]) swap() pair[V, K] where_ { return pair[V, K]{} }\n', 'func (p pair[K, V]) key() K { return p.k }\nfunc mkPair[K comparable, V any](k K, v V) pair[K, V] { return pair[K, V]{k, v} }\ntype keyer[K any] interface{ key() K }\ntype named[T any] struct {\n\tstack[T]\n\tname string\n}\n')
    C.append(T('generic_types_methods', GT, V + 's := &stack[int]{}\ns.push(a).push(b)\nx, _ := s.pop()\nt := &stack[int8]{}\nt.push(int8(a))\ny, _ := t.pop()\n_, ok3 := t.pop()\np := mkPair("k", a)\nvar ki keyer[string] = p\nq := mkPair(int8(b), "v")\nn := named[int]{name: "n"}\nn.push(a)\nprintln("r", x, y, ok3, len(ki.key()), q.key(), len(n.xs), n.xs[0])',
               lambda inp: ok([('r', ['in_1', W('int8', 'in_0'), 'false', '1', W('int8', 'in_1'), '1', 'in_0'])])))
    C.append(T('constraint_methods_core_types', 'type namer interface {\n\t~int8 | ~int16\n\tname() string\n}\ntype small int8\nfunc (small) name() string { return "small" }\ntype medium int16\nfunc (medium) name() string { return "medium!" }\n//go:noinline\nfunc describe[T namer](v T) (int, T) { return len(v.name()), v + v }\n//go:noinline\nfunc sumSlice[S ~[]E, E ~int8 | ~int](s S) E {\n\tvar t E\n\tfor _, e := range s {\n\t\tt += e\n\t}\n\treturn t\n}\ntype bytes8 []int8\n//go:noinline\nfunc keys[M ~map[K]V, K comparable, V any](m M) int { return len(m) }\n',
               V + 'l1, v1 := describe(small(a))\nl2, v2 := describe(medium(a))\nprintln("r", l1, v1, l2, v2, sumSlice(bytes8{int8(a), int8(b), 100}), sumSlice([]int{a, b}), keys(map[string]int{"a": 1, "b": 2}))',
               lambda inp: ok([('r', ['5', W('int8', '(* 2 (- (mod (+ in_0 128) 256) 128))'), '7', W('int16', '(* 2 in_0)'), W('int8', '(+ in_0 in_1 100)'), '(+ in_0 in_1)', '2'])])))
    # ---- identity and distinctness of instances
    ID = 'type box[T any] struct{ v T }\ntype two[A, B any] struct {\n\ta A\n\tb B\n}\n//go:noinline\nfunc mk[T any](v T) interface{} { return box[T]{v} }\n//go:noinline\nfunc mkVia[T any](v T) interface{} { return mk(v) }\n'
    C.append(T('instance_identity_switch', ID, V + 'vals := []interface{}{mk(a), mk(int8(a)), mk("s"), mkVia(a), box[int]{a}, two[int, string]{a, "x"}, two[string, int]{"x", a}, mk(box[int]{a}), mk([]int{a}), box[box[int]]{box[int]{a}}}\ni := NondetRange(2, 0, 9)\nr := -1\nswitch x := vals[i].(type) {\ncase box[int]:\n\tr = x.v - a\ncase box[int8]:\n\tr = 1\ncase box[string]:\n\tr = 2\ncase two[int, string]:\n\tr = 3\ncase two[string, int]:\n\tr = 4\ncase box[box[int]]:\n\tr = 5\ncase box[[]int]:\n\tr = 6\n}\nprintln("r", r)',
               lambda inp: sel(2, [[('r', [str(x)])] for x in (0, 1, 2, 0, 0, 3, 4, 5, 6, 5)])))
    C.append(T('instance_identity_eq_mapkeys', ID, V + 'i := NondetRange(2, 0, 4)\nj := NondetRange(3, 0, 4)\nf := func(k int, v int) interface{} {\n\tswitch k {\n\tcase 0:\n\t\treturn mk(v)\n\tcase 1:\n\t\treturn mkVia(v)\n\tcase 2:\n\t\treturn mk(int16(v))\n\tcase 3:\n\t\treturn box[int]{v}\n\t}\n\treturn two[int, int]{v, v}\n}\nm := map[interface{}]int{}\nm[f(i, a)] = 1\nm[f(j, b)] = 2\nprintln("e", f(i, a) == f(j, b), len(m))',
               lambda inp: ok([('e', ['(and (= in_0 in_1) (or (= in_2 in_3) (and (not (= in_2 2)) (not (= in_2 4)) (not (= in_3 2)) (not (= in_3 4)))))',
                                      '(ite (and (= in_0 in_1) (or (= in_2 in_3) (and (not (= in_2 2)) (not (= in_2 4)) (not (= in_3 2)) (not (= in_3 4))))) 1 2)'])])))
    C.append(T('local_types_in_generic_funcs', '//go:noinline\nfunc wrap[T any](v T) interface{} {\n\ttype local struct{ v T }\n\treturn local{v}\n}\n//go:noinline\nfunc wrap2[T any](v T) interface{} {\n\ttype local struct{ v T }\n\treturn local{v}\n}\n//go:noinline\nfunc count[T comparable](xs ...T) int {\n\ttype key struct{ k T }\n\tm := map[key]int{}\n\tfor _, x := range xs {\n\t\tm[key{x}]++\n\t}\n\treturn len(m)\n}\n',
               V + 'println("r", wrap(a) == wrap(a), wrap(a) == wrap(b), wrap(a) == wrap(int8(a)), wrap(a) == wrap2(a), wrap("s") == wrap("s"), count(a, b, a), count("x", "y"), count(int8(a), int8(b)))',
               lambda inp: ok([('r', ['true', '(= in_0 in_1)', 'false', 'false', 'true', '(ite (= in_0 in_1) 1 2)', '2', '(ite (= (mod (+ in_0 128) 256) (mod (+ in_1 128) 256)) 1 2)'])])))
    # ---- generic types declared inside generic functions, mentioning sibling local types (each instance of the function has its own)
    NG = ('//go:noinline\nfunc index[T comparable](x, y T) (int, bool, bool) {\n\ttype stage struct{ value T }\n\ttype labelled[U any] struct {\n\t\tst    stage\n\t\tlabel U\n\t}\n'
          '\tseen := map[interface{}]int{}\n\tseen[labelled[string]{stage{x}, "x"}]++\n\tseen[labelled[string]{stage{y}, "x"}]++\n'
          '\tvar p interface{} = labelled[string]{stage{x}, "x"}\n\tvar q interface{} = labelled[string]{stage{x}, "x"}\n\tvar r interface{} = labelled[string]{stage{y}, "x"}\n\treturn len(seen), p == q, p == r\n}\n'
          '//go:noinline\nfunc chainOf[T any](v T, n int) int {\n\ttype node[U any] struct {\n\t\tval  U\n\t\torig T\n\t\tnext *node[U]\n\t}\n\tvar head *node[int]\n\tfor i := 0; i < n; i++ {\n\t\thead = &node[int]{i, v, head}\n\t}\n\tc := 0\n\tfor p := head; p != nil; p = p.next {\n\t\tc += p.val + 1\n\t}\n\treturn c\n}\n')
    C.append(T('nested_generic_types_in_generic_funcs', NG, V + 'n1, s1, o1 := index(int64(a)<<36, int64(b)<<36)\nn2, s2, o2 := index("one", "two")\nn3, s3, o3 := index([2]int{a, 1}, [2]int{b, 1})\nn4, s4, o4 := index[interface{}](a, b)\nn5, s5, o5 := index[interface{}](a, int8(a))\n'
               'println("i", n1, s1, o1, n2, s2, o2, n3, s3, o3, n4, s4, o4, n5, s5, o5, chainOf("s", 3), chainOf(int64(a), 2))',
               lambda inp: ok([('i', ['(ite (= in_0 in_1) 1 2)', 'true', '(= in_0 in_1)', '2', 'true', 'false', '(ite (= in_0 in_1) 1 2)', 'true', '(= in_0 in_1)', '(ite (= in_0 in_1) 1 2)', 'true', '(= in_0 in_1)', '2', 'true', 'false', '6', '3'])])))
    # ---- anonymous composite types built from a type declared inside a generic function: one per instance of the function
    AC = ('//go:noinline\nfunc comp[T comparable](v T, n int) interface{} {\n\ttype S struct{ v T }\n\tswitch n {\n\tcase 0:\n\t\treturn []S{{v}}\n\tcase 1:\n\t\treturn [1]S{{v}}\n\tcase 2:\n\t\treturn struct{ s S }{S{v}}\n\tcase 3:\n\t\treturn map[S]bool{{v}: true}\n\tcase 4:\n\t\treturn func(S) []S { return nil }\n\t}\n\treturn (chan S)(nil)\n}\n'
          '//go:noinline\nfunc sameType(a, b interface{}) (r int) {\n\tdefer func() {\n\t\tif recover() != nil {\n\t\t\tr = 2\n\t\t}\n\t}()\n\tif a == b {\n\t\treturn 1\n\t}\n\treturn 0\n}\n'
          '//go:noinline\nfunc fill[T any](v T, n int) int {\n\ttype S struct{ v T }\n\txs := make([]S, 0, 1)\n\tfor i := 0; i < n; i++ {\n\t\txs = append(xs, S{v})\n\t}\n\tvar i interface{} = xs\n\t_, ok := i.([]S)\n\t_, bad := i.([]T)\n\tif !ok || bad {\n\t\treturn -1\n\t}\n\treturn len(xs)\n}\n')
    C.append(T('anonymous_types_over_nested_types', AC, V + 'n := NondetRange(2, 0, 5)\nprintln("c", sameType(comp(a, n), comp(b, n)), sameType(comp(a, n), comp(int64(a), n)), sameType(comp("s", n), comp("s", n)), sameType(comp("s", n), comp(a, n)), fill(a, 2), fill("s", 3), fill(int8(b), 1))',
               lambda inp: sel(2, [[('c', [x, '0', y, '0', '2', '3', '1'])] for x, y in (('2', '2'), ('(ite (= in_0 in_1) 1 0)', '1'), ('(ite (= in_0 in_1) 1 0)', '1'), ('2', '2'), ('2', '2'), ('1', '1'))])))
    # ---- the type parameter itself as type-switch case, assertion target, conversion target and composite element
    TP = 'type pr struct{ a, b int }\n//go:noinline\nfunc pick[T any](v interface{}, d T) T {\n\tswitch x := v.(type) {\n\tcase T:\n\t\treturn x\n\tcase []T:\n\t\treturn x[0]\n\tcase map[string]T:\n\t\treturn x["k"]\n\tcase *T:\n\t\treturn *x\n\t}\n\treturn d\n}\n//go:noinline\nfunc must[T any](v interface{}) (T, bool) {\n\tx, ok := v.(T)\n\treturn x, ok\n}\n//go:noinline\nfunc total[T ~int | ~int8](vs ...interface{}) T {\n\tvar t T\n\tfor _, v := range vs {\n\t\tswitch x := v.(type) {\n\t\tcase T:\n\t\t\tt += x + 1\n\t\tcase int16:\n\t\t\tt += T(x)\n\t\t}\n\t}\n\treturn t\n}\n'
    C.append(T('type_param_switch_assert', TP, V + 'i8 := int8(a)\nprintln("p", pick[int](a, -1)+1, pick[int](int8(1), -1), pick[int]([]int{b}, -1), pick[int](map[string]int{"k": a}, -1), pick[int](&b, -1), pick[int8](i8, 0), pick[string]("xy", "")+"z" == "xyz", pick[pr](pr{a, b}, pr{}).b, pick[[2]int]([2]int{a, b}, [2]int{})[1], pick[float64](1.5, 0) == 1.5, pick[bool](true, false))\n'
               'x1, o1 := must[int](a)\nx2, o2 := must[int](int8(1))\nx3, o3 := must[pr](pr{a, b})\nx4, o4 := must[string](a)\nprintln("m", x1, o1, x2, o2, x3.a, o3, len(x4), o4)\nprintln("t", total[int](a, b, int16(3), "s", int8(1)), total[int8](int8(a), int8(b), a, int16(3)))',
               lambda inp: ok([('p', ['(+ in_0 1)', '(- 1)', 'in_1', 'in_0', 'in_1', W('int8', 'in_0'), 'true', 'in_1', 'in_1', 'true', 'true']),
                               ('m', ['in_0', 'true', '0', 'false', 'in_0', 'true', '0', 'false']),
                               ('t', ['(+ in_0 in_1 2 3)', W('int8', '(+ in_0 in_1 2 3)')])])))
    # ---- nested / recursive instantiation through other generic code
    C.append(T('nested_instantiation', 'type list[T any] struct {\n\thead T\n\ttail *list[T]\n}\nfunc (l *list[T]) len() int {\n\tif l == nil {\n\t\treturn 0\n\t}\n\treturn 1 + l.tail.len()\n}\n//go:noinline\nfunc cons[T any](h T, t *list[T]) *list[T] { return &list[T]{h, t} }\n//go:noinline\nfunc pairUp[T any](x T) []T { return dup(dup(x)...)[1:] }\nfunc dup[T any](xs ...T) []T { return append(xs, xs...) }\n//go:noinline\nfunc mapOf[K comparable, V any](k K, v V) map[K][]V { return map[K][]V{k: dup(v)} }\n//go:noinline\nfunc depth[T any](n int, v T) int {\n\tif n == 0 {\n\t\treturn 0\n\t}\n\treturn 1 + depth(n-1, v)\n}\n',
               V + 'l := cons(a, cons(b, nil))\nls := cons("s", nil)\nll := cons(l, nil)\nm := mapOf("k", int8(a))\nprintln("r", l.len(), ls.len(), ll.head.tail.head, len(pairUp(a)), pairUp(int8(b))[2], len(m["k"]), m["k"][1], depth(3, l))',
               lambda inp: ok([('r', ['2', '1', 'in_1', '3', W('int8', 'in_1'), '2', W('int8', 'in_0'), '3'])])))
    # ---- blocking behaviour of instances (a yield inside generic code, all subsets of yield points)
    BG = '//go:noinline\nfunc slow[T any](v T) T { VerifYield(); return v }\n//go:noinline\nfunc recv[T any](c chan T) T { VerifYield(); return <-c }\ntype cell[T any] struct{ v T }\nfunc (c *cell[T]) update(f func(T) T) { VerifYield(); c.v = f(c.v); VerifYield() }\n//go:noinline\nfunc apply[T, U any](x T, f func(T) U) U { return f(slow(x)) }\n'
    C.append(T('blocking_generic_funcs', [YIELD, BG], V + 'ci := make(chan int, 1)\ncs := make(chan string, 1)\nci <- a\ncs <- "str"\nprintln("r", slow(a), len(slow("xy")), recv(ci), len(recv(cs)))',
               lambda inp: ok([('r', ['in_0', '2', 'in_0', '3'])])))
    C.append(T('blocking_generic_methods', [YIELD, BG], V + 'c := &cell[int]{b}\nc.update(func(x int) int { return slow(x) + 1 })\nd := &cell[string]{"s"}\nd.update(func(x string) string { return x + "t" })\nprintln("r", c.v, len(d.v), apply(int8(a), func(x int8) int { return int(x) * 2 }))',
               lambda inp: ok([('r', ['(+ in_1 1)', '2', '(* 2 (- (mod (+ in_0 128) 256) 128))'])])))
    # lead reported by a sub-agent: range over a channel whose type is a type parameter
    C.append(T('range_over_chan_type_param', '//go:noinline\nfunc drain[C ~chan int](c C) int {\n\ts := 0\n\tfor v := range c {\n\t\ts += v\n\t}\n\treturn s\n}\n', V + 'c := make(chan int, 2)\nc <- a\nc <- b\nclose(c)\nprintln("s", drain(c))',
               lambda inp: ok([('s', ['(+ in_0 in_1)'])])))
    # ---- across packages, both directions
    XP = 'import "verifprog/sub"\ntype mine int16\nfunc (mine) Name() string { return "main.mine" }\n'
    C.append(T('cross_package_instances', XP, V + 'bx := sub.NewBox(a)\nbx.Set(b)\nb8 := sub.Box[int8]{int8(a)}\nstrs := sub.Map([]int{a, b}, func(x int) mine { return mine(x) })\nvals := []interface{}{sub.Wrap(a), sub.IntBox(a), sub.Wrap(int8(a)), sub.Int8Box(int8(a)), sub.Box[int]{a}, sub.Wrap(mine(a))}\ni := NondetRange(2, 0, 5)\nj := NondetRange(3, 0, 5)\n'
               'println("r", bx.Get(), b8.Get(), sub.Sum(mine(a), mine(b), 1), sub.Sum[uint8](200, 100), len(sub.NameOf(mine(1))), int(strs[1]), sub.OwnInstance(a), len(sub.OwnName()), vals[i] == vals[j])',
               lambda inp: ok([('r', ['in_1', W('int8', 'in_0'), W('int16', '(+ in_0 in_1 1)'), '44', '9', 'in_1', W('int8', '(* 2 (- (mod (+ in_0 128) 256) 128))'), '9',
                                      '(let ((ci (ite (or (= in_2 0) (= in_2 1) (= in_2 4)) 0 (ite (= in_2 5) 2 1))) (cj (ite (or (= in_3 0) (= in_3 1) (= in_3 4)) 0 (ite (= in_3 5) 2 1)))) (= ci cj))'])]),
               files={'sub/sub.go': SUB}))
    # an instance whose type argument is declared in a package set up later than the generic type's own package: comparability and map keys
    # are those of the instantiated type
    XC = 'import "verifprog/sub"\ntype withSlice struct{ s []int }\ntype plain struct{ n int }\n//go:noinline\nfunc cmpI(x, y interface{}) (r int) {\n\tdefer func() {\n\t\tif recover() != nil {\n\t\t\tr = 2\n\t\t}\n\t}()\n\tif x == y {\n\t\treturn 1\n\t}\n\treturn 0\n}\n'
    C.append(T('cross_package_instance_comparability', XC, V + 'm := map[interface{}]int{}\nm[sub.Box[plain]{plain{a}}]++\nm[sub.Box[plain]{plain{b}}]++\nprintln("c", cmpI(sub.Box[withSlice]{}, sub.Box[withSlice]{}), cmpI(sub.Box[plain]{plain{a}}, sub.Box[plain]{plain{b}}), cmpI(sub.Box[[1]withSlice]{}, sub.Box[[1]withSlice]{}), cmpI(sub.Wrap(withSlice{}), sub.Wrap(withSlice{})), cmpI(sub.Wrap(plain{a}), sub.Box[plain]{plain{a}}), len(m))',
               lambda inp: ok([('c', ['2', '(ite (= in_0 in_1) 1 0)', '2', '2', '1', '(ite (= in_0 in_1) 1 2)'])]), files={'sub/sub.go': SUB}))
    # ---- known finding: a type declared inside a generic function used as the type argument of another generic function
    C.append(T('nested_type_as_type_argument', 'type nbox[T any] struct{ V T }\n//go:noinline\nfunc show[T any](v T) interface{} { return nbox[T]{v} }\n//go:noinline\nfunc viaNested[T any](t T) interface{} {\n\ttype S struct{ v T }\n\treturn show(S{t})\n}\n',
               V + 'println("n", viaNested(a) == viaNested(b), viaNested(a) == viaNested(int8(a)), viaNested("s") == viaNested("s"))',
               lambda inp: ok([('n', ['(= in_0 in_1)', 'false', 'true'])])))
    # ---- known finding: a named slice/map/array/pointer/func/chan/interface type declared inside a generic function over its type parameter
    C.append(T('nested_nonstruct_types_in_generic_funcs', '//go:noinline\nfunc gather[T comparable](v, w T) (int, bool) {\n\ttype list []T\n\ttype index map[T]int\n\tvar l list\n\tl = append(l, v, w)\n\tm := index{v: 1}\n\tm[w]++\n\tvar i interface{} = l\n\t_, isList := i.(list)\n\t_, isSlice := i.([]T)\n\treturn len(l) + len(m), isList && !isSlice\n}\n',
               V + 'n1, o1 := gather(a, b)\nn2, o2 := gather("s", "t")\nprintln("g", n1, o1, n2, o2)',
               lambda inp: ok([('g', ['(ite (= in_0 in_1) 3 4)', 'true', '4', 'true'])])))
    # ---- known finding: explicit package-qualified instantiation with a type built from the caller's type parameter
    C.append(T('explicit_qualified_instantiation_in_generic', 'import "verifprog/sub"\n//go:noinline\nfunc viaExplicit[T any](x T) interface{} { return sub.Wrap[[]T]([]T{x}) }\n', V + '_, isB := viaExplicit(a).(sub.Box[[]int])\nprintln("r", isB)',
               lambda inp: ok([('r', ['true'])]), files={'sub/sub.go': SUB}))
    C.append(T('inferred_qualified_instantiation_in_generic', 'import "verifprog/sub"\n//go:noinline\nfunc viaInferred[T any](x T) interface{} { return sub.Wrap([]T{x}) }\n//go:noinline\nfunc viaSame[T any](x T) []T { return ident[[]T]([]T{x}) }\nfunc ident[T any](v T) T { return v }\n', V + '_, isB := viaInferred(a).(sub.Box[[]int])\n_, isS := viaInferred("s").(sub.Box[[]string])\nprintln("r", isB, isS, viaSame(a)[0])',
               lambda inp: ok([('r', ['true', 'true', 'in_0'])]), files={'sub/sub.go': SUB}))
    return C


def main():
    tier = core.tier()
    cases = build_cases(tier)
    only = os.environ.get('VERIF_ONLY')
    if only:
        import re
        cases = [c for c in cases if re.search(only, c.tag)]
    return runner.run_property('C04', cases, tier=tier, chunk=1,
                               title='generic templates: per-instance arithmetic width, zero values, conversions, method dispatch, blocking; identity/distinctness by type switch, assertion, interface equality, map keys',
                               bounds={'operands': 'full width of every instantiated integer type (64-bit: add / neg only)', 'selectors': 'every combination of the listed instances',
                                       'outside': 'generic programs outside the corpus; the instance collector as an algorithm over go/types (not encodable)'},
                               cfg={'maxDepth': 600, 'maxPaths': 20000, 'timeoutMs': 20000, 'maxWallMs': 600000, 'maxYields': 14})


if __name__ == '__main__':
    sys.exit(main())
