//go:build verif

package build

import (
	"go/ast"
	"go/build"
	"go/parser"
	"go/token"
	"io"
	"strconv"
	"strings"
)

type vRC struct{ *strings.Reader }

func (vRC) Close() error { return nil }

// The original file: every kind of declaration the merge distinguishes, each import used by exactly one declaration, plus blank and dot
// imports and declarations that no overlay touches.
const vOriginal = `package p

import (
	"cmp"
	"fmt"
	. "math"
	"strings"
	_ "unicode"
)

func F(x int) int { return x + 1 }

func G() string { return strings.ToUpper("g") }

func Max[T cmp.Ordered](a, b T) T { return a }

type T struct{ n int }

func (t T) M() int { return t.n }

func (t *T) P() int { return t.n }

type U int

func (u U) String() string { return fmt.Sprint(int(u)) }

var V, W = 1, 2

var X, Y = pair()

func pair() (int, int) { return 1, 2 }

const C = 3

var untouched = Pi

func untouchedFn() int { return C2 }

// a local variable that happens to be called like an import: its selector is not a use of the package
func shadowing() int {
	strings := T{n: 4}
	return strings.n
}

const C2 = 5
`

var vChoiceNames = [...]string{"ovF", "ovG", "ovMax", "ovT", "ovU", "ovV", "ovXY", "ovC"}

// vOverlay builds the overlay source for one combination of choices.
//
//	F:   0 absent, 1 replaced, 2 keep-original          G: 0 absent, 1 replaced, 2 purge
//	Max: 0 absent, 1 replaced, 2 override-signature     T: 0 absent, 1 replaced (methods stay), 2 purge (methods go)
//	U:   0 absent, 1 purge      V: 0 absent, 1 replaced   XY: 0 absent, 1 X replaced, 2 X and Y replaced   C: 0 absent, 1 replaced
func vOverlay(ch [8]int) string {
	src := "package p\n\nimport \"strconv\"\n\n"
	switch ch[0] {
	case 1:
		src += "func F(x int) int { return x + 100 }\n\n"
	case 2:
		src += "//gopherjs:keep-original\nfunc F(x int) int { return _gopherjs_original_F(x) * 2 }\n\n"
	}
	switch ch[1] {
	case 1:
		src += "func G() string { return strconv.Itoa(7) }\n\n"
	case 2:
		src += "//gopherjs:purge\nfunc G() string\n\n"
	}
	switch ch[2] {
	case 1:
		src += "func Max[T ~int](a, b T) T { return b }\n\n"
	case 2:
		src += "//gopherjs:override-signature\nfunc Max(a, b any) any\n\n"
	}
	switch ch[3] {
	case 1:
		src += "type T struct{ n, extra int }\n\n"
	case 2:
		src += "//gopherjs:purge\ntype T struct{}\n\n"
	}
	if ch[4] == 1 {
		src += "//gopherjs:purge\ntype U int\n\n"
	}
	if ch[5] == 1 {
		src += "var V = 10\n\n"
	}
	switch ch[6] {
	case 1:
		src += "var X = 7\n\n"
	case 2:
		src += "var X, Y = 7, 8\n\n"
	}
	if ch[7] == 1 {
		src += "const C = 30\n\n"
	}
	src += "func overlayOnly() string { return strconv.Itoa(1) }\n"
	return src
}

type vDeclSet map[string]int // "kind name" -> count

func vCollect(files []*ast.File) vDeclSet {
	out := vDeclSet{}
	for _, f := range files {
		for _, d := range f.Decls {
			switch d := d.(type) {
			case *ast.FuncDecl:
				key := "func " + d.Name.Name
				if d.Recv != nil && len(d.Recv.List) == 1 {
					switch r := d.Recv.List[0].Type.(type) {
					case *ast.Ident:
						key = "method " + r.Name + "." + d.Name.Name
					case *ast.StarExpr:
						if id, ok := r.X.(*ast.Ident); ok {
							key = "method *" + id.Name + "." + d.Name.Name
						}
					}
				}
				out[key]++
			case *ast.GenDecl:
				for _, s := range d.Specs {
					switch s := s.(type) {
					case *ast.TypeSpec:
						out["type "+s.Name.Name]++
					case *ast.ValueSpec:
						for _, n := range s.Names {
							if n.Name != "_" {
								out[d.Tok.String()+" "+n.Name]++
							}
						}
					case *ast.ImportSpec:
						p, _ := strconv.Unquote(s.Path.Value)
						nm := ""
						if s.Name != nil {
							nm = s.Name.Name + " "
						}
						out["import "+nm+p+" in "+f.Name.Name+"/"+strconv.Itoa(len(f.Decls))]++
					}
				}
			}
		}
	}
	return out
}

func vImports(f *ast.File) map[string]bool {
	out := map[string]bool{}
	for _, s := range f.Imports {
		p, _ := strconv.Unquote(s.Path.Value)
		if s.Name != nil {
			p = s.Name.Name + " " + p
		}
		out[p] = true
	}
	return out
}

// The documented merge, for every combination of overlay choices: the result contains every override declaration, every original declaration
// whose name is not overridden, and nothing else; keep-original keeps the body under the prefixed name; purge removes the symbol from both sides
// together with the methods of a purged type; override-signature keeps the original body under the new signature; imports that became unused
// are dropped, all others (blank and dot imports included) are kept; untouched declarations keep their order and initial values.
func VHarness_OverlayMerge() {
	var ch [8]int
	max := [8]int{2, 2, 2, 2, 1, 1, 2, 1}
	for i := range ch {
		ch[i] = VNondetInt(vChoiceNames[i], 0, max[i])
	}
	fset := token.NewFileSet()
	// the original goes through the real parserOriginalFiles (the parse mode matters: pruneImports tells a package use from a local
	// identifier by the parser's object resolution)
	pkg := &PackageData{Package: &build.Package{Dir: "/src/p", GoFiles: []string{"orig.go"}}, bctx: &build.Context{
		OpenFile: func(string) (io.ReadCloser, error) { return vRC{strings.NewReader(vOriginal)}, nil }}}
	origs, err := parserOriginalFiles(pkg, fset)
	VAssert(err == nil && len(origs) == 1, "the original parses")
	orig := origs[0]
	over, err := parser.ParseFile(fset, "gopherjs__over.go", vOverlay(ch), parser.ParseComments)
	VAssert(err == nil, "the overlay parses")
	untouchedSpec := orig.Decls[13].(*ast.GenDecl).Specs[0].(*ast.ValueSpec)
	untouchedVal := untouchedSpec.Values[0]

	// the sequence of parseAndAugment
	overrides := make(map[string]overrideInfo)
	augmentOverlayFile(over, overrides)
	delete(overrides, "init")
	augmentOriginalImports("p", orig)
	if len(overrides) > 0 {
		augmentOriginalFile(orig, overrides)
	}

	got := vCollect([]*ast.File{over, orig})
	want := vDeclSet{"func overlayOnly": 1, "func pair": 1, "var untouched": 1, "func untouchedFn": 1, "const C2": 1, "func shadowing": 1}
	// F
	want["func F"] = 1
	if ch[0] == 2 {
		want["func _gopherjs_original_F"] = 1
	}
	// G
	if ch[1] != 2 {
		want["func G"] = 1
	}
	// Max
	want["func Max"] = 1
	// T and its methods
	if ch[3] != 2 {
		want["type T"] = 1
		want["method T.M"] = 1
		want["method *T.P"] = 1
	}
	// U and its method
	if ch[4] == 0 {
		want["type U"] = 1
		want["method U.String"] = 1
	}
	want["var V"] = 1
	want["var W"] = 1
	want["var X"] = 1
	want["var Y"] = 1
	want["const C"] = 1
	for k, n := range got {
		if len(k) > 7 && k[:7] == "import " {
			continue
		}
		VAssert(want[k] == n, "every name is declared exactly as often as the documented merge says: "+k)
	}
	for k, n := range want {
		VAssert(got[k] == n, "no documented declaration is missing: "+k)
	}

	// where the surviving declarations come from
	origHas := vCollect([]*ast.File{orig})
	VAssert((origHas["func F"] == 1) == (ch[0] == 0), "a replaced function is removed from the original")
	VAssert((origHas["func Max"] == 1) == (ch[2] != 1), "override-signature keeps the original body")
	if ch[2] == 2 {
		for _, d := range orig.Decls {
			if fd, ok := d.(*ast.FuncDecl); ok && fd.Name.Name == "Max" {
				VAssert(fd.Type.TypeParams == nil && fd.Body != nil && len(fd.Type.Params.List) == 1, "the original body now has the overlay's signature")
			}
		}
	}
	VAssert((origHas["type T"] == 1) == (ch[3] == 0), "an overridden type is removed from the original")
	VAssert((origHas["var V"] == 1) == (ch[5] == 0) && origHas["var W"] == 1, "only the overridden name of a multi-value spec is removed")
	VAssert((origHas["var X"] == 1) == (ch[6] == 0) && (origHas["var Y"] == 1) == (ch[6] != 2), "a single-call multi-value spec loses overridden names (as _) and disappears when all are overridden")
	VAssert((origHas["const C"] == 1) == (ch[7] == 0), "an overridden constant is removed from the original")

	// imports of the original: dropped exactly when their only user is gone
	imps := vImports(orig)
	changed := len(overrides) > 0
	_ = changed
	VAssert(imps["strings"] == (ch[1] == 0), "strings is imported iff G (its only user) is still in the original")
	VAssert(imps["cmp"] == (ch[2] == 0), "cmp is imported iff the original Max still uses it in its signature")
	VAssert(imps["fmt"] == (ch[4] == 0), "fmt is imported iff U.String (its only user) is still there")
	VAssert(imps[". math"] && imps["_ unicode"], "dot and blank imports are kept")
	oimps := vImports(over)
	VAssert(oimps["strconv"], "the overlay keeps the import it still uses")

	// untouched declarations
	VAssert(untouchedSpec.Values[0] == untouchedVal && untouchedSpec.Names[0].Name == "untouched", "untouched declarations keep their initial values")
	idx := map[string]int{}
	for i, d := range orig.Decls {
		switch d := d.(type) {
		case *ast.FuncDecl:
			idx[d.Name.Name] = i
		case *ast.GenDecl:
			for _, s := range d.Specs {
				if vs, ok := s.(*ast.ValueSpec); ok {
					for _, n := range vs.Names {
						idx[n.Name] = i
					}
				}
			}
		}
	}
	VAssert(idx["pair"] < idx["untouched"] && idx["untouched"] < idx["untouchedFn"] && idx["untouchedFn"] < idx["C2"], "untouched declarations keep their order")
	VReach("merge-checked")
}

// go/build.Default is not needed by the merge; its real initialiser cannot be followed by the interpreter (see C18)
func VStub_DefaultContextC12() build.Context { return build.Context{GOARCH: "amd64", GOOS: "linux", Compiler: "gc"} }
