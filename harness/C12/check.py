"""C12 — standard-library overlays merge exactly as the directives say.

Kernel check (gosym engine): go/parser runs inside the interpreter on an original file containing every kind of declaration the merge
distinguishes and on an overlay assembled from SYMBOLIC CHOICES (per name: absent / replaced / keep-original / purge / override-signature);
the real augmentOverlayFile, augmentOriginalImports, augmentOriginalFile (with pruneImports, finalizeRemovals, astutil directives) are
executed on the parsed trees and the merged declarations, imports, and untouched declarations are compared with the documented merge."""
import os, sys
sys.path.insert(0, os.path.dirname(os.path.dirname(os.path.dirname(os.path.abspath(__file__)))))
from vlib import core, gokernel

STD = ['strings', 'unicode/utf8', 'unicode', 'internal/bytealg', 'errors', 'fmt', 'sort', 'slices', 'bytes', 'io', 'strconv', 'go/token', 'go/scanner', 'go/parser', 'go/ast', 'regexp', 'regexp/syntax', 'path', 'path/filepath',
       'go/build/constraint', 'internal/godebugs', 'internal/godebug', 'cmp', 'maps', 'iter', 'sync', 'sync/atomic', 'github.com/gopherjs/gopherjs/compiler/astutil', 'golang.org/x/tools/go/buildutil', 'go/build', 'io/fs', 'os', 'time', 'internal/oserror']


def main():
    tier = core.tier()
    k = gokernel.Kernel('C12', 'build', ['augment_harness.go'], init=['github.com/gopherjs/gopherjs/build'] + STD, stubs=[('go/build.defaultContext', 'VStub_DefaultContextC12')])
    rc, ev = gokernel.run_kernels('C12', [k], tier,
                                  title='the overlay merge (augmentOverlayFile / augmentOriginalImports / augmentOriginalFile / pruneImports / finalizeRemovals) on every combination of overlay choices for one original file',
                                  bounds={'original': 'one file with a function, a generic function, a type with value and pointer methods, a second type with a method, a multi-value var spec, a single-call multi-value var spec, a constant, blank and dot imports, three imports each used by one declaration, untouched declarations',
                                          'overlay': 'every combination of per-name choices (function: absent/replaced/keep-original, function: absent/replaced/purge, generic function: absent/replaced/override-signature, type: absent/replaced/purge, type: absent/purge, var of a multi-value spec, one or both names of a single-call spec, constant): 3*3*3*3*2*2*3*2 = 1944 overlays',
                                          'outside': 'other declaration shapes; several original files; the post-load tweaks of build/context.go; type-checking of the merged package (imports are checked by an independent use scan instead)'},
                                  explanation='go/parser and the real merge code executed in the go/ssa interpreter; the overlay text is assembled from solver-enumerated choices; the expectation is computed in the harness from the documented rules')
    return rc


if __name__ == '__main__':
    sys.exit(main())
