#!/usr/bin/env python3
"""Engine validation for gosym: engine/gosym/selftest/cases.go is run natively and through the engine (inputs symbolic but pinned to the
vectors); every result must agree.  Prints a one-line summary; exit 1 on disagreement."""
import json, os, subprocess, sys, tempfile
sys.path.insert(0, os.path.dirname(os.path.dirname(os.path.abspath(__file__))))
from vlib import core, gokernel

D = os.path.join(core.VERIF, 'engine', 'gosym', 'selftest')


def main():
    p = core.run(['go', 'run', '.'], cwd=D)
    rows = {}
    for ln in p.stdout.split('\n'):
        if ln.strip():
            i, j, v = ln.split()
            rows.setdefault(int(i), {})[int(j)] = int(v)
    nv = len(rows[0])
    exp = ', '.join('{' + ', '.join(str(rows[i][j]) for j in range(nv)) + '}' for i in sorted(rows))
    names = lambda pfx: ', '.join('"%s%d"' % (pfx, k) for k in range(len(rows) * nv))
    tmpl = open(os.path.join(D, 'harness.go.tmpl')).read()
    text = tmpl.replace('NAMESX', names('x')).replace('NAMESY', names('y')).replace('EXPECTED', exp).replace('NVEC', str(nv))
    work = tempfile.mkdtemp(prefix='gosymself-', dir=core.scratch())
    hp = os.path.join(work, 'zz_harness.go')
    open(hp, 'w').write(text)
    ov = os.path.join(work, 'overlay.json')
    json.dump({os.path.join(D, 'zz_harness.go'): hp}, open(ov, 'w'))
    out = os.path.join(work, 'out.json')
    cmd = [gokernel.gosym_bin(), '-dir', D, '-pkg', '.', '-overlay', ov, '-harness', '^VHarness', '-out', out, '-solver', core.Z3, '-init', 'gosymself,strings,unicode/utf8,unicode,internal/bytealg,errors', '-workers', '1']
    q = core.run(cmd, check=False, timeout=1200)
    if q.returncode != 0:
        print('gosym selftest: engine failed:', q.stderr[-800:])
        return 1
    res = json.load(open(out))
    bad = 0
    for r in res['results']:
        v = r['violations'] or []
        incomplete = r['ends'].get('normal', 0) + r['ends'].get('assume', 0) != r['paths'] or not r['reached']
        print('gosym selftest %s: %d paths %s, %d assertions agree, %d disagree%s' % (r['harness'], r['paths'], r['ends'], r['asserts_ok'], len(v), ' (INCOMPLETE: %s)' % json.dumps(r['end_detail'])[:300] if incomplete else ''))
        bad += len(v) + (1 if incomplete else 0)
    return 1 if bad else 0


if __name__ == '__main__':
    sys.exit(main())
