#!/usr/bin/env python3
"""tools/try.py <file.go> [cfg-json] — compile one template and print its path summaries (debug aid)."""
import sys, os, json, time
sys.path.insert(0, os.path.dirname(os.path.dirname(os.path.abspath(__file__))))
from vlib import core, tv
src = open(sys.argv[1]).read()
if 'func NondetInt8' not in src:
    imps, rest = tv._hoist_imports(src.replace('package main\n', '', 1))
    src = 'package main\n' + '\n'.join(imps) + '\n' + tv.NONDET_DECLS + rest
cfg = json.loads(sys.argv[2]) if len(sys.argv) > 2 else {}
d = os.path.join(core.scratch(), 'try')
core.write_pkg(d, {'main.go': src})
ok, out = core.compile_js(d)
if not ok:
    print(out); sys.exit(1)
if cfg.get('show'):
    import re
    js = open(out).read()
    i = js.rfind('$packages["verifprog"]')
    print(js[i:i + int(cfg['show'])])
t0 = time.time()
res = core.explore(out, cfg)
print({k: v for k, v in res.items() if k not in ('paths', 'smtPrelude')}, 'wall %.1fs' % (time.time() - t0))
for p in res['paths'][:int(cfg.get('n', 40))]:
    print(''.join('T' if b else 'F' for b in p['prefix']), p['term'], p['flags'])
    for o in p['obs']:
        print('    ', json.dumps(o)[:int(cfg.get('w', 300))])
