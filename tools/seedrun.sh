#!/bin/sh
# tools/seedrun.sh <seed-dir-name> <property> [VERIF_ONLY regex]
# Runs a check against a scratch worktree of /repo with the seeded change applied (VERIF_REPO), so /repo itself stays untouched
# and other checks can run at the same time.  Prints the number of VIOLATION lines.
seed=/verif/seeded/$1; pid=$2
wt=/tmp/wt/seedrun-$1-$$
mkdir -p /tmp/wt
git -C /repo worktree add -q --detach "$wt" HEAD || exit 2
p="$seed/patch.diff"; [ -f "$seed/patch.rebased.diff" ] && p="$seed/patch.rebased.diff"
( cd "$wt" && git apply "$p" ) || { echo "SEED $1: patch does not apply"; git -C /repo worktree remove --force "$wt"; exit 2; }
cd /verif && VERIF_REPO="$wt" VERIF_ONLY="$3" VERIF_NO_EVIDENCE=1 timeout ${SEED_TIMEOUT:-2400} ./check $pid > /tmp/wt/seedrun-$1-$pid.log 2>&1
n=$(grep -c "^VIOLATION" /tmp/wt/seedrun-$1-$pid.log)
echo "SEED $1 on $pid: violations=$n; $(grep "^$pid " /tmp/wt/seedrun-$1-$pid.log | cut -c1-160)"
grep "^  case" /tmp/wt/seedrun-$1-$pid.log | cut -c1-200 | head -3
git -C /repo worktree remove --force "$wt"
