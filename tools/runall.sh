#!/bin/sh
# tools/runall.sh [quick|thorough] [ids...] : run registered checks one after another, print a summary line for each
tier=${1:-quick}; shift
ids=${@:-$(python3 -c "import json; print(' '.join(c['property_id'] for c in json.load(open('/verif/MANIFEST.json'))['checks']))")}
cd /verif
for id in $ids; do
  s=$(date +%s)
  ./check $id --tier $tier > /tmp/runall_$id.log 2>&1; rc=$?
  e=$(date +%s)
  echo "$id rc=$rc $((e-s))s $(grep -c '^VIOLATION' /tmp/runall_$id.log) violations; $(grep "^$id $tier" /tmp/runall_$id.log | cut -c1-200)"
done
