#!/usr/bin/env python3
"""tools/confirm_seed2.py <src-dir> <PROPERTY> <name> '<demo command with {bin} and {wt}>'
Like confirm_seed.py, for demonstrations that are scripts / Go tests: the command is run (cwd = <src>/demo) once against the
unchanged tree+binary and once against the changed one; the seed is confirmed if the two outputs differ, the unchanged output
equals demo/expected.txt (when present), the tree builds, and the repository's tests have the same pass/fail set."""
import json, os, shutil, subprocess, sys, tempfile
sys.path.insert(0, os.path.dirname(os.path.abspath(__file__)))
from confirm_seed import ENV, VERIF, sh, test_results, norm


def main():
    src, pid, name, cmd = os.path.abspath(sys.argv[1]), sys.argv[2], sys.argv[3], sys.argv[4]
    os.makedirs('/tmp/wt', exist_ok=True)
    base_cache = '/tmp/wt/baseline_tests.json'
    wt = '/tmp/wt/confirm2-%s-%s' % (pid, name)
    sh(['git', '-C', '/repo', 'worktree', 'remove', '--force', wt])
    sh(['git', '-C', '/repo', 'worktree', 'add', '--detach', wt, 'HEAD'])
    res = {'property': pid, 'name': name}
    try:
        bindir = tempfile.mkdtemp(prefix='bin-')
        orig, mut = os.path.join(bindir, 'gopherjs.orig'), os.path.join(bindir, 'gopherjs.mut')
        rc, out = sh(['go', 'build', '-o', orig, '.'], cwd=wt)
        assert rc == 0, out
        base = json.load(open(base_cache)) if os.path.exists(base_cache) else test_results(wt)
        json.dump(base, open(base_cache, 'w'))
        demo = os.path.join(src, 'demo')
        rc, o1 = sh(cmd.format(bin=orig, wt=wt), cwd=demo)
        rc, out = sh(['git', 'apply', os.path.join(src, 'patch.diff')], cwd=wt)
        res['applies'] = rc == 0
        assert rc == 0, out
        rc, out = sh('go build ./... 2>&1', cwd=wt)
        res['builds'] = rc == 0
        assert rc == 0, out
        rc, out = sh(['go', 'build', '-o', mut, '.'], cwd=wt)
        assert rc == 0, out
        rc, o2 = sh(cmd.format(bin=mut, wt=wt), cwd=demo)
        res['demo_differs'] = norm(o1) != norm(o2)
        res['demo_orig'], res['demo_mut'] = norm(o1)[:40], norm(o2)[:40]
        after = test_results(wt)
        diff = {k: (base.get(k), after.get(k)) for k in set(base) | set(after) if base.get(k) != after.get(k)}
        res['tests_same'] = not diff
        res['tests_diff'] = dict(list(diff.items())[:10])
        res['confirmed'] = bool(res['builds'] and res['demo_differs'] and res['tests_same'])
        if res['confirmed']:
            dst = os.path.join(VERIF, 'seeded', '%s-%s' % (pid, name))
            shutil.rmtree(dst, ignore_errors=True)
            os.makedirs(dst)
            shutil.copy(os.path.join(src, 'patch.diff'), dst)
            shutil.copytree(demo, os.path.join(dst, 'demo'), ignore=shutil.ignore_patterns('out.js*', '*.bin', 'gopherjs', 'actual.txt', 'got.txt'))
            meta = {}
            try:
                meta = json.load(open(os.path.join(src, 'meta.json')))
            except Exception:
                pass
            meta.update({'property': pid, 'demo_command': cmd, 'confirmed_by': 'tools/confirm_seed2.py: applied in a scratch worktree of /repo HEAD; go build ./... ok; go test -vet=off -count=1 -json ./... gives the same '
                         'pass/fail set as the unchanged tree (%d tests compared); the demonstration command gives different output with the unchanged and the changed tree' % len(after),
                         'demo_output_unchanged': res['demo_orig'], 'demo_output_changed': res['demo_mut']})
            json.dump(meta, open(os.path.join(dst, 'meta.json'), 'w'), indent=1)
        shutil.rmtree(bindir, ignore_errors=True)
    except AssertionError as e:
        res['error'] = str(e)[-1500:]
        res['confirmed'] = False
    finally:
        sh(['git', '-C', '/repo', 'worktree', 'remove', '--force', wt])
    print(json.dumps(res, indent=1)[:3000])


if __name__ == '__main__':
    main()
