#!/usr/bin/env python3
"""tools/confirm_seed.py <src-dir-with-patch.diff,demo/,meta.json> <PROPERTY> <name>
Confirms a seeded change independently: applies it in a scratch worktree of /repo, checks that it builds, that the
repository's test suite has the same pass/fail set as the unchanged tree, and that the demonstration fails with the
change and passes without it.  On success copies it to /verif/seeded/<PROPERTY>-<name>/ with a meta.json."""
import json, os, re, shutil, subprocess, sys, tempfile

ENV = dict(os.environ, GOFLAGS='-mod=mod', GOPROXY='off', GOSUMDB='off', GOTOOLCHAIN='local', GOPHERJS_SKIP_VERSION_CHECK='true')
VERIF = os.path.dirname(os.path.dirname(os.path.abspath(__file__)))


def sh(cmd, cwd=None, timeout=3000):
    p = subprocess.run(cmd, cwd=cwd, env=ENV, shell=isinstance(cmd, str), stdout=subprocess.PIPE, stderr=subprocess.STDOUT, text=True, timeout=timeout)
    return p.returncode, p.stdout


def test_results(tree):
    rc, out = sh('go test -vet=off -count=1 -json ./... 2>&1', cwd=tree)
    res = {}
    for ln in out.split('\n'):
        if not ln.startswith('{'):
            continue
        try:
            d = json.loads(ln)
        except ValueError:
            continue
        if d.get('Action') in ('pass', 'fail') and d.get('Test'):
            res[d['Package'] + '::' + d['Test']] = d['Action']
    return res


def run_demo(gopherjs, demo):
    d = tempfile.mkdtemp(prefix='demo-')
    for f in os.listdir(demo):
        if os.path.isdir(os.path.join(demo, f)) and not f.startswith('.'):
            shutil.copytree(os.path.join(demo, f), os.path.join(d, f))
        if f.endswith('.go') or f == 'go.mod':
            shutil.copy(os.path.join(demo, f), d)
    rc, out = sh([gopherjs, 'build', '-o', 'out.js'] + (['-m'] if os.environ.get('SEED_MINIFY') else []) + ['.'], cwd=d)
    if rc != 0:
        shutil.rmtree(d)
        return 'BUILD FAILED\n' + out
    p = subprocess.run(['node', 'out.js'], cwd=d, stdout=subprocess.PIPE, stderr=subprocess.STDOUT, text=True, timeout=120)
    shutil.rmtree(d)
    return p.stdout + 'exit %d\n' % p.returncode


def norm(t):
    # drop stack traces / paths, keep printed lines and exit code
    keep = []
    for ln in t.split('\n'):
        ln = ln.rstrip()
        if not ln or ln.lstrip().startswith('at ') or '/tmp/' in ln or ln.startswith('Node.js') or ln.strip() in ('^', 'throw err;'):
            continue
        keep.append(ln)
    return keep


def main():
    src, pid, name = sys.argv[1], sys.argv[2], sys.argv[3]
    base_cache = '/tmp/wt/baseline_tests.json'
    wt = tempfile.mkdtemp(prefix='confirm-', dir='/tmp/wt')
    os.rmdir(wt)
    sh(['git', '-C', '/repo', 'worktree', 'add', '--detach', wt, 'HEAD'])
    result = {'property': pid, 'name': name}
    try:
        bindir = tempfile.mkdtemp(prefix='bin-')
        rc, out = sh(['go', 'build', '-o', os.path.join(bindir, 'gopherjs.orig'), '.'], cwd=wt)
        assert rc == 0, out
        if os.path.exists(base_cache):
            base = json.load(open(base_cache))
        else:
            base = test_results(wt)
            json.dump(base, open(base_cache, 'w'))
        rc, out = sh(['git', 'apply', os.path.join(os.path.abspath(src), 'patch.diff')], cwd=wt)
        result['applies'] = rc == 0
        assert rc == 0, out
        rc, out = sh('go build ./... 2>&1', cwd=wt)
        result['builds'] = rc == 0
        assert rc == 0, out
        rc, out = sh(['go', 'build', '-o', os.path.join(bindir, 'gopherjs.mut'), '.'], cwd=wt)
        assert rc == 0, out
        demo = os.path.join(src, 'demo')
        o_orig = run_demo(os.path.join(bindir, 'gopherjs.orig'), demo)
        o_mut = run_demo(os.path.join(bindir, 'gopherjs.mut'), demo)
        result['demo_differs'] = norm(o_orig) != norm(o_mut)
        result['demo_orig'] = norm(o_orig)[:40]
        result['demo_mut'] = norm(o_mut)[:40]
        after = test_results(wt)
        diff = {k: (base.get(k), after.get(k)) for k in set(base) | set(after) if base.get(k) != after.get(k)}
        result['tests_same'] = not diff
        result['tests_diff'] = dict(list(diff.items())[:10])
        result['tests_counted'] = len(after)
        ok = result['builds'] and result['demo_differs'] and result['tests_same']
        result['confirmed'] = ok
        if ok:
            dst = os.path.join(VERIF, 'seeded', '%s-%s' % (pid, name))
            shutil.rmtree(dst, ignore_errors=True)
            os.makedirs(dst)
            shutil.copy(os.path.join(src, 'patch.diff'), dst)
            shutil.copytree(demo, os.path.join(dst, 'demo'), ignore=shutil.ignore_patterns('out.js*', '*.bin', 'gopherjs'))
            meta = {}
            try:
                meta = json.load(open(os.path.join(src, 'meta.json')))
            except Exception:
                pass
            meta.update({'property': pid, 'confirmed_by': 'tools/confirm_seed.py: applied in a scratch worktree of /repo HEAD; go build ./... ok; '
                         'go test -vet=off -count=1 -json ./... gives the same pass/fail set as the unchanged tree (%d tests compared); '
                         'demo output differs between unchanged and changed compiler' % len(after),
                         'demo_output_unchanged': result['demo_orig'], 'demo_output_changed': result['demo_mut']})
            json.dump(meta, open(os.path.join(dst, 'meta.json'), 'w'), indent=1)
        shutil.rmtree(bindir, ignore_errors=True)
    except AssertionError as e:
        result['error'] = str(e)[-1500:]
        result['confirmed'] = False
    finally:
        sh(['git', '-C', '/repo', 'worktree', 'remove', '--force', wt])
    print(json.dumps(result, indent=1))
    os.makedirs('/tmp/wt/confirm', exist_ok=True)
    json.dump(result, open('/tmp/wt/confirm/%s-%s.json' % (pid, name), 'w'), indent=1)


if __name__ == '__main__':
    main()
