#!/bin/sh
# Runs /repo's pinned test suite (guard off: there are no source hooks) and compares with the baseline list.
export GOFLAGS=-mod=mod GOPROXY=off GOSUMDB=off GOTOOLCHAIN=local
cd "${1:-/repo}" && go test -vet=off -count=1 -json ./... 2>/dev/null | python3 -c "
import sys,json
res={}
for ln in sys.stdin:
    if not ln.startswith('{'): continue
    try: d=json.loads(ln)
    except Exception: continue
    if d.get('Action') in('pass','fail') and d.get('Test'): res[d['Package']+'::'+d['Test']]=d['Action']
base=json.load(open('/root/.vp/BASELINE.json'))
sp=set(base['stable_pass'])
passed={k for k,v in res.items() if v=='pass'}
missing=sorted(sp-passed)
print('passed',len(passed),'of baseline',len(sp),'missing',missing[:10])
sys.exit(1 if missing else 0)
"
