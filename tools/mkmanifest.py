#!/usr/bin/env python3
"""Regenerates MANIFEST.json from the table below (kept in one place so it is always valid)."""
import json, os
HERE = os.path.dirname(os.path.dirname(os.path.abspath(__file__)))
ALL = ['C%02d' % i for i in range(1, 21)]

TV_NOTE = ('trusted: acorn parser, node (replays), z3 5.1, the instrumenter/runtime in engine/jsx (any unsupported construct aborts the path as inconclusive; solver models are replayed on go vs gopherjs+node before a violation is reported), '
           'the hand-written references in harness/<id>/check.py and vlib/gospec.py / vlib/utf8spec.py. "For all programs" is claimed only for the listed corpus; for each program the claim is for all inputs within the stated bounds.')
TV_TECH = 'symbolic execution of the JavaScript emitted by the real compiler (instrumented, with the real prelude) + z3 comparison with a specification-derived reference; counterexamples replayed on go vs gopherjs+node'


def tv(text, ref, **kw):
    d = dict(category='translation_validation', text=text, design_ref=ref, note=TV_NOTE, technique=TV_TECH)
    d.update(kw)
    return d


CHECKS = {
 'C01': tv('A corpus of 47 templates, one or more per statement/expression form of the translator (if/else with init, expression/tagless/type switch with fallthrough and break, for/range over every rangeable kind, '
           'labels, goto, closures capturing loop variables, tuple assignment and forwarding, variadics, op-assign, method values/expressions, embedding, composite literals, zero values, builtins, copy overlap, '
           'constants, conversions, reserved-word and JS-global identifiers, goroutines+select, endings by uncaught panic and deadlock, package initialisation): the emitted JavaScript is executed symbolically and '
           'every path must give the trace and ending the Go specification prescribes, for all int16 input pairs and selectors. Every program is also built with and without -m and passed to node --check (plain observation).', 'DESIGN.md §4 C01'),
 'C02': tv('Each dynamic call of a yield intrinsic is a symbolic boolean: the goroutine suspends exactly as a blocking runtime primitive would ($block, {$blk} frame, $schedule) or not. '
           'For a corpus of 16 programs (yield reached through direct/method/method-value/method-expression/interface/closure/generic calls, in argument lists, && / ||, loops, switch, '
           'defer+named results, return with blocking defers, panic/recover, package initialisers, another goroutine) every subset of yield points and all int16 inputs give the specified trace.', 'DESIGN.md §4 C02'),
 'C03': dict(category='model_checking',
             text='27 small closed systems (<=4 goroutines x <=4 channel ops, capacities 0..2 and nil, select with/without default, close, range) are compiled and the real $send/$recv/$close/$select/'
                  '$go/$schedule/$runScheduled are executed under every resolution of Math.random, the time-slice break (symbolic clock) and timer order, with symbolic int8 payloads; each path must be an '
                  'outcome of an explicit-state reference of Go channel semantics (value identities decided by z3).', design_ref='DESIGN.md §4 C03',
             note='trusted: the reference semantics (class Ref in harness/C03/check.py), engine/jsx, acorn, z3. Fairness beyond "a woken goroutine is scheduled" is outside the claim.',
             technique='exhaustive exploration of the runtime\'s nondeterministic choices as solver-level choice variables over the real prelude + explicit-state reference model of Go channels; payload equalities by z3'),
 'C04': tv('29 generic templates: per-instance arithmetic width for all operand values (add/mul/neg/shift/conversion at int8..uint32, int, named types, 64-bit add/neg), zero values of every kind, generic types with '
           'methods / embedding / interfaces, constraints with methods and core types, nested and recursive instantiation through other generic code, types (also generic and self-referential ones) declared inside generic functions and anonymous types built from them, comparability and map keys of instances whose type argument comes from a package set up later, blocking inside generic code for '
           'every subset of yield points, instances created in and across two packages; identity and distinctness of instances decided on every path by type switches, assertions, interface equality and map keys under symbolic '
           'selectors. A valid template on which the compiler aborts with an internal error (bailout or crashed compiler process) counts as a violation.', 'DESIGN.md §4 C04'),
 'C05': tv('14 programs that reach code only through the indirections the property lists (interfaces incl. interface method expressions, method values/expressions, embedding incl. embedded interfaces and anonymous structs, '
           'generic instances reached through other generic code and local types in generic functions, side-effecting initialisers of unused variables, go:linkname in both import directions, another package, go/defer entry points, '
           'function tables, types used only in assertions, error/panic values) are linked twice by the real compiler - normally and by a variant that keeps every declaration alive (one added statement, injected with go build -overlay) - '
           'and both linked files are executed symbolically; every path of both must satisfy the same reference for all inputs.', 'DESIGN.md §4 C05'),
 'C06': tv('For every (operator, operand type, operand shape) of a generated matrix (~1650 cases quick, ~3200 thorough) the Go one-liner is compiled by the real compiler and the emitted JavaScript, '
           'with the real prelude helpers ($mul64, $div64, $shiftLeft64, $imul, ...), is executed symbolically for ALL operand values; z3 (integer encoding, with a sound 128-bit bit-vector translation as '
           'fallback) decides per path that value and panic behaviour equal the operator table of the Go specification. Full operand width except 64-bit division/remainder (operands < 2^8 quick, 2^20 thorough). '
           'float64 / float32 + - * / (also nested and with constants), negation and comparisons are covered with float32 semantics taken as "round the double result to single" (so what is decided for float32 is the operator and the placement of $fround); float64 -> int32/uint32/int64/uint64 (every in-range double; words made from doubles keep a bit-vector view so the comparison stays inside the FP/BV theories) and int32/uint32 -> float32/float64 are decided in both tiers, the narrower and remaining conversions in the thorough tier; int64 -> float64/float32 through the general engine is inconclusive (Int<->BitVec bridge under a rounding), instead the prelude helper $flatten64ToFloat32 is translated from its current source text by engine/jsx/fn2smt.js into BitVec/Float64 terms and decided for all 2^64 arguments against (_ to_fp 8 24) RNE, with branch witnesses and native replay of any model; complex arithmetic is not covered.', 'DESIGN.md §4 C06'),
 'C07': tv('30 alias probes: every copying context (assign, call argument, return, range value, send, select-send, map/slice/field store, interface boxing, method value, value receiver, embedding, '
           'closure capture, dereference) and aliasing context (pointers to fields/elements/package variables, subslices, append within/over capacity, maps, closures, copy) with symbolic stored values; '
           'printed values must equal the specification for all int16 pairs and symbolic indices/lengths.', 'DESIGN.md §4 C07'),
 'C08': tv('32 templates: run-time checks (array/slice/string index, 2- and 3-index slicing, make, slice-to-array, nil map / pointer / func, divide by zero incl. constant dividends, type assertion, uncomparable interface comparison incl. the same boxed value on both sides and uncomparable fields nested in structs/arrays declared in either order, '
           'close/send on nil/closed channels) with full-width symbolic indices, and defer/recover shapes (LIFO, argument capture, named results, indirect recover, re-panic, nested recover, panic in defer, '
           'runtime.Error) where a symbolic selector picks the panicking operation; trace and termination must equal the specification on every path.', 'DESIGN.md §4 C08'),
 'C09': tv('18 type-family templates: symbolic selectors pick the dynamic type (named vs underlying, unnamed composite types, same-named types declared in different functions or packages, struct types differing only in '
           'field name / tag / package of a non-exported field) and the assertion target; method sets through value and pointer embedding at depth <= 3 (13 receiver shapes x value/pointer/both interfaces), '
           'dispatch through interfaces, embedded fields, method values and expressions with payloads mutated afterwards (receiver copied vs shared), interface-to-interface assertions, nil, interface equality incl. '
           'uncomparable panics, dynamic types as map keys; every path must give the trace Go prescribes.', 'DESIGN.md §4 C09'),
 'C10': tv('7 multi-package / multi-file templates: a chain+diamond of four packages, three files of one package (twice, with the file names swapped), hidden initialisation dependencies through methods, closures, method '
           'expressions and multi-value initialisers, init functions that run once and before main, a goroutine started from init; every variable initialiser and init function calls the yield intrinsic, and each dynamic yield is a '
           'symbolic boolean, so the prescribed order is decided for EVERY subset of suspending initialisers (a suspended initialiser is never overtaken). go:linkname to a function, a value method and a pointer method with the import '
           'graph pointing either way; the three unsupported uses must make the real build fail (plain observation).', 'DESIGN.md §4 C10'),
 'C11': tv('20 templates importing gopherjs/js: symbolic Go values are passed to JavaScript as property values, call arguments, results of exposed functions and fields of a struct wrapping a JavaScript object, and read back; the real '
           '$externalize / $internalize / $externalizeFunction / $sliceToNativeArray and the js.Object call translation are executed symbolically. Round trip is the identity for bool, all integer widths (64-bit within +-2^53), every float64/float32 '
           '(NaN, signed zero), every valid UTF-8 string up to 4 bytes (JavaScript sees the UTF-16 of the same code points); typed-array class, length and elements for every numeric slice type and all windows of a backing array; Arrays, Objects, '
           'map[string]any, documented dynamic types of .Interface(), nil/null/undefined, wrapper identity of functions, converted arguments/results, blocking in a JavaScript callback fails with the documented error. Counterexamples are confirmed by '
           'evaluating the reference on the real gopherjs+node output (there is no native counterpart).', 'DESIGN.md §4 C11'),
 'C13': tv('Overrides are exercised through templates importing math, math/bits, sync/atomic, unicode and gopherjs/nosync (the real overlay merge builds them): bits.Add32 (Mul32/Div32/Rem32 in the thorough tier), '
           'atomic Add/Swap/CompareAndSwap/Load/Store on int32/uint32/uintptr/int64 vs their sequential specification, nosync Mutex/RWMutex/WaitGroup/Once/Map/Pool histories chosen by symbolic selectors '
           '(panic exactly where sync would block), unicode case-mapping laws, and math Floor/Ceil/Trunc/Sqrt/Copysign/Signbit/IsNaN/IsInf/Min/Max/Modf for every float64 (plus Ldexp on its fast path and at its edges) in the SMT FloatingPoint theory.', 'DESIGN.md §4 C13'),
 'C14': tv('13 templates over fully symbolic byte strings (every byte 0..255, length 0..4 quick / 0..5 thorough): range, []rune, string(rune) for every int32, string([]rune), indexing, slicing, compare, concat, '
           '[]byte round trip, copy/append from string, map key, switch, and awkward literals; the trace must equal a UTF-8 reference written from the specification on every path.', 'DESIGN.md §4 C14'),
 'C15': tv('Two symbolic keys of each comparable key type (all integer widths, bool, string, named string, float64 incl. NaN/+-0, complex128 with NaN / signed-zero parts, int/string arrays, structs, nested structs, struct with int64, interface with '
           'int32 / named int32 / string / nil dynamic types, pointers) go through insert/overwrite/lookup/delete/len; results must be those dictated by Go == for all key values (strings include the separator and '
           'escape characters). Plus symbolic operation histories over three int8 keys and range-with-deletion.', 'DESIGN.md §4 C15'),
 'C16': tv('The C02/C07/C08/C14 corpora and a third of the C06 matrix are rebuilt with -m and the minified linked file is executed symbolically against the same references; plus minify-specific templates '
           '(identifier exhaustion past the reserved words do/if/in, shadowing, local types in closures, awkward string literals, adjacent unary/binary minus).', 'DESIGN.md §4 C16'),
}
K_NOTE = ('trusted: go/packages + go/ssa (x/tools v0.29.0), z3 5.1, the interpreter fork in engine/gosym (constructs it cannot follow end a path as "unsupported", which makes the harness incomplete, never passed), '
          'the harness code in harness/<id>/*.go (the reference is written inside the harness as plain Go) and the listed stubs. Violations are replayed natively (go test -overlay) before they are reported.')
K_TECH = 'symbolic execution of the go/ssa form of the real functions (engine/gosym: interpreter with symbolic scalars; every branch, concretisation and assertion decided by z3 over bit-vectors); models replayed natively against the real package'


def kern(text, ref, **kw):
    d = dict(category='other', text=text, design_ref=ref, note=K_NOTE, technique=K_TECH, engine='gosym')
    d.update(kw)
    return d


KERNELS = {
 'C19': kern('internal/sourcemapx (Filter.Write, FindHint, ReadHint, Hint.WriteTo) executed symbolically from the current source: one Write call from an ARBITRARY filter state (symbolic line/column) on every chunk of <= 2 hints / <= 2 code bytes per segment / '
             '<= 2 payload bytes (quick: two smaller shapes) must produce exactly what a plain rescan of the chunk from that state produces: output = input minus hints, no magic byte in the output, one callback per hint at the output position of the '
             'first byte after it and with that hint\'s payload, n = bytes consumed, line/column afterwards. Rescanning is compositional, so the step covers all streams and chunkings (that do not split a hint) built from such chunks; explicit '
             'chunkings of small streams and the ReadHint/WriteTo round trip for all payloads are checked as well. Hint.Unpack (gob) and FileSet.Position are stubbed.', 'DESIGN.md §4 C19'),
 'C20': kern('build/cache (Store, Load, serialize, deserialize, isTestPackage, packageKey, commonKey, cachedPath) executed symbolically from the current source against a fake file system, gzip and gob layer whose every operation may fail '
             '(fault schedule = symbolic booleans: mkdir, createtemp, encode, gzip flush, rename, open, gzip header, build-time decode, payload decode, closing checksum) and with symbolic store / source-modification instants: a hit is reported only if '
             'every read step succeeded, the entry is not older than the sources (real time.Time.After on symbolic instants), the payload is returned unchanged and is not decoded before the staleness test; Store writes the final path only by '
             'renaming a completely written temporary file and leaves nothing under the final name on failure; the package under test and its _test twin are never stored or loaded; two configurations / import paths share a cache file '
             'only if equal field by field (sha256 assumed collision-free).', 'DESIGN.md §4 C20'),
 'C18': kern('One package directory holding a file per tag (//go:build TAG and //go:build !TAG for 20 tags: GOOS/GOARCH values, compilers, always-on tags, release tags around the supported version, cgo, foreign systems, user tags), '
             'per file-name suffix form (16 names), a cgo file and .inc.js candidates is imported through the real simpleCtx.Import (goCtx + applyPreloadTweaks + go/build.Import + incjs.FromDir, all executed in the go/ssa interpreter over a fake file '
             'system) as a user package and as a standard-library package, for every subset of two user tags: the selected Go files and .inc.js files must be exactly the documented ones. Every tag of two characters over [a-z0-9.] '
             '(three in the thorough tier) is decided symbolically: satisfied iff it is js or gc. Plain observations on the real toolchain: command-line tags reach imported packages, cgo files are ignored, .inc.js files are included. '
             'go/build.Default is stubbed (ReleaseTags go1.1..go1.23).', 'DESIGN.md §4 C18'),
 'C17': kern('Kernel level only: the go/ssa interpreter runs the analysed call with SYMBOLIC MAP ITERATION ORDER (every range over a map is executed under every permutation of its entries, each permutation a solver-enumerated path). '
             'analysis.EscapingObjects on a parsed and type-checked function (go/parser and go/types run inside the interpreter) must report the escaping variables in syntax order under every permutation (this is what identifier '
             'allocation depends on); dce.Info.getDeps must return the sorted list for every subset of 5 dependencies and every order; sources.Sources.Sort must give descending name order for every permutation of 4 files. '
             'Whole-compiler determinism (go/types, translator state) is not encodable: it is only observed by repeated builds in fresh processes (GOMAXPROCS varied, files listed in both orders, with and without -m) compared byte for byte. '
             'Sites without a harness are listed in the evidence.', 'DESIGN.md §4 C17'),
 'C12': kern('go/parser runs inside the go/ssa interpreter on an original file that contains every kind of declaration the merge distinguishes (function, generic function, type with value and pointer methods, multi-value and single-call var specs, '
             'constant, blank / dot / single-use imports, untouched declarations) and on an overlay assembled from SYMBOLIC CHOICES per name (absent / replaced / keep-original / purge / override-signature: all 1944 combinations, each a solver-enumerated path); '
             'the real augmentOverlayFile, augmentOriginalImports, augmentOriginalFile with pruneImports, finalizeRemovals and the astutil directive matcher are executed on the parsed trees, and the merged declaration multiset, the origin of each survivor, '
             'the rewritten signature, the imports of both files and the order / initial values of untouched declarations are compared with the documented merge.', 'DESIGN.md §4 C12'),
}
NA_DEFAULT = 'check not built yet in this session (work in progress; see DESIGN.md §8)'
NA = {'C12': 'the overlay merge (build.augment*, pruneImports, finalizeRemovals) rewrites go/ast trees produced by go/parser and matches directives with regular expressions; the symbolic input would have to be whole parsed files, and a concrete enumeration of declaration-shape pairs would be testing, not solving; only name equality could be solver-quantified. Not claimed (DESIGN.md section E); the real overlay merge of math, math/bits, unicode and sync/atomic is exercised by every C13 run.'}
KERNEL_ALSO = ['C05', 'C10', 'C14', 'C16']       # properties whose check combines the jsx corpus with gosym kernels

def main():
    checks = []
    for pid in ALL:
        if pid in CHECKS or pid in KERNELS:
            c = CHECKS.get(pid) or KERNELS[pid]
            checks.append({
                'property_id': pid,
                'quick_cmd': './check %s --tier quick' % pid,
                'thorough_cmd': './check %s --tier thorough' % pid,
                'evidence_file': 'evidence/%s.json' % pid,
                'replay_cmd_template': './check %s --replay {path}' % pid,
                'engine': c.get('engine', 'jsx'),
                'level_claimed': {'category': c['category'], 'text': c['text'], 'design_ref': c['design_ref']},
                'level_note': c['note'],
                'technique': c['technique'],
            })
    m = {
        'version': 1,
        'setup_cmd': './setup.sh',
        'hooks': {'guard': 'verif', 'enable': 'no source hooks: harnesses are injected as separate template programs compiled by the real compiler; nothing in /repo is modified',
                  'baseline_off_cmd': 'cd /repo && go test -vet=off -count=1 ./...', 'source_commits': [], 'add_only': True},
        'engines': [
            {'name': 'jsx', 'path': 'engine/jsx', 'serves_properties': sorted(CHECKS.keys()),
             'kind_free_text': 'source-instrumenting symbolic executor for the JavaScript emitted by the real compiler (prelude included); z3 decides branch feasibility and equivalence queries'},
            {'name': 'gosym', 'path': 'engine/gosym', 'serves_properties': sorted(set(KERNELS.keys()) | set(KERNEL_ALSO)),
             'kind_free_text': 'symbolic interpreter for go/ssa (fork of x/tools go/ssa/interp with symbolic scalars, symbolic strings, solver-decided branches and concretisation, lenient package initialisation); runs in-package harnesses injected by overlay'},
        ],
        'checks': checks,
        'not_applicable': [{'property_id': p, 'reason': NA.get(p, NA_DEFAULT)} for p in ALL if p not in CHECKS and p not in KERNELS],
        'notes': 'Solver-based checking: see DESIGN.md. Known findings are listed in known_findings.jsonl.',
    }
    with open(os.path.join(HERE, 'MANIFEST.json'), 'w') as f:
        json.dump(m, f, indent=1)
    print('MANIFEST.json: %d checks, %d not applicable' % (len(checks), len(m['not_applicable'])))

if __name__ == '__main__':
    main()
