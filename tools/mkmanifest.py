#!/usr/bin/env python3
"""Regenerates MANIFEST.json from the table below (kept in one place so it is always valid)."""
import json, os
HERE = os.path.dirname(os.path.dirname(os.path.abspath(__file__)))
ALL = ['C%02d' % i for i in range(1, 21)]

CHECKS = {
 'C06': dict(
    category='translation_validation',
    text='For every (operator, operand type, operand shape) of a generated matrix the Go one-liner is compiled by the real compiler and the emitted JavaScript, '
         'together with the real prelude helpers it calls, is executed symbolically for ALL operand values; z3 decides per path that value and panic behaviour equal the '
         'operator table of the Go specification. Full operand width except 64-bit division/remainder, which is bounded (2^12 quick, 2^24 thorough). '
         '"For all programs" is claimed only for the listed matrix.',
    design_ref='DESIGN.md §4 C06',
    note='trusted: acorn parser, node (replays), z3 5.1, the instrumenter/runtime in engine/jsx (validated against node on concrete vectors), '
         'the hand-written operator table vlib/gospec.py. Doubles holding integers are modelled as integers with exactness (<=2^53) checked.',
    technique='symbolic execution of compiler-emitted JavaScript + SMT (z3) equivalence with a spec-derived operator table; counterexamples replayed on go vs gopherjs+node'),
}
NA_DEFAULT = 'check not built yet in this session (work in progress; see DESIGN.md §8)'
NA = {}

def main():
    checks = []
    for pid in ALL:
        if pid in CHECKS:
            c = CHECKS[pid]
            checks.append({
                'property_id': pid,
                'quick_cmd': './check %s --tier quick' % pid,
                'thorough_cmd': './check %s --tier thorough' % pid,
                'evidence_file': 'evidence/%s.json' % pid,
                'replay_cmd_template': './check %s --replay {path}' % pid,
                'engine': c.get('engine', 'jsx'),
                'level_claimed': {'category': c['category'], 'text': c['text'], 'design_ref': c['design_ref']},
                'level_note': c['note'],
                'technique': c['technique'],
            })
    m = {
        'version': 1,
        'setup_cmd': './setup.sh',
        'hooks': {'guard': 'verif', 'enable': 'no source hooks: harnesses are injected as separate template programs compiled by the real compiler; nothing in /repo is modified',
                  'baseline_off_cmd': 'cd /repo && go test -vet=off -count=1 ./...', 'source_commits': [], 'add_only': True},
        'engines': [
            {'name': 'jsx', 'path': 'engine/jsx', 'serves_properties': sorted(CHECKS.keys()),
             'kind_free_text': 'source-instrumenting symbolic executor for the JavaScript emitted by the real compiler (prelude included); z3 decides branch feasibility and equivalence queries'},
        ],
        'checks': checks,
        'not_applicable': [{'property_id': p, 'reason': NA.get(p, NA_DEFAULT)} for p in ALL if p not in CHECKS],
        'notes': 'Solver-based checking: see DESIGN.md. Known findings are listed in known_findings.jsonl.',
    }
    with open(os.path.join(HERE, 'MANIFEST.json'), 'w') as f:
        json.dump(m, f, indent=1)
    print('MANIFEST.json: %d checks, %d not applicable' % (len(checks), len(m['not_applicable'])))

if __name__ == '__main__':
    main()
