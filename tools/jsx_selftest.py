#!/usr/bin/env python3
"""Engine validation for jsx: import-free, self-checking run tests of GOROOT/test are compiled by the real compiler and executed twice -
by node, and (concretely: they have no symbolic inputs) by the instrumenting executor.  Printed output and termination must agree."""
import json, os, re, shutil, subprocess, sys, tempfile, concurrent.futures
sys.path.insert(0, os.path.dirname(os.path.dirname(os.path.abspath(__file__))))
from vlib import core

ALLOWED = {'runtime', 'unsafe', 'math', 'math/bits', 'unicode', 'unicode/utf8', 'sync/atomic'}


def candidates(limit):
    goroot = core.run(['go', 'env', 'GOROOT']).stdout.strip()
    d = os.path.join(goroot, 'test')
    out = []
    for f in sorted(os.listdir(d)):
        if not f.endswith('.go'):
            continue
        text = open(os.path.join(d, f), errors='replace').read()
        if not text.startswith('// run\n'):
            continue
        imps = set(re.findall(r'^\s*(?:import\s+)?(?:\w+\s+)?"([\w/]+)"\s*$', text, flags=re.M))
        if not imps <= ALLOWED or 'package main' not in text or 'go:build' in text:
            continue
        out.append((f, text))
    return out[:limit]


def one(item):
    f, text = item
    d = tempfile.mkdtemp(prefix='jsxself-', dir=core.scratch())
    try:
        core.write_pkg(d, {'main.go': text})
        ok, js = core.compile_js(d)
        if not ok:
            return f, 'skip', 'does not compile with gopherjs'
        try:
            rc, so, se = core.node_run(js, timeout=30)
        except subprocess.TimeoutExpired:
            return f, 'skip', 'node timeout'
        try:
            res = core.explore(js, {'maxPaths': 3, 'maxWallMs': 60000}, timeout=120)
        except subprocess.TimeoutExpired:
            return f, 'skip', 'engine timeout (long-running loop)'
        except Exception as e:  # noqa
            return f, 'engine-error', str(e)[-200:]
        if len(res['paths']) != 1:
            return f, 'nondeterministic', '%d paths: the program itself makes scheduler / random choices' % len(res['paths'])
        p = res['paths'][0]
        if p['term']['kind'] in ('unsupported', 'bound'):
            return f, 'unsupported', str(p['term'].get('detail'))[:150]
        lines = []
        for o in p['obs']:
            if o['k'] in ('log', 'out', 'err'):
                parts = []
                for a in o['args']:
                    if 'c' in a:
                        parts.append('true' if a['c'] is True else 'false' if a['c'] is False else str(a['c']))
                    else:
                        parts.append('?')
                lines.append(' '.join(parts))
        node_lines = [l for l in (so + se).split('\n') if l.strip()]
        node_end = 'normal' if rc == 0 else 'exit %d' % rc
        kind = p['term']['kind']
        jsx_end = 'normal' if kind == 'normal' else ('exit %s' % p['term'].get('code') if kind == 'exit' else 'exit 1')
        if any('?' in l for l in lines):
            # the program prints objects (pointers, channels, functions): node dumps their structure over several lines, which is not an
            # observable of the Go program; compare how the run ends only
            return f, ('agree (object printing not compared)' if node_end == jsx_end else 'DISAGREE'), '' if node_end == jsx_end else 'node: %s | jsx: %s' % (node_end, jsx_end)
        if kind == 'normal' and rc == 0:
            same = [l.strip() for l in lines] == [l.strip() for l in node_lines]
        else:
            same = node_end == jsx_end
        return f, 'agree' if same else 'DISAGREE', '' if same else 'node: %s %s | jsx: %s %s' % (node_end, node_lines[:3], jsx_end, lines[:3])
    finally:
        shutil.rmtree(d, ignore_errors=True)


def main():
    items = candidates(int(sys.argv[1]) if len(sys.argv) > 1 else 80)
    core.gopherjs_bin()
    tally = {}
    bad = []
    with concurrent.futures.ThreadPoolExecutor(max_workers=8) as ex:
        for f, verdict, detail in ex.map(one, items):
            tally[verdict] = tally.get(verdict, 0) + 1
            if verdict in ('DISAGREE', 'engine-error'):
                bad.append((f, verdict, detail))
    print('jsx selftest on %d GOROOT/test programs: %s' % (len(items), tally))
    for b in bad[:10]:
        print('  %s: %s %s' % b)
    return 1 if any(v == 'DISAGREE' for _, v, _ in bad) else 0


if __name__ == '__main__':
    sys.exit(main())
