#!/bin/sh
# tools/seedtest.sh <seed-name> <property> [VERIF_ONLY regex]: apply a seeded change to /repo, run the check, undo the change.
seed=/verif/seeded/$1; pid=$2
cd /repo || exit 2
git diff --quiet || { echo "/repo has uncommitted changes"; exit 2; }
git apply "$seed/patch.diff" || { echo "patch does not apply"; exit 2; }
cd /verif && VERIF_ONLY="$3" VERIF_NO_EVIDENCE=1 timeout ${SEED_TIMEOUT:-1500} ./check $pid 2>&1 | grep -v "^\[chunk\|^\[build" | cut -c1-400 | grep -c "^VIOLATION" > /tmp/seedtest.$$ ; rc=$?
n=$(cat /tmp/seedtest.$$); rm -f /tmp/seedtest.$$
git -C /repo checkout -- . 
echo "SEED $1 on $pid: violations=$n"
