// Copyright 2013 The Go Authors. All rights reserved.
// Use of this source code is governed by a BSD-style
// license that can be found in the LICENSE file.

package interp

// Custom hashtable atop map.
// For use when the key's equivalence relation is not consistent with ==.

// The Go specification doesn't address the atomicity of map operations.
// The FAQ states that an implementation is permitted to crash on
// concurrent map access.

import (
	"go/types"
)

type hashable interface {
	hash(t types.Type) int
	eq(t types.Type, x interface{}) bool
}

type entry struct {
	key   hashable
	value value
	next  *entry
}

// A hashtable atop the built-in map.  Since each bucket contains
// exactly one hash value, there's no need to perform hash-equality
// tests when walking the linked list.  Rehashing is done by the
// underlying map.
type hashmap struct {
	keyType types.Type
	table   map[int]*entry
	length  int // number of entries in map
}

// makeMap returns an empty initialized map of key type kt,
// preallocating space for reserve elements.
func makeMap(kt types.Type, reserve int64) value {
	if usesBuiltinMap(kt) {
		return make(map[value]value, reserve)
	}
	return &hashmap{keyType: kt, table: make(map[int]*entry, reserve)}
}

// delete removes the association for key k, if any.
func (m *hashmap) delete(k hashable) {
	if m != nil {
		hash := k.hash(m.keyType)
		head := m.table[hash]
		if head != nil {
			if k.eq(m.keyType, head.key) {
				m.table[hash] = head.next
				m.length--
				return
			}
			prev := head
			for e := head.next; e != nil; e = e.next {
				if k.eq(m.keyType, e.key) {
					prev.next = e.next
					m.length--
					return
				}
				prev = e
			}
		}
	}
}

// lookup returns the value associated with key k, if present, or
// value(nil) otherwise.
func (m *hashmap) lookup(k hashable) value {
	if m != nil {
		hash := k.hash(m.keyType)
		for e := m.table[hash]; e != nil; e = e.next {
			if k.eq(m.keyType, e.key) {
				return e.value
			}
		}
	}
	return nil
}

// insert updates the map to associate key k with value v.  If there
// was already an association for an eq() (though not necessarily ==)
// k, the previous key remains in the map and its associated value is
// updated.
func (m *hashmap) insert(k hashable, v value) {
	hash := k.hash(m.keyType)
	head := m.table[hash]
	for e := head; e != nil; e = e.next {
		if k.eq(m.keyType, e.key) {
			e.value = v
			return
		}
	}
	m.table[hash] = &entry{
		key:   k,
		value: v,
		next:  head,
	}
	m.length++
}

// len returns the number of key/value associations in the map.
func (m *hashmap) len() int {
	if m != nil {
		return m.length
	}
	return 0
}

// entries returns a rangeable map of entries.
func (m *hashmap) entries() map[int]*entry {
	if m != nil {
		return m.table
	}
	return nil
}
