// Symbolic layer of the gosym engine (not part of x/tools): symbolic scalars, the solver session,
// path exploration by deterministic re-execution, harness intrinsics.
//
// A value may be a `sym` (a boolean or a fixed-width integer given by an SMT-LIB bit-vector term) or a `symstr`
// (a string of concrete length whose bytes are concrete or symbolic).  Everything structural (indices, lengths,
// map keys) is concretised on demand by solver-enumerated case splits, every split being a recorded decision.

package interp

import (
	"bufio"
	"fmt"
	"go/token"
	"go/types"
	"io"
	"os"
	"os/exec"
	"sort"
	"strconv"
	"strings"
	"time"
)

// ---------------------------------------------------------------- values

type sym struct {
	bits int    // 0 = Bool, else width of the bit-vector
	sgn  bool   // signedness of the Go type (for extension, comparison, division, shifts)
	t    string // SMT-LIB term
}

// symstr is a string whose bytes may be symbolic (each element is uint8 or sym{bits: 8}).
type symstr []value

// poison stands for a value that could not be computed while a package was initialised leniently; using it is Unsupported.
type poison struct{ why string }

type unsupportedPanic struct{ msg string }
type infeasiblePanic struct{}
type assumeFalsePanic struct{}
type boundPanic struct{ msg string }

func unsupported(format string, args ...interface{}) {
	panic(unsupportedPanic{fmt.Sprintf(format, args...)})
}

func isSym(v value) bool {
	switch v.(type) {
	case sym, symstr, poison:
		return true
	}
	return false
}

func bvLit(bits int, v uint64) string {
	if bits < 64 {
		v &= (uint64(1) << uint(bits)) - 1
	}
	return fmt.Sprintf("(_ bv%d %d)", v, bits)
}

func intInfo(t types.Type) (bits int, sgn bool, ok bool) {
	b, isBasic := t.Underlying().(*types.Basic)
	if !isBasic {
		return 0, false, false
	}
	switch b.Kind() {
	case types.Int, types.Int64, types.UntypedInt:
		return 64, true, true
	case types.Int8:
		return 8, true, true
	case types.Int16:
		return 16, true, true
	case types.Int32, types.UntypedRune:
		return 32, true, true
	case types.Uint, types.Uint64, types.Uintptr:
		return 64, false, true
	case types.Uint8:
		return 8, false, true
	case types.Uint16:
		return 16, false, true
	case types.Uint32:
		return 32, false, true
	}
	return 0, false, false
}

// valueInfo gives width/signedness of a concrete integer value.
func valueInfo(v value) (bits int, sgn bool, u uint64, ok bool) {
	switch x := v.(type) {
	case int:
		return 64, true, uint64(x), true
	case int8:
		return 8, true, uint64(x), true
	case int16:
		return 16, true, uint64(x), true
	case int32:
		return 32, true, uint64(x), true
	case int64:
		return 64, true, uint64(x), true
	case uint:
		return 64, false, uint64(x), true
	case uint8:
		return 8, false, uint64(x), true
	case uint16:
		return 16, false, uint64(x), true
	case uint32:
		return 32, false, uint64(x), true
	case uint64:
		return 64, false, x, true
	case uintptr:
		return 64, false, uint64(x), true
	}
	return 0, false, 0, false
}

// term of an integer value (concrete or symbolic) as a bit-vector of its own width
func bvTerm(v value) (string, int, bool) {
	switch x := v.(type) {
	case sym:
		if x.bits == 0 {
			unsupported("boolean used as integer")
		}
		return x.t, x.bits, x.sgn
	case poison:
		unsupported("use of a value that was not initialised (%s)", x.why)
	}
	bits, sgn, u, ok := valueInfo(v)
	if !ok {
		unsupported("integer term of %T", v)
	}
	return bvLit(bits, u), bits, sgn
}

func boolTerm(v value) string {
	switch x := v.(type) {
	case bool:
		if x {
			return "true"
		}
		return "false"
	case sym:
		if x.bits != 0 {
			unsupported("integer used as boolean")
		}
		return x.t
	case poison:
		unsupported("use of a value that was not initialised (%s)", x.why)
	}
	unsupported("boolean term of %T", v)
	return ""
}

// concrete value of the Go type with the given width/signedness
func mkInt(t types.Type, u uint64) value {
	b := t.Underlying().(*types.Basic)
	switch b.Kind() {
	case types.Int, types.UntypedInt:
		return int(u)
	case types.Int8:
		return int8(u)
	case types.Int16:
		return int16(u)
	case types.Int32, types.UntypedRune:
		return int32(u)
	case types.Int64:
		return int64(u)
	case types.Uint:
		return uint(u)
	case types.Uint8:
		return uint8(u)
	case types.Uint16:
		return uint16(u)
	case types.Uint32:
		return uint32(u)
	case types.Uint64:
		return u
	case types.Uintptr:
		return uintptr(u)
	}
	unsupported("mkInt of %s", t)
	return nil
}

func resize(term string, from int, fromSigned bool, to int) string {
	switch {
	case from == to:
		return term
	case from > to:
		return fmt.Sprintf("((_ extract %d 0) %s)", to-1, term)
	case fromSigned:
		return fmt.Sprintf("((_ sign_extend %d) %s)", to-from, term)
	default:
		return fmt.Sprintf("((_ zero_extend %d) %s)", to-from, term)
	}
}

// ---------------------------------------------------------------- operators

func symBinop(op token.Token, t types.Type, x, y value) value {
	if p, ok := x.(poison); ok {
		unsupported("use of a value that was not initialised (%s)", p.why)
	}
	if p, ok := y.(poison); ok {
		unsupported("use of a value that was not initialised (%s)", p.why)
	}
	// strings
	if isStringish(x) || isStringish(y) {
		return symStringBinop(op, x, y)
	}
	// booleans
	if b, ok := t.Underlying().(*types.Basic); ok && b.Info()&types.IsBoolean != 0 {
		a, c := boolTerm(x), boolTerm(y)
		switch op {
		case token.EQL:
			return cur.mkBool(fmt.Sprintf("(= %s %s)", a, c))
		case token.NEQ:
			return cur.mkBool(fmt.Sprintf("(not (= %s %s))", a, c))
		case token.AND, token.LAND:
			return cur.mkBool(fmt.Sprintf("(and %s %s)", a, c))
		case token.OR, token.LOR:
			return cur.mkBool(fmt.Sprintf("(or %s %s)", a, c))
		}
		unsupported("boolean operator %s", op)
	}
	bits, sgn, ok := intInfo(t)
	if !ok {
		unsupported("symbolic operand of type %s in %s", t, op)
	}
	a, ab, _ := bvTerm(x)
	if ab != bits {
		a = resize(a, ab, sgn, bits)
	}
	if op == token.SHL || op == token.SHR {
		c, cb, _ := bvTerm(y)
		// Go: a count >= width gives 0 (or the sign fill); counts are unsigned (negative counts panic; not modelled: assumed non-negative)
		var cnt, big string
		if cb > bits {
			big = fmt.Sprintf("(bvuge %s %s)", c, bvLit(cb, uint64(bits)))
			cnt = resize(c, cb, false, bits)
		} else {
			cnt = resize(c, cb, false, bits)
			big = fmt.Sprintf("(bvuge %s %s)", cnt, bvLit(bits, uint64(bits)))
		}
		var r string
		if op == token.SHL {
			r = fmt.Sprintf("(ite %s %s (bvshl %s %s))", big, bvLit(bits, 0), a, cnt)
		} else if sgn {
			r = fmt.Sprintf("(ite %s (bvashr %s %s) (bvashr %s %s))", big, a, bvLit(bits, uint64(bits-1)), a, cnt)
		} else {
			r = fmt.Sprintf("(ite %s %s (bvlshr %s %s))", big, bvLit(bits, 0), a, cnt)
		}
		return cur.mkInt(bits, sgn, r)
	}
	c, cb, _ := bvTerm(y)
	if cb != bits {
		c = resize(c, cb, sgn, bits)
	}
	arith := func(f string) value { return cur.mkInt(bits, sgn, fmt.Sprintf("(%s %s %s)", f, a, c)) }
	cmp := func(fs, fu string) value {
		f := fu
		if sgn {
			f = fs
		}
		return cur.mkBool(fmt.Sprintf("(%s %s %s)", f, a, c))
	}
	switch op {
	case token.ADD:
		return arith("bvadd")
	case token.SUB:
		return arith("bvsub")
	case token.MUL:
		return arith("bvmul")
	case token.QUO, token.REM:
		// integer division by zero panics: a path of its own
		if cur.branch(fmt.Sprintf("(= %s %s)", c, bvLit(bits, 0))) {
			panic(runtimeErrorString("integer divide by zero"))
		}
		if op == token.QUO {
			if sgn {
				return arith("bvsdiv")
			}
			return arith("bvudiv")
		}
		if sgn {
			return arith("bvsrem")
		}
		return arith("bvurem")
	case token.AND:
		return arith("bvand")
	case token.OR:
		return arith("bvor")
	case token.XOR:
		return arith("bvxor")
	case token.AND_NOT:
		return cur.mkInt(bits, sgn, fmt.Sprintf("(bvand %s (bvnot %s))", a, c))
	case token.EQL:
		return cur.mkBool(fmt.Sprintf("(= %s %s)", a, c))
	case token.NEQ:
		return cur.mkBool(fmt.Sprintf("(not (= %s %s))", a, c))
	case token.LSS:
		return cmp("bvslt", "bvult")
	case token.LEQ:
		return cmp("bvsle", "bvule")
	case token.GTR:
		return cmp("bvsgt", "bvugt")
	case token.GEQ:
		return cmp("bvsge", "bvuge")
	}
	unsupported("symbolic binary operator %s", op)
	return nil
}

type runtimeErrorString string

func (e runtimeErrorString) Error() string { return "runtime error: " + string(e) }
func (e runtimeErrorString) RuntimeError() {}

func symUnop(op token.Token, t types.Type, x value) value {
	switch v := x.(type) {
	case poison:
		unsupported("use of a value that was not initialised (%s)", v.why)
	case sym:
		switch op {
		case token.NOT:
			return cur.mkBool(fmt.Sprintf("(not %s)", v.t))
		case token.SUB:
			return cur.mkInt(v.bits, v.sgn, fmt.Sprintf("(bvneg %s)", v.t))
		case token.XOR:
			return cur.mkInt(v.bits, v.sgn, fmt.Sprintf("(bvnot %s)", v.t))
		}
	}
	unsupported("symbolic unary operator %s on %T", op, x)
	return nil
}

// symConv converts a symbolic scalar / string between Go types.
func symConv(tDst, tSrc types.Type, x value) value {
	if p, ok := x.(poison); ok {
		unsupported("use of a value that was not initialised (%s)", p.why)
	}
	ud, us := tDst.Underlying(), tSrc.Underlying()
	switch v := x.(type) {
	case sym:
		if v.bits == 0 {
			return v
		}
		if bits, sgn, ok := intInfo(ud); ok {
			return cur.mkInt(bits, sgn, resize(v.t, v.bits, v.sgn, bits))
		}
		if b, ok := ud.(*types.Basic); ok && b.Info()&types.IsString != 0 {
			// string(rune / byte): the code point is enumerated
			n := cur.concretize(v)
			_, sg, _ := intInfo(us)
			if sg {
				switch v.bits {
				case 8:
					return string(rune(int8(n)))
				case 16:
					return string(rune(int16(n)))
				case 32:
					return string(rune(int32(n)))
				}
				return string(rune(int64(n)))
			}
			return string(rune(n))
		}
		unsupported("conversion of a symbolic %s to %s", tSrc, tDst)
	case symstr:
		switch d := ud.(type) {
		case *types.Basic:
			if d.Info()&types.IsString != 0 {
				return v
			}
		case *types.Slice:
			if e, ok := d.Elem().Underlying().(*types.Basic); ok && e.Kind() == types.Uint8 {
				out := make([]value, len(v))
				copy(out, v)
				return out
			}
			// []rune(s): bytes are enumerated
			return conv(tDst, tSrc, cur.concretizeString(v))
		}
		unsupported("conversion of a symbolic string to %s", tDst)
	}
	unsupported("symConv of %T", x)
	return nil
}

// ---------------------------------------------------------------- strings

func isStringish(v value) bool {
	switch v.(type) {
	case string, symstr:
		return true
	}
	return false
}

func toSymstr(v value) symstr {
	switch s := v.(type) {
	case symstr:
		return s
	case string:
		out := make(symstr, len(s))
		for i := 0; i < len(s); i++ {
			out[i] = s[i]
		}
		return out
	}
	unsupported("string view of %T", v)
	return nil
}

// normStr turns a symstr without symbolic bytes back into a Go string.
func normStr(s symstr) value {
	for _, b := range s {
		if _, ok := b.(uint8); !ok {
			return s
		}
	}
	bs := make([]byte, len(s))
	for i, b := range s {
		bs[i] = b.(uint8)
	}
	return string(bs)
}

func bytesToString(bs []value) value {
	out := make(symstr, len(bs))
	copy(out, bs)
	return normStr(out)
}

func symStringBinop(op token.Token, x, y value) value {
	a, b := toSymstr(x), toSymstr(y)
	switch op {
	case token.ADD:
		out := make(symstr, 0, len(a)+len(b))
		out = append(out, a...)
		out = append(out, b...)
		return normStr(out)
	case token.EQL, token.NEQ:
		var r value
		if len(a) != len(b) {
			r = false
		} else {
			var conj []string
			r = true
			for i := range a {
				ca, oka := a[i].(uint8)
				cb, okb := b[i].(uint8)
				if oka && okb {
					if ca != cb {
						r = false
						conj = nil
						break
					}
					continue
				}
				ta, _, _ := bvTerm(a[i])
				tb, _, _ := bvTerm(b[i])
				conj = append(conj, fmt.Sprintf("(= %s %s)", ta, tb))
			}
			if r == true && len(conj) > 0 {
				if len(conj) == 1 {
					r = cur.mkBool(conj[0])
				} else {
					r = cur.mkBool("(and " + strings.Join(conj, " ") + ")")
				}
			}
		}
		if op == token.NEQ {
			if bv, ok := r.(bool); ok {
				return !bv
			}
			return cur.mkBool(fmt.Sprintf("(not %s)", r.(sym).t))
		}
		return r
	case token.LSS, token.LEQ, token.GTR, token.GEQ:
		// lexicographic order on bytes
		n := len(a)
		if len(b) < n {
			n = len(b)
		}
		// result when all common bytes are equal
		var tail bool
		switch op {
		case token.LSS:
			tail = len(a) < len(b)
		case token.LEQ:
			tail = len(a) <= len(b)
		case token.GTR:
			tail = len(a) > len(b)
		case token.GEQ:
			tail = len(a) >= len(b)
		}
		res := "false"
		if tail {
			res = "true"
		}
		lt := op == token.LSS || op == token.LEQ
		for i := n - 1; i >= 0; i-- {
			ta, _, _ := bvTerm(a[i])
			tb, _, _ := bvTerm(b[i])
			f := "bvugt"
			if lt {
				f = "bvult"
			}
			res = fmt.Sprintf("(ite (= %s %s) %s (%s %s %s))", ta, tb, res, f, ta, tb)
		}
		return cur.mkBool(res)
	}
	unsupported("string operator %s on symbolic strings", op)
	return nil
}

// ---------------------------------------------------------------- exploration state

type decision struct {
	Taken bool   // branch decision, or "value equals Val" for a concretisation step
	IsVal bool   // concretisation step
	Val   uint64 // candidate value of a concretisation step
}

type Violation struct {
	Msg   string            `json:"msg"`
	Model map[string]string `json:"model"`
	Path  int               `json:"path"`
}

type PathRecord struct {
	End        string   `json:"end"` // normal | panic:<msg> | unsupported:<msg> | bound:<msg> | assume | infeasible
	Decisions  int      `json:"decisions"`
	Reach      []string `json:"reach,omitempty"`
	AssertsOK  int      `json:"asserts_ok"`
	AssertsBad int      `json:"asserts_bad"`
}

type Explorer struct {
	solver      *solverProc
	prefix      []decision // decisions to replay
	taken       []decision // decisions of the current run
	pending     [][]decision
	defs        int
	inputs      map[string]sym // name -> variable (declared once per harness)
	inputOrder  []string
	journal     []undo
	Paths       []PathRecord
	Violations  []Violation
	Reached     map[string]int
	Queries     int
	SolverTime  time.Duration
	MaxDecision int
	curPath     *PathRecord
	unknowns    int
	Unknowns    int
	Log         io.Writer
	declaredNow map[string]bool
	depth       int
	journaling  bool
	SymbolicMapOrder bool // map iteration order is a symbolic permutation (otherwise a fixed canonical order)
	mapChoices  int
	panicSite   string
	mapOrderDefault bool
}

var cur *Explorer

type undo struct {
	addr *value
	old  value
	m    map[value]value
	hm   *hashmap
	key  value
	had  bool
}

func (e *Explorer) mkBool(t string) value { return sym{bits: 0, t: e.define("Bool", t)} }
func (e *Explorer) mkInt(bits int, sgn bool, t string) value {
	return sym{bits: bits, sgn: sgn, t: e.define(fmt.Sprintf("(_ BitVec %d)", bits), t)}
}

// define names a term so that terms stay small (definitions live in the current path's solver frame)
func (e *Explorer) define(sort, t string) string {
	if len(t) < 48 {
		return t
	}
	e.defs++
	name := fmt.Sprintf("d%d", e.defs)
	e.solver.send(fmt.Sprintf("(define-fun %s () %s %s)", name, sort, t))
	return name
}

func (e *Explorer) assertTerm(t string) { e.solver.send("(assert " + t + ")") }

func (e *Explorer) check(extra string) string {
	t0 := time.Now()
	e.Queries++
	r := e.solver.checkWith(extra)
	e.SolverTime += time.Since(t0)
	if r == "unknown" {
		e.unknowns++
		e.Unknowns++
	}
	return r
}

// check2 asks for the feasibility of cond and of its negation in one round trip to the solver.
func (e *Explorer) check2(cond string) (string, string) {
	t0 := time.Now()
	e.Queries += 2
	r := e.solver.ask("(push 1)\n(assert " + cond + ")\n(check-sat)\n(pop 1)\n(push 1)\n(assert (not " + cond + "))\n(check-sat)\n(pop 1)")
	e.SolverTime += time.Since(t0)
	out := []string{"unknown", "unknown"}
	if !strings.Contains(r, "(error") {
		k := 0
		for _, ln := range strings.Split(r, "\n") {
			ln = strings.TrimSpace(ln)
			if ln == "sat" || ln == "unsat" || ln == "unknown" || strings.HasPrefix(ln, "timeout") {
				if k < 2 {
					if ln == "sat" || ln == "unsat" {
						out[k] = ln
					}
					k++
				}
			}
		}
	} else {
		fmt.Fprintln(os.Stderr, "solver error:", r, "<=", cond)
	}
	for _, x := range out {
		if x == "unknown" {
			e.unknowns++
			e.Unknowns++
		}
	}
	return out[0], out[1]
}

// branch decides a symbolic condition: replayed from the prefix, or decided by the solver (both sides feasible: the
// other side is queued).
func (e *Explorer) branch(cond string) bool {
	if cond == "true" {
		return true
	}
	if cond == "false" {
		return false
	}
	k := len(e.taken)
	if k < len(e.prefix) {
		d := e.prefix[k]
		e.taken = append(e.taken, d)
		if d.Taken {
			e.assertTerm(cond)
		} else {
			e.assertTerm("(not " + cond + ")")
		}
		return d.Taken
	}
	if e.MaxDecision > 0 && k >= e.MaxDecision {
		panic(boundPanic{fmt.Sprintf("more than %d decisions on one path", e.MaxDecision)})
	}
	rt, rf := e.check2(cond)
	switch {
	case rt != "unsat" && rf != "unsat":
		alt := append(append([]decision{}, e.taken...), decision{Taken: false})
		e.pending = append(e.pending, alt)
		e.taken = append(e.taken, decision{Taken: true})
		e.assertTerm(cond)
		return true
	case rt != "unsat":
		e.taken = append(e.taken, decision{Taken: true})
		e.assertTerm(cond)
		return true
	case rf != "unsat":
		e.taken = append(e.taken, decision{Taken: false})
		e.assertTerm("(not " + cond + ")")
		return false
	}
	panic(infeasiblePanic{})
}

// concretize enumerates the values of a symbolic integer (one recorded decision per candidate value).
func (e *Explorer) concretize(v sym) uint64 {
	if v.bits == 0 {
		if e.branch(v.t) {
			return 1
		}
		return 0
	}
	for {
		k := len(e.taken)
		if k < len(e.prefix) {
			d := e.prefix[k]
			e.taken = append(e.taken, d)
			eq := fmt.Sprintf("(= %s %s)", v.t, bvLit(v.bits, d.Val))
			if d.Taken {
				e.assertTerm(eq)
				return d.Val
			}
			e.assertTerm("(not " + eq + ")")
			continue
		}
		if e.MaxDecision > 0 && k >= e.MaxDecision {
			panic(boundPanic{fmt.Sprintf("more than %d decisions on one path", e.MaxDecision)})
		}
		r := e.check("")
		if r == "unsat" {
			panic(infeasiblePanic{})
		}
		if r != "sat" {
			unsupported("solver answered %s while enumerating the values of a symbolic integer", r)
		}
		val, ok := e.solver.evalBV(v.t)
		if !ok {
			unsupported("no model value for %s", v.t)
		}
		alt := append(append([]decision{}, e.taken...), decision{IsVal: true, Val: val, Taken: false})
		e.pending = append(e.pending, alt)
		e.taken = append(e.taken, decision{IsVal: true, Val: val, Taken: true})
		e.assertTerm(fmt.Sprintf("(= %s %s)", v.t, bvLit(v.bits, val)))
		return val
	}
}

func (e *Explorer) concretizeString(s symstr) string {
	bs := make([]byte, len(s))
	for i, b := range s {
		switch x := b.(type) {
		case uint8:
			bs[i] = x
		case sym:
			bs[i] = byte(e.concretize(x))
		default:
			unsupported("string byte %T", b)
		}
	}
	return string(bs)
}

// concInt64 is used wherever the interpreter needs a concrete integer (indices, lengths, shift counts of concrete values...).
func concInt64(x value) (int64, bool) {
	switch v := x.(type) {
	case sym:
		n := cur.concretize(v)
		if v.sgn {
			switch v.bits {
			case 8:
				return int64(int8(n)), true
			case 16:
				return int64(int16(n)), true
			case 32:
				return int64(int32(n)), true
			}
		}
		return int64(n), true
	case poison:
		unsupported("use of a value that was not initialised (%s)", v.why)
	}
	return 0, false
}

// condBool evaluates a branch condition.
func condBool(v value) bool {
	switch x := v.(type) {
	case bool:
		return x
	case sym:
		return cur.branch(x.t)
	case poison:
		unsupported("branch on a value that was not initialised (%s)", x.why)
	}
	panic(fmt.Sprintf("condition of type %T", v))
}

// ---------------------------------------------------------------- solver process

type solverProc struct {
	cmd   *exec.Cmd
	raw   io.WriteCloser
	in    *bufio.Writer
	out   *bufio.Reader
	depth int
	log   io.Writer
}

func newSolver(bin string, timeoutMs int) (*solverProc, error) {
	cmd := exec.Command(bin, "-in")
	in, err := cmd.StdinPipe()
	if err != nil {
		return nil, err
	}
	out, err := cmd.StdoutPipe()
	if err != nil {
		return nil, err
	}
	cmd.Stderr = os.Stderr
	if err := cmd.Start(); err != nil {
		return nil, err
	}
	s := &solverProc{cmd: cmd, raw: in, in: bufio.NewWriterSize(in, 1<<16), out: bufio.NewReaderSize(out, 1<<16)}
	// a resource limit instead of :timeout (which makes z3 start a timer thread for every check-sat: far more expensive than the queries here)
	s.send(fmt.Sprintf("(set-option :rlimit %d)", timeoutMs*4000))
	s.send("(set-option :model.completion true)")
	return s, nil
}

func (s *solverProc) send(text string) {
	if s.log != nil {
		fmt.Fprintln(s.log, text)
	}
	s.in.WriteString(text)
	s.in.WriteByte('\n')
}

func (s *solverProc) ask(text string) string {
	s.send(text + "\n(echo \"@@\")")
	s.in.Flush()
	var sb strings.Builder
	for {
		line, err := s.out.ReadString('\n')
		if err != nil {
			return "(error \"solver died\")"
		}
		if strings.TrimSpace(line) == "@@" {
			break
		}
		sb.WriteString(line)
	}
	return strings.TrimSpace(sb.String())
}

func (s *solverProc) checkWith(extra string) string {
	var r string
	if extra != "" {
		r = s.ask("(push 1)\n(assert " + extra + ")\n(check-sat)\n(pop 1)")
	} else {
		r = s.ask("(check-sat)")
	}
	if strings.Contains(r, "(error") {
		fmt.Fprintln(os.Stderr, "solver error:", r, "<=", extra)
		return "unknown"
	}
	lines := strings.Split(r, "\n")
	last := strings.TrimSpace(lines[len(lines)-1])
	if last == "sat" || last == "unsat" {
		return last
	}
	return "unknown"
}

// evalBV: value of a bit-vector term in the model of the last (check-sat) on the current assertion stack
func (s *solverProc) evalBV(term string) (uint64, bool) {
	r := s.ask("(get-value (" + term + "))")
	i := strings.LastIndex(r, "#")
	if i < 0 {
		return 0, false
	}
	lit := strings.TrimRight(r[i:], ") \n")
	var v uint64
	var err error
	if strings.HasPrefix(lit, "#x") {
		v, err = strconv.ParseUint(lit[2:], 16, 64)
	} else if strings.HasPrefix(lit, "#b") {
		v, err = strconv.ParseUint(lit[2:], 2, 64)
	} else {
		return 0, false
	}
	return v, err == nil
}

func (s *solverProc) evalBool(term string) (bool, bool) {
	r := s.ask("(get-value (" + term + "))")
	if strings.Contains(r, " true)") {
		return true, true
	}
	if strings.Contains(r, " false)") {
		return false, true
	}
	return false, false
}

func (s *solverProc) close() {
	s.in.WriteString("(exit)\n")
	s.in.Flush()
	s.raw.Close()
	s.cmd.Wait()
}

// ---------------------------------------------------------------- inputs and intrinsics

func (e *Explorer) input(name string, bits int, sgn bool) sym {
	if v, ok := e.inputs[name]; ok {
		return v
	}
	unsupported("input %s was not declared (inputs must be created on every path in the same way)", name)
	return sym{}
}

// declareInput: inputs are declared at solver level 0 (outside the per-path frame) the first time they are seen, so that they are the same
// variable on every path.
func (e *Explorer) declareInput(name string, bits int, sgn bool) sym {
	v, known := e.inputs[name]
	if known && (v.bits != bits || v.sgn != sgn) {
		unsupported("input %s declared with two different types", name)
	}
	if !known {
		v = sym{bits: bits, sgn: sgn, t: "in_" + sanitize(name)}
		e.inputs[name] = v
		e.inputOrder = append(e.inputOrder, name)
	}
	if !e.declaredNow[name] {
		// (the declaration lives in the current path's solver frame)
		sort := "Bool"
		if bits > 0 {
			sort = fmt.Sprintf("(_ BitVec %d)", bits)
		}
		e.solver.send(fmt.Sprintf("(declare-const %s %s)", v.t, sort))
		e.declaredNow[name] = true
	}
	return v
}

func sanitize(s string) string {
	var sb strings.Builder
	for _, r := range s {
		if r >= 'a' && r <= 'z' || r >= 'A' && r <= 'Z' || r >= '0' && r <= '9' || r == '_' {
			sb.WriteRune(r)
		} else {
			fmt.Fprintf(&sb, "_%x_", r)
		}
	}
	return sb.String()
}

func (e *Explorer) model() map[string]string {
	m := map[string]string{}
	names := append([]string{}, e.inputOrder...)
	sort.Strings(names)
	for _, n := range names {
		if !e.declaredNow[n] {
			continue
		}
		v := e.inputs[n]
		if v.bits == 0 {
			if b, ok := e.solver.evalBool(v.t); ok {
				m[n] = strconv.FormatBool(b)
			}
			continue
		}
		if u, ok := e.solver.evalBV(v.t); ok {
			if v.sgn {
				switch v.bits {
				case 8:
					m[n] = strconv.FormatInt(int64(int8(u)), 10)
				case 16:
					m[n] = strconv.FormatInt(int64(int16(u)), 10)
				case 32:
					m[n] = strconv.FormatInt(int64(int32(u)), 10)
				default:
					m[n] = strconv.FormatInt(int64(u), 10)
				}
			} else {
				m[n] = strconv.FormatUint(u, 10)
			}
		}
	}
	return m
}

// intrinsic handles calls to the harness functions (by name, in any package).  ok=false: not an intrinsic.
func (e *Explorer) intrinsic(name string, fnType *types.Signature, args []value) (value, bool) {
	str := func(v value) string {
		switch s := v.(type) {
		case string:
			return s
		case symstr:
			return e.concretizeString(s)
		}
		return fmt.Sprint(v)
	}
	switch name {
	case "VNondetBool":
		return e.declareInput(str(args[0]), 0, false), true
	case "VNondetByte":
		return e.declareInput(str(args[0]), 8, false), true
	case "VNondetInt", "VNondetInt64", "VNondetInt32", "VNondetUint32", "VNondetUint64", "VNondetUint8", "VNondetInt8", "VNondetUint16", "VNondetInt16":
		rt := fnType.Results().At(0).Type()
		bits, sgn, _ := intInfo(rt)
		v := e.declareInput(str(args[0]), bits, sgn)
		if len(args) == 3 {
			lo, _, _ := bvTerm(args[1])
			hi, _, _ := bvTerm(args[2])
			le := "bvule"
			if sgn {
				le = "bvsle"
			}
			c := fmt.Sprintf("(and (%s %s %s) (%s %s %s))", le, lo, v.t, le, v.t, hi)
			if !e.assume(c) {
				panic(assumeFalsePanic{})
			}
		}
		return v, true
	case "VAssume":
		switch c := args[0].(type) {
		case bool:
			if !c {
				panic(assumeFalsePanic{})
			}
		case sym:
			if !e.assume(c.t) {
				panic(assumeFalsePanic{})
			}
		default:
			unsupported("VAssume of %T", args[0])
		}
		return nil, true
	case "VAssert":
		msg := str(args[1])
		switch c := args[0].(type) {
		case bool:
			if !c {
				e.violation(msg)
			} else {
				e.curPath.AssertsOK++
			}
		case sym:
			r := e.check("(not " + c.t + ")")
			switch r {
			case "unsat":
				e.curPath.AssertsOK++
			case "sat":
				e.violationWith(msg, "(not "+c.t+")")
				// continue on the side where the assertion holds (if there is one)
				if !e.assume(c.t) {
					panic(assumeFalsePanic{})
				}
			default:
				unsupported("solver answered %s on assertion %q", r, msg)
			}
		default:
			unsupported("VAssert of %T", args[0])
		}
		return nil, true
	case "VReach":
		k := str(args[0])
		e.Reached[k]++
		e.curPath.Reach = append(e.curPath.Reach, k)
		return nil, true
	case "VConcretize":
		if s, ok := args[0].(sym); ok {
			rt := fnType.Results().At(0).Type()
			n := e.concretize(s)
			return mkInt(rt, n), true
		}
		return args[0], true
	case "VConcretizeString":
		if s, ok := args[0].(symstr); ok {
			return e.concretizeString(s), true
		}
		return args[0], true
	case "VSymbolic":
		return isSym(args[0]), true
	case "VMapOrder":
		// from here on (until switched off) every range over a map runs under every permutation of its entries
		e.SymbolicMapOrder = args[0].(bool)
		return nil, true
	}
	return nil, false
}

// assume adds a constraint; false if it makes the path infeasible
func (e *Explorer) assume(c string) bool {
	r := e.check(c)
	if r == "unsat" {
		return false
	}
	e.assertTerm(c)
	return true
}

func (e *Explorer) violation(msg string) {
	e.curPath.AssertsBad++
	r := e.check("")
	m := map[string]string{}
	if r == "sat" {
		m = e.model()
	}
	e.Violations = append(e.Violations, Violation{Msg: msg, Model: m, Path: len(e.Paths)})
}

func (e *Explorer) violationWith(msg, extra string) {
	e.curPath.AssertsBad++
	e.solver.send("(push 1)")
	e.solver.send("(assert " + extra + ")")
	m := map[string]string{}
	if e.solver.checkWith("") == "sat" {
		m = e.model()
	}
	e.solver.send("(pop 1)")
	e.Violations = append(e.Violations, Violation{Msg: msg, Model: m, Path: len(e.Paths)})
}
