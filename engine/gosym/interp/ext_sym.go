// Externals of the gosym engine: leaf functions of the standard library that have no Go body (assembly, runtime
// intrinsics), written so that they accept symbolic bytes; plus the stub table (functions replaced by harness functions).

package interp

import (
	"fmt"
	"go/token"
	"go/types"
	"strconv"
	"strings"

	"golang.org/x/tools/go/ssa"
)

type sliceData struct{ s []value }

var stubs = map[string]*ssa.Function{}

// SetStub replaces the function whose String() is target by the harness function repl (same signature).
func SetStub(target string, repl *ssa.Function) { stubs[target] = repl }

func byteEq(a, b value) bool {
	ca, oka := a.(uint8)
	cb, okb := b.(uint8)
	if oka && okb {
		return ca == cb
	}
	return condBool(symBinop(token.EQL, types.Typ[types.Uint8], a, b))
}

func seqOf(v value) []value {
	switch s := v.(type) {
	case []value:
		return s
	case string, symstr:
		return []value(toSymstr(s))
	}
	unsupported("byte sequence of %T", v)
	return nil
}

func extIndexByte(fr *frame, args []value) value {
	s := seqOf(args[0])
	for i, b := range s {
		if byteEq(b, args[1]) {
			return i
		}
	}
	return -1
}

func extLastIndexByte(fr *frame, args []value) value {
	s := seqOf(args[0])
	for i := len(s) - 1; i >= 0; i-- {
		if byteEq(s[i], args[1]) {
			return i
		}
	}
	return -1
}

func extCount(fr *frame, args []value) value {
	s := seqOf(args[0])
	n := 0
	for _, b := range s {
		if byteEq(b, args[1]) {
			n++
		}
	}
	return n
}

func extEqual(fr *frame, args []value) value {
	a, b := seqOf(args[0]), seqOf(args[1])
	if len(a) != len(b) {
		return false
	}
	for i := range a {
		if !byteEq(a[i], b[i]) {
			return false
		}
	}
	return true
}

func extCompare(fr *frame, args []value) value {
	a, b := seqOf(args[0]), seqOf(args[1])
	n := len(a)
	if len(b) < n {
		n = len(b)
	}
	for i := 0; i < n; i++ {
		if byteEq(a[i], b[i]) {
			continue
		}
		if condBool(symBinop(token.LSS, types.Typ[types.Uint8], a[i], b[i])) {
			return -1
		}
		return 1
	}
	switch {
	case len(a) < len(b):
		return -1
	case len(a) > len(b):
		return 1
	}
	return 0
}

func extIndexSeq(fr *frame, args []value) value {
	a, b := seqOf(args[0]), seqOf(args[1])
	for i := 0; i+len(b) <= len(a); i++ {
		ok := true
		for j := range b {
			if !byteEq(a[i+j], b[j]) {
				ok = false
				break
			}
		}
		if ok {
			return i
		}
	}
	return -1
}

func extMakeNoZero(fr *frame, args []value) value {
	n := asInt64(args[0])
	out := make([]value, n)
	for i := range out {
		out[i] = uint8(0)
	}
	return out
}

func extNop(fr *frame, args []value) value { return nil }

// ---- sync/atomic on the interpreter's cells (single goroutine)
func atomicLoad(fr *frame, args []value) value { return *args[0].(*value) }
func atomicStore(fr *frame, args []value) value {
	store0(args[0].(*value), args[1])
	return nil
}
func atomicSwap(fr *frame, args []value) value {
	p := args[0].(*value)
	old := *p
	store0(p, args[1])
	return old
}
func atomicCAS(fr *frame, args []value) value {
	p := args[0].(*value)
	if isSym(*p) || isSym(args[1]) {
		unsupported("atomic compare-and-swap on a symbolic value")
	}
	if *p == args[1] {
		store0(p, args[2])
		return true
	}
	return false
}
func atomicAdd(t types.Type) externalFn {
	return func(fr *frame, args []value) value {
		p := args[0].(*value)
		r := binop(token.ADD, t, *p, args[1])
		store0(p, r)
		return r
	}
}
func store0(p *value, v value) {
	if cur != nil && cur.journaling {
		cur.journal = append(cur.journal, undo{addr: p, old: *p})
	}
	*p = v
}

func init() {
	for k, v := range map[string]externalFn{
		"internal/bytealg.IndexByte":           extIndexByte,
		"internal/bytealg.IndexByteString":     extIndexByte,
		"internal/bytealg.LastIndexByte":       extLastIndexByte,
		"internal/bytealg.LastIndexByteString": extLastIndexByte,
		"internal/bytealg.Count":               extCount,
		"internal/bytealg.CountString":         extCount,
		"internal/bytealg.Equal":               extEqual,
		"internal/bytealg.Compare":             extCompare,
		"internal/bytealg.CompareString":       extCompare,
		"internal/bytealg.Index":               extIndexSeq,
		"internal/bytealg.IndexString":         extIndexSeq,
		"internal/bytealg.MakeNoZero":          extMakeNoZero,
		"bytes.IndexByte":                      extIndexByte,
		"strings.IndexByte":                    extIndexByte,
		"bytes.Equal":                          extEqual,
		"sync.runtime_registerPoolCleanup":     extNop,
		"sync.runtime_notifyListCheck":         extNop,
		"internal/godebug.registerMetric":      extNop,
		"internal/godebug.setUpdate":           extNop,
		"internal/godebug.setNewIncNonDefault": extNop,
		"runtime.SetFinalizer":                 extNop,
		"(*internal/godebug.Setting).Value":         func(fr *frame, args []value) value { return "" }, // no GODEBUG settings
		"(*internal/godebug.Setting).IncNonDefault": extNop,
		"internal/abi.NoEscape":                func(fr *frame, args []value) value { return args[0] },
		"internal/abi.Escape":                  func(fr *frame, args []value) value { return args[0] },
		"runtime.KeepAlive":                    extNop,
		"sync.(*Mutex).Lock":                   extNop,
		"sync.(*Mutex).Unlock":                 extNop,
		"sync.(*RWMutex).Lock":                 extNop,
		"sync.(*RWMutex).Unlock":               extNop,
		"sync.(*RWMutex).RLock":                extNop,
		"sync.(*RWMutex).RUnlock":              extNop,
	} {
		externals[k] = v
	}
	for _, w := range []struct {
		n string
		t types.Type
	}{{"Int32", types.Typ[types.Int32]}, {"Int64", types.Typ[types.Int64]}, {"Uint32", types.Typ[types.Uint32]}, {"Uint64", types.Typ[types.Uint64]}, {"Uintptr", types.Typ[types.Uintptr]}} {
		for _, pk := range []string{"sync/atomic.", "internal/runtime/atomic."} {
			externals[pk+"Load"+w.n] = atomicLoad
			externals[pk+"Store"+w.n] = atomicStore
			externals[pk+"Swap"+w.n] = atomicSwap
			externals[pk+"CompareAndSwap"+w.n] = atomicCAS
			externals[pk+"Add"+w.n] = atomicAdd(w.t)
		}
	}
	externals["sync/atomic.LoadPointer"] = atomicLoad
	externals["sync/atomic.StorePointer"] = atomicStore
	externals["sync/atomic.SwapPointer"] = atomicSwap
	externals["sync/atomic.CompareAndSwapPointer"] = atomicCAS
	_ = fmt.Sprint
}

// ---- fmt: a small exact model of the verbs the analysed code uses on possibly-symbolic operands; anything else runs the real fmt code
// (which works for concrete operands as far as the interpreter's reflect emulation goes).

func hexDigitTerm(nib string, upper bool) string {
	a := 87 // 'a' - 10
	if upper {
		a = 55 // 'A' - 10
	}
	return fmt.Sprintf("(ite (bvult %s (_ bv10 8)) (bvadd %s (_ bv48 8)) (bvadd %s (_ bv%d 8)))", nib, nib, nib, a)
}

// formatSym renders format with args; ok=false if a verb/operand combination is not modelled.
func formatSym(format string, args []value) (symstr, bool) {
	var out symstr
	ai := 0
	for i := 0; i < len(format); i++ {
		c := format[i]
		if c != '%' {
			out = append(out, c)
			continue
		}
		j := i + 1
		for j < len(format) && (format[j] == '0' || format[j] == '-' || format[j] == '+' || format[j] == '#' || (format[j] >= '1' && format[j] <= '9')) {
			j++
		}
		if j >= len(format) {
			return nil, false
		}
		spec, verb := format[i+1:j], format[j]
		i = j
		if verb == '%' {
			out = append(out, byte('%'))
			continue
		}
		if ai >= len(args) {
			return nil, false
		}
		a := args[ai]
		ai++
		if itf, ok := a.(iface); ok {
			a = itf.v
		}
		if verb == 'v' && spec == "#" {
			if itf, ok := args[ai-1].(iface); ok {
				if txt, ok := goSyntax(itf.t, itf.v); ok {
					out = append(out, toSymstr(txt)...)
					continue
				}
			}
			return nil, false
		}
		if arr, ok := a.(array); ok && (verb == 'x' || verb == 'X') && spec == "" {
			okAll := true
			var bs []byte
			for _, e := range arr {
				b, isB := e.(uint8)
				if !isB {
					okAll = false
					break
				}
				bs = append(bs, b)
			}
			if okAll {
				out = append(out, toSymstr(fmt.Sprintf("%"+string(verb), bs))...)
				continue
			}
			return nil, false
		}
		switch x := a.(type) {
		case sym:
			if x.bits == 8 && (verb == 'X' || verb == 'x') && spec == "02" {
				hi := fmt.Sprintf("(bvlshr %s (_ bv4 8))", x.t)
				lo := fmt.Sprintf("(bvand %s (_ bv15 8))", x.t)
				out = append(out, cur.mkInt(8, false, hexDigitTerm(hi, verb == 'X')), cur.mkInt(8, false, hexDigitTerm(lo, verb == 'X')))
				continue
			}
			return nil, false
		case symstr:
			if (verb == 's' || verb == 'v') && spec == "" {
				out = append(out, x...)
				continue
			}
			return nil, false
		case string:
			s := fmt.Sprintf("%"+spec+string(verb), x)
			out = append(out, toSymstr(s)...)
		case bool, int, int8, int16, int32, int64, uint, uint8, uint16, uint32, uint64, uintptr, float32, float64:
			s := fmt.Sprintf("%"+spec+string(verb), x)
			out = append(out, toSymstr(s)...)
		default:
			return nil, false
		}
	}
	return out, true
}

func variadicArgs(v value) []value {
	if v == nil {
		return nil
	}
	return v.([]value)
}

func extFmtSprintf(fr *frame, args []value) value {
	f, ok := args[0].(string)
	if ok {
		if s, ok := formatSym(f, variadicArgs(args[1])); ok {
			return normStr(s)
		}
	}
	unsupported("fmt.Sprintf(%v, ...) with these operands", args[0])
	return nil
}

func extFmtFprintf(fr *frame, args []value) value {
	f, ok := args[1].(string)
	if ok {
		if s, ok := formatSym(f, variadicArgs(args[2])); ok {
			w := args[0].(iface)
			// call w.Write([]byte)
			var meth *ssa.Function
			if w.t != nil {
				mset := fr.i.prog.MethodSets.MethodSet(w.t)
				for k := 0; k < mset.Len(); k++ {
					if mset.At(k).Obj().Name() == "Write" {
						meth = fr.i.prog.MethodValue(mset.At(k))
					}
				}
			}
			if meth == nil {
				unsupported("fmt.Fprintf: writer without Write method")
			}
			buf := make([]value, len(s))
			copy(buf, s)
			r := call(fr.i, fr, token.NoPos, meth, []value{w.v, buf})
			return r
		}
	}
	unsupported("fmt.Fprintf(%v, ...) with these operands", args[1])
	return nil
}

func extFmtErrorf(fr *frame, args []value) value {
	// the message text of errors is not an observable of any harness: a fixed error value of the interpreter's error type
	return iface{t: fr.i.runtimeErrorString, v: "fmt.Errorf(...)"}
}

func init() {
	externals["fmt.Sprintf"] = extFmtSprintf
	externals["fmt.Fprintf"] = extFmtFprintf
	externals["fmt.Errorf"] = extFmtErrorf
}


// goSyntax renders %#v for structs of strings, string slices, booleans and integers (concrete values only).
func goSyntax(t types.Type, v value) (string, bool) {
	switch u := t.Underlying().(type) {
	case *types.Basic:
		switch x := v.(type) {
		case string:
			return strconv.Quote(x), true
		case bool, int, int8, int16, int32, int64, uint, uint8, uint16, uint32, uint64:
			return fmt.Sprintf("%#v", x), true
		}
		return "", false
	case *types.Slice:
		xs, ok := v.([]value)
		if !ok {
			return "", false
		}
		if xs == nil {
			return types.TypeString(t, nil) + "(nil)", true
		}
		parts := make([]string, len(xs))
		for i, e := range xs {
			p, ok := goSyntax(u.Elem(), e)
			if !ok {
				return "", false
			}
			parts[i] = p
		}
		return types.TypeString(t, func(p *types.Package) string { return p.Name() }) + "{" + strings.Join(parts, ", ") + "}", true
	case *types.Struct:
		st, ok := v.(structure)
		if !ok {
			return "", false
		}
		parts := make([]string, len(st))
		for i := range st {
			p, ok := goSyntax(u.Field(i).Type(), st[i])
			if !ok {
				return "", false
			}
			parts[i] = u.Field(i).Name() + ":" + p
		}
		return types.TypeString(t, func(p *types.Package) string { return p.Name() }) + "{" + strings.Join(parts, ", ") + "}", true
	}
	return "", false
}

// sort.Slice and friends use reflection (reflectlite.Swapper): done here on the interpreter's own slice representation.
func extSortSlice(stable bool) externalFn {
	return func(fr *frame, args []value) value {
		itf, ok := args[0].(iface)
		if !ok {
			unsupported("sort.Slice of %T", args[0])
		}
		s, ok := itf.v.([]value)
		if !ok {
			unsupported("sort.Slice of %T", itf.v)
		}
		less := func(i, j int) bool {
			r := call(fr.i, fr, token.NoPos, args[1], []value{i, j})
			return condBool(r)
		}
		// insertion sort driven by the user's less (stable; the element count in the analysed code is small); elements are swapped in place
		for i := 1; i < len(s); i++ {
			for j := i; j > 0 && less(j, j-1); j-- {
				journalSlice(s[j-1 : j+1])
				s[j], s[j-1] = s[j-1], s[j]
			}
		}
		return nil
	}
}

func init() {
	externals["sort.Slice"] = extSortSlice(false)
	externals["sort.SliceStable"] = extSortSlice(true)
}

// reflect.DeepEqual on the shapes the analysed code uses it for (comparison with a nil / zero interface or pointer, comparable scalars);
// anything that would need a deep walk is unsupported.
func extDeepEqual(fr *frame, args []value) value {
	a, aok := args[0].(iface)
	b, bok := args[1].(iface)
	if !aok || !bok {
		unsupported("reflect.DeepEqual of %T, %T", args[0], args[1])
	}
	if a.t == nil || b.t == nil {
		return a.t == nil && b.t == nil
	}
	if !types.Identical(a.t, b.t) {
		return false
	}
	switch av := a.v.(type) {
	case *value:
		bv := b.v.(*value)
		if av == bv {
			return true
		}
		if av == nil || bv == nil {
			return false
		}
		unsupported("reflect.DeepEqual of two different non-nil pointers")
	case iface:
		return extDeepEqual(fr, []value{av, b.v})
	case bool, int, int8, int16, int32, int64, uint, uint8, uint16, uint32, uint64, uintptr, string, float32, float64:
		return equals(a.t, a.v, b.v)
	}
	unsupported("reflect.DeepEqual of %T", a.v)
	return nil
}

func extPoolGet(fr *frame, args []value) value {
	p := args[0].(*value)
	st := (*p).(structure)
	newFn := st[len(st)-1]
	switch f := newFn.(type) {
	case *ssa.Function:
		if f == nil {
			return iface{}
		}
	case nil:
		return iface{}
	}
	return call(fr.i, fr, token.NoPos, newFn, nil)
}

func init() {
	externals["reflect.DeepEqual"] = extDeepEqual
	externals["(*sync.Pool).Get"] = extPoolGet
	externals["(*sync.Pool).Put"] = extNop
}
