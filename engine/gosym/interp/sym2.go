// Symbolic layer, part 2: structural helpers, deterministic map iteration, lenient package initialisation,
// the exploration driver.

package interp

import (
	"fmt"
	"go/token"
	"go/types"
	"os"
	"runtime"
	"runtime/debug"
	"sort"
	"strings"
	"time"
	"unicode/utf8"

	"golang.org/x/tools/go/ssa"
)

func mustDeref(t types.Type) types.Type {
	if p, ok := t.Underlying().(*types.Pointer); ok {
		return p.Elem()
	}
	panic(fmt.Sprintf("mustDeref: %s is not a pointer", t))
}

func isEnginePanic(p interface{}) bool {
	switch p.(type) {
	case unsupportedPanic, infeasiblePanic, assumeFalsePanic, boundPanic:
		return true
	}
	return false
}

func containsSym(v value) bool {
	switch x := v.(type) {
	case sym, symstr, poison:
		return true
	case array:
		for _, e := range x {
			if containsSym(e) {
				return true
			}
		}
	case structure:
		for _, e := range x {
			if containsSym(e) {
				return true
			}
		}
	case []value:
		for _, e := range x {
			if containsSym(e) {
				return true
			}
		}
	case iface:
		return containsSym(x.v)
	case tuple:
		for _, e := range x {
			if containsSym(e) {
				return true
			}
		}
	}
	return false
}

// symEquals: == on values that contain symbolic parts; the result is a bool or a symbolic Bool.
func symEquals(t types.Type, x, y value) value {
	conj := []string{}
	var walk func(t types.Type, x, y value) bool // false: definitely different
	walk = func(t types.Type, x, y value) bool {
		switch xv := x.(type) {
		case array:
			yv := y.(array)
			et := t.Underlying().(*types.Array).Elem()
			for i := range xv {
				if !walk(et, xv[i], yv[i]) {
					return false
				}
			}
			return true
		case structure:
			yv := y.(structure)
			st := t.Underlying().(*types.Struct)
			for i := range xv {
				if st.Field(i).Name() == "_" {
					continue
				}
				if !walk(st.Field(i).Type(), xv[i], yv[i]) {
					return false
				}
			}
			return true
		case iface:
			yv := y.(iface)
			if xv.t == nil || yv.t == nil {
				return xv.t == nil && yv.t == nil
			}
			if !types.Identical(xv.t, yv.t) {
				return false
			}
			return walk(xv.t, xv.v, yv.v)
		}
		if !isSym(x) && !isSym(y) {
			return equals(t, x, y)
		}
		r := symBinop(token.EQL, t, x, y)
		switch b := r.(type) {
		case bool:
			return b
		case sym:
			conj = append(conj, b.t)
		}
		return true
	}
	if !walk(t, x, y) {
		return false
	}
	if len(conj) == 0 {
		return true
	}
	if len(conj) == 1 {
		return cur.mkBool(conj[0])
	}
	return cur.mkBool("(and " + strings.Join(conj, " ") + ")")
}

func maxLenCap(x value) int {
	switch x := x.(type) {
	case symstr:
		return len(x)
	case string:
		return len(x)
	case []value:
		return cap(x)
	case *value:
		return len((*x).(array))
	}
	return 0
}

// checkedIndex: a (possibly symbolic) index into a sequence of length n: out of range is a path of its own (the Go panic)
func checkedIndex(idx value, n int) int64 {
	if s, ok := idx.(sym); ok {
		if !cur.branch(inRangeTerm(s, n)) {
			panic(runtimeErrorString("index out of range"))
		}
	}
	i := asInt64(idx)
	if i < 0 || i >= int64(n) {
		panic(runtimeErrorString(fmt.Sprintf("index out of range [%d] with length %d", i, n)))
	}
	return i
}

// symIndexString / symIndexArray: value loads; a symbolic index into scalars becomes an ite chain (no case split)
func symIndexString(s symstr, idx value) value {
	if sv, ok := idx.(sym); ok && len(s) <= 512 && len(s) > 0 {
		checkRange(sv, len(s))
		res, _, _ := bvTerm(s[len(s)-1])
		for k := len(s) - 2; k >= 0; k-- {
			e, _, _ := bvTerm(s[k])
			res = fmt.Sprintf("(ite (= %s %s) %s %s)", sv.t, bvLit(sv.bits, uint64(k)), e, res)
		}
		return cur.mkInt(8, false, res)
	}
	return s[checkedIndex(idx, len(s))]
}

func inRangeTerm(sv sym, n int) string {
	// compared at 64 bits, so that a length that does not fit the index type (a 256-entry table indexed by a byte) is handled
	t := resize(sv.t, sv.bits, sv.sgn, 64)
	if sv.sgn {
		return fmt.Sprintf("(and (bvsle %s %s) (bvslt %s %s))", bvLit(64, 0), t, t, bvLit(64, uint64(n)))
	}
	return fmt.Sprintf("(bvult %s %s)", t, bvLit(64, uint64(n)))
}

func checkRange(sv sym, n int) {
	if !cur.branch(inRangeTerm(sv, n)) {
		panic(runtimeErrorString("index out of range"))
	}
}

func symIndexArray(a array, idx value) value {
	if sv, ok := idx.(sym); ok && len(a) <= 512 && len(a) > 0 {
		// only for arrays of integer scalars of one width
		bits0, sgn0, _, ok0 := valueInfo(a[0])
		if s0, isS := a[0].(sym); isS && s0.bits > 0 {
			bits0, sgn0, ok0 = s0.bits, s0.sgn, true
		}
		uniform := ok0
		for _, e := range a {
			switch x := e.(type) {
			case sym:
				if x.bits != bits0 {
					uniform = false
				}
			default:
				b, _, _, k := valueInfo(e)
				if !k || b != bits0 {
					uniform = false
				}
			}
		}
		if uniform {
			checkRange(sv, len(a))
			res, _, _ := bvTerm(a[len(a)-1])
			for k := len(a) - 2; k >= 0; k-- {
				e, _, _ := bvTerm(a[k])
				res = fmt.Sprintf("(ite (= %s %s) %s %s)", sv.t, bvLit(sv.bits, uint64(k)), e, res)
			}
			return cur.mkInt(bits0, sgn0, res)
		}
	}
	return a[checkedIndex(idx, len(a))]
}

// concKey: a map key with symbolic parts is enumerated
// concKeyT: like concKey, with the key's Go type known (a symbolic integer key is enumerated)
func concKeyT(k value, t types.Type) value {
	if s, ok := k.(sym); ok && s.bits > 0 {
		if _, _, isInt := intInfo(t); isInt {
			return mkInt(t, cur.concretize(s))
		}
	}
	if s, ok := k.(sym); ok && s.bits == 0 {
		return cur.concretize(s) == 1
	}
	return concKey(k)
}

func concKey(k value) value {
	switch x := k.(type) {
	case sym:
		unsupported("symbolic integer map key (declare the key type in the harness and concretise)")
	case symstr:
		return cur.concretizeString(x)
	case poison:
		unsupported("use of a value that was not initialised (%s)", x.why)
	}
	return k
}

// symMapKey: lookup with a symbolic string key: case split on equality with each present key (canonical order)
func symMapKey(m value, k value) value {
	ks, ok := k.(symstr)
	if !ok {
		return concKey(k)
	}
	_ = ks
	var keys []string
	switch mm := m.(type) {
	case map[value]value:
		for kk := range mm {
			if s, ok := kk.(string); ok {
				keys = append(keys, s)
			}
		}
	default:
		return concKey(k)
	}
	sort.Strings(keys)
	for _, cand := range keys {
		if len(cand) != len(ks) {
			continue
		}
		r := symStringBinop(token.EQL, ks, cand)
		if condBool(r) {
			return cand
		}
	}
	// different from every key: any string of that shape that is not a key; keep it symbolic-free by a marker that cannot be a key
	return "\x00verif:absent:" + fmt.Sprint(len(ks))
}

// ---- deterministic (or symbolically permuted) map iteration

type detMapIter struct {
	m    map[value]value
	hm   *hashmap
	keys []value
	i    int
}

func keyString(v value) string { return fmt.Sprintf("%T:%s", v, toString(v)) }

func newDetMapIter(m map[value]value, hm *hashmap) *detMapIter {
	it := &detMapIter{m: m, hm: hm}
	if m != nil {
		for k := range m {
			it.keys = append(it.keys, k)
		}
	} else if hm != nil {
		for _, e := range hm.table {
			for ; e != nil; e = e.next {
				it.keys = append(it.keys, e.key)
			}
		}
	}
	sort.Slice(it.keys, func(a, b int) bool { return keyString(it.keys[a]) < keyString(it.keys[b]) })
	if cur != nil && cur.SymbolicMapOrder && len(it.keys) > 1 {
		// every iteration order: one symbolic choice per position (enumerated by case splits)
		n := len(it.keys)
		perm := make([]value, 0, n)
		rest := append([]value{}, it.keys...)
		for len(rest) > 1 {
			cur.mapChoices++
			c := cur.declareInput(fmt.Sprintf("maporder_%d", cur.mapChoices), 8, false)
			if !cur.assume(fmt.Sprintf("(bvult %s %s)", c.t, bvLit(8, uint64(len(rest))))) {
				panic(infeasiblePanic{})
			}
			k := int(cur.concretize(c))
			perm = append(perm, rest[k])
			rest = append(rest[:k], rest[k+1:]...)
		}
		perm = append(perm, rest[0])
		it.keys = perm
	}
	return it
}

func (it *detMapIter) next() tuple {
	for it.i < len(it.keys) {
		k := it.keys[it.i]
		it.i++
		if it.m != nil {
			if v, ok := it.m[k]; ok {
				return tuple{true, k, v}
			}
		} else if it.hm != nil {
			if v := it.hm.lookup(k.(hashable)); v != nil {
				return tuple{true, k, v}
			}
		}
	}
	return tuple{false, nil, nil}
}

// range over a string with symbolic bytes: ASCII bytes are decided by a branch, anything else is enumerated
type symStringIter struct {
	s symstr
	i int
}

func (it *symStringIter) next() tuple {
	if it.i >= len(it.s) {
		return tuple{false, nil, nil}
	}
	start := it.i
	if b, ok := it.s[it.i].(sym); ok {
		if cur.branch(fmt.Sprintf("(bvult %s %s)", b.t, bvLit(8, 0x80))) {
			it.i++
			return tuple{true, start, cur.mkInt(32, true, resize(b.t, 8, false, 32))}
		}
	}
	// concrete decoding of the next up to 4 bytes (symbolic ones enumerated)
	end := it.i + 4
	if end > len(it.s) {
		end = len(it.s)
	}
	buf := []byte(cur.concretizeString(it.s[it.i:end]))
	r, n := utf8.DecodeRune(buf)
	it.i += n
	return tuple{true, start, r}
}

// ---- journal (undo log for state that outlives a path)

func journalMap(m map[value]value, k value) {
	if cur != nil && cur.journaling {
		old, had := m[k]
		cur.journal = append(cur.journal, undo{m: m, key: k, old: old, had: had})
	}
}

func journalHashmap(m *hashmap, k hashable) {
	if cur != nil && cur.journaling {
		old := m.lookup(k)
		cur.journal = append(cur.journal, undo{hm: m, key: k, old: old, had: old != nil})
	}
}

func journalSlice(d []value) {
	if cur != nil && cur.journaling {
		for i := range d {
			cur.journal = append(cur.journal, undo{addr: &d[i], old: d[i]})
		}
	}
}

func (e *Explorer) rollback() {
	for i := len(e.journal) - 1; i >= 0; i-- {
		u := e.journal[i]
		switch {
		case u.addr != nil:
			*u.addr = u.old
		case u.m != nil:
			if u.had {
				u.m[u.key] = u.old
			} else {
				delete(u.m, u.key)
			}
		case u.hm != nil:
			if u.had {
				u.hm.insert(u.key.(hashable), u.old)
			} else {
				u.hm.delete(u.key.(hashable))
			}
		}
	}
	e.journal = e.journal[:0]
}

// ---- lenient package initialisation

func (i *interpreter) wantInit(pkg *ssa.Package) bool {
	if pkg == nil {
		return false
	}
	return i.initWanted[pkg.Pkg.Path()]
}

// lenientCall: a call made directly by a package initialiser; if it cannot be executed its result is poison
func lenientCall(fr *frame, instr *ssa.Call, fn value, args []value) (res value) {
	defer func() {
		if p := recover(); p != nil {
			why := ""
			switch x := p.(type) {
			case unsupportedPanic:
				why = x.msg
			case boundPanic:
				why = x.msg
			case infeasiblePanic, assumeFalsePanic:
				panic(p)
			default:
				why = fmt.Sprint(p)
			}
			if len(why) > 160 {
				why = why[:160]
			}
			res = poison{why: fmt.Sprintf("%s: %s", instr.Call.Value.Name(), why)}
			if os.Getenv("GOSYM_TRACE_INIT") != "" {
				fmt.Fprintf(os.Stderr, "[init] %s -> poison: %s\n", instr.Call.Value.Name(), why)
			}
		}
	}()
	return call(fr.i, fr, instr.Pos(), fn, args)
}

// lenientInstr executes one instruction of a package initialiser; an instruction that cannot be executed yields poison (a value) or is
// skipped (a store); a branch that cannot be decided ends the initialiser (whatever it has not initialised yet stays poison).
func lenientInstr(fr *frame, instr ssa.Instruction) (k continuation) {
	defer func() {
		p := recover()
		if p == nil {
			return
		}
		switch p.(type) {
		case infeasiblePanic, assumeFalsePanic:
			panic(p)
		}
		why := fmt.Sprint(p)
		if u, ok := p.(unsupportedPanic); ok {
			why = u.msg
		}
		if len(why) > 160 {
			why = why[:160]
		}
		if os.Getenv("GOSYM_TRACE_INIT") != "" {
			fmt.Fprintf(os.Stderr, "[init %s] %s -> poison: %s\n", fr.fn.Pkg.Pkg.Path(), instr, why)
		}
		switch in := instr.(type) {
		case *ssa.If, *ssa.Jump, *ssa.Return, *ssa.Panic:
			fr.block = nil
			k = kReturn
		case ssa.Value:
			fr.env[in] = poison{why: why}
			k = kNext
		default:
			k = kNext
		}
	}()
	return visitInstr(fr, instr)
}

// ---- session and exploration driver

type Config struct {
	SolverBin    string
	TimeoutMs    int
	MaxPaths     int
	MaxDecisions int
	MaxSeconds   int
	InitPkgs     []string
	MapOrder     bool
	Trace        bool
}

type Session struct {
	i   *interpreter
	cfg Config
}

type Result struct {
	Harness     string            `json:"harness"`
	Paths       int               `json:"paths"`
	Ends        map[string]int    `json:"ends"`
	EndDetail   map[string]int    `json:"end_detail"`
	AssertsOK   int               `json:"asserts_ok"`
	Violations  []Violation       `json:"violations"`
	Reached     map[string]int    `json:"reached"`
	Queries     int               `json:"queries"`
	SolverMs    int64             `json:"solver_ms"`
	WallMs      int64             `json:"wall_ms"`
	Unknowns    int               `json:"unknowns"`
	Truncated   bool              `json:"truncated"`
	Pending     int               `json:"pending_left"`
	Inputs      []string          `json:"inputs"`
	MaxDecision int               `json:"max_decisions_on_a_path"`
	Functions   []string          `json:"functions_entered"`
}

func NewSession(prog *ssa.Program, sizes types.Sizes, cfg Config) *Session {
	i := &interpreter{
		prog:       prog,
		globals:    make(map[*ssa.Global]*value),
		sizes:      sizes,
		goroutines: 1,
		initWanted: map[string]bool{},
		initDone:   map[*ssa.Package]bool{},
	}
	if cfg.Trace {
		i.mode |= EnableTracing
	}
	for _, p := range cfg.InitPkgs {
		i.initWanted[p] = true
	}
	runtimePkg := prog.ImportedPackage("runtime")
	if runtimePkg == nil {
		panic("ssa.Program doesn't include runtime package")
	}
	i.runtimeErrorString = runtimePkg.Type("errorString").Object().Type()
	initReflect(i)
	for _, pkg := range prog.AllPackages() {
		for _, m := range pkg.Members {
			if v, ok := m.(*ssa.Global); ok {
				var cell value
				if pkg.Pkg != nil && i.initWanted[pkg.Pkg.Path()] || pkg == i.reflectPackage {
					cell = zero(mustDeref(v.Type()))
					if wholeStored(pkg, v) {
						cell = poison{why: "the initialiser of " + pkg.Pkg.Path() + "." + v.Name() + " could not be executed"}
					}
				} else if v.Name() == "init$guard" {
					cell = false
				} else {
					cell = poison{why: "package " + pkg.Pkg.Path() + " is not initialised in this harness"}
				}
				i.globals[v] = &cell
			}
		}
	}
	return &Session{i: i, cfg: cfg}
}

// InitPackages runs the initialisers of the wanted packages (dependencies first, through the synthetic init functions).
func (s *Session) InitPackages(order []*ssa.Package) (err error) {
	e := &Explorer{inputs: map[string]sym{}, Reached: map[string]int{}, declaredNow: map[string]bool{}}
	cur = e
	defer func() {
		cur = nil
		if p := recover(); p != nil {
			err = fmt.Errorf("package initialisation failed: %v", p)
		}
	}()
	for _, pkg := range order {
		if s.i.wantInit(pkg) {
			if f := pkg.Func("init"); f != nil {
				call(s.i, nil, token.NoPos, f, nil)
			}
		}
	}
	return nil
}

func (s *Session) Explore(fn *ssa.Function) *Result {
	r, _ := s.ExploreFrom(fn, nil, 0)
	return r
}

// Decision is the serialisable form of a recorded decision (for splitting the exploration between worker processes).
type Decision = decision

// ExploreFrom explores the subtrees below the given decision prefixes (nil: the whole tree).  If splitAt > 0 it stops as soon as
// that many unexplored prefixes are queued and returns them.
func (s *Session) ExploreFrom(fn *ssa.Function, prefixes [][]Decision, splitAt int) (*Result, [][]Decision) {
	cfg := s.cfg
	solver, err := newSolver(cfg.SolverBin, cfg.TimeoutMs)
	if err != nil {
		panic(err)
	}
	defer solver.close()
	if f := os.Getenv("GOSYM_SMTLOG"); f != "" {
		if w, err := os.Create(f); err == nil {
			solver.log = w
			defer w.Close()
		}
	}
	e := &Explorer{solver: solver, inputs: map[string]sym{}, Reached: map[string]int{}, MaxDecision: cfg.MaxDecisions, journaling: true, SymbolicMapOrder: cfg.MapOrder, mapOrderDefault: cfg.MapOrder}
	cur = e
	defer func() { cur = nil }()
	e.pending = [][]decision{{}}
	if prefixes != nil {
		e.pending = prefixes
	}
	res := &Result{Harness: fn.Name(), Ends: map[string]int{}, EndDetail: map[string]int{}}
	entered := map[string]bool{}
	_ = entered
	t0 := time.Now()
	for len(e.pending) > 0 {
		if cfg.MaxPaths > 0 && len(e.Paths) >= cfg.MaxPaths {
			res.Truncated = true
			break
		}
		if cfg.MaxSeconds > 0 && time.Since(t0) > time.Duration(cfg.MaxSeconds)*time.Second {
			res.Truncated = true
			break
		}
		splitting := splitAt > 0 && len(e.Paths) >= 1500 // small trees are finished in this process; big ones are split breadth-first
		if splitting && len(e.pending) >= splitAt {
			break
		}
		var prefix []decision
		if splitting {
			// breadth first while splitting, so that the queued subtrees are of similar size
			prefix = e.pending[0]
			e.pending = e.pending[1:]
		} else {
			prefix = e.pending[len(e.pending)-1]
			e.pending = e.pending[:len(e.pending)-1]
		}
		e.runPath(s.i, fn, prefix)
	}
	var left [][]Decision
	if splitAt > 0 && !res.Truncated {
		left = e.pending
		e.pending = nil
	}
	res.Pending = len(e.pending)
	res.Paths = len(e.Paths)
	for _, p := range e.Paths {
		k := p.End
		if j := strings.Index(k, ":"); j > 0 {
			res.EndDetail[k]++
			k = k[:j]
		}
		res.Ends[k]++
		res.AssertsOK += p.AssertsOK
		if p.Decisions > res.MaxDecision {
			res.MaxDecision = p.Decisions
		}
	}
	res.Violations = e.Violations
	res.Reached = e.Reached
	res.Queries = e.Queries
	res.SolverMs = e.SolverTime.Milliseconds()
	res.WallMs = time.Since(t0).Milliseconds()
	res.Unknowns = e.Unknowns
	res.Inputs = e.inputOrder
	return res, left
}

// Merge adds the counts of another (partial) result.
func (r *Result) Merge(o *Result) {
	r.Paths += o.Paths
	for k, v := range o.Ends {
		r.Ends[k] += v
	}
	for k, v := range o.EndDetail {
		r.EndDetail[k] += v
	}
	r.AssertsOK += o.AssertsOK
	r.Violations = append(r.Violations, o.Violations...)
	for k, v := range o.Reached {
		r.Reached[k] += v
	}
	r.Queries += o.Queries
	r.SolverMs += o.SolverMs
	r.Unknowns += o.Unknowns
	r.Truncated = r.Truncated || o.Truncated
	r.Pending += o.Pending
	if o.MaxDecision > r.MaxDecision {
		r.MaxDecision = o.MaxDecision
	}
	seen := map[string]bool{}
	for _, n := range r.Inputs {
		seen[n] = true
	}
	for _, n := range o.Inputs {
		if !seen[n] {
			r.Inputs = append(r.Inputs, n)
		}
	}
}

func (e *Explorer) runPath(i *interpreter, fn *ssa.Function, prefix []decision) {
	e.prefix = prefix
	e.taken = e.taken[:0]
	e.defs = 0
	e.depth = 0
	e.mapChoices = 0
	e.unknowns = 0
	e.panicSite = ""
	e.SymbolicMapOrder = e.mapOrderDefault
	e.declaredNow = map[string]bool{}
	e.solver.send("(push 1)")
	rec := PathRecord{}
	e.curPath = &rec
	func() {
		defer func() {
			p := recover()
			switch x := p.(type) {
			case nil:
				rec.End = "normal"
			case infeasiblePanic:
				rec.End = "infeasible"
			case assumeFalsePanic:
				rec.End = "assume"
			case unsupportedPanic:
				rec.End = "unsupported:" + x.msg
			case boundPanic:
				rec.End = "bound:" + x.msg
			case targetPanic:
				rec.End = "panic:" + clip(toString(x.v), 120)
				if os.Getenv("GOSYM_DEBUG") != "" {
					rec.End += " @ " + clip(e.panicSite, 400)
				}
			case runtimeErrorString:
				rec.End = "panic:" + x.Error()
			case runtime.Error:
				// an error inside the interpreter itself (unexpected dynamic type ...): the construct is not supported
				rec.End = "unsupported:interpreter: " + clip(x.Error(), 200) + " @ " + clip(e.panicSite, 300)
				if os.Getenv("GOSYM_DEBUG") != "" {
					fmt.Fprintf(os.Stderr, "[debug] %v\n%s\n", x, debug.Stack())
				}
			case string:
				rec.End = "unsupported:interpreter: " + clip(x, 200)
			default:
				rec.End = "unsupported:interpreter: " + clip(fmt.Sprint(p), 200)
			}
		}()
		call(i, nil, token.NoPos, fn, nil)
	}()
	rec.Decisions = len(e.taken)
	e.rollback()
	e.solver.send("(pop 1)")
	if rec.End != "infeasible" && rec.End != "assume" {
		e.Paths = append(e.Paths, rec)
	} else if rec.End == "assume" {
		e.Paths = append(e.Paths, rec)
	}
}

func clip(s string, n int) string {
	if len(s) > n {
		return s[:n]
	}
	return s
}


// wholeStored: the package initialiser assigns the global as a whole (var x = expr): until that store has run the variable is poison, not zero.
var wholeStoredCache = map[*ssa.Package]map[*ssa.Global]bool{}

func wholeStored(pkg *ssa.Package, g *ssa.Global) bool {
	m, ok := wholeStoredCache[pkg]
	if !ok {
		m = map[*ssa.Global]bool{}
		if f := pkg.Func("init"); f != nil {
			for _, b := range f.Blocks {
				for _, in := range b.Instrs {
					if st, ok := in.(*ssa.Store); ok {
						if gg, ok := st.Addr.(*ssa.Global); ok {
							m[gg] = true
						}
					}
				}
			}
		}
		wholeStoredCache[pkg] = m
	}
	return m[g] && g.Name() != "init$guard"
}
