//go:build !verif

package main

import "fmt"

func main() {
	for i, c := range Cases {
		for j, v := range Vectors {
			fmt.Printf("%d %d %d\n", i, j, c(v[0], v[1]))
		}
	}
}
