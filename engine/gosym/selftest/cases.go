// Validation vectors for the gosym engine: every case is evaluated natively (go run) and symbolically (inputs pinned by assumptions, so the
// engine has to build and the solver has to evaluate the SMT encoding of the operation); the results must agree.
package main

import "strings"

type pair struct{ a, b int32 }

type shape interface{ area() int64 }
type sq struct{ s int64 }
type rc struct{ w, h int64 }

func (q sq) area() int64  { return q.s * q.s }
func (r *rc) area() int64 { return r.w * r.h }

func gsum[T int8 | int16 | int64](xs ...T) T {
	var t T
	for _, x := range xs {
		t += x
	}
	return t
}

func safeDiv(x, y int64) (r int64) {
	defer func() {
		if recover() != nil {
			r = -7777
		}
	}()
	return x / y
}

var Cases = []func(x, y int64) int64{
	func(x, y int64) int64 { return x + y },
	func(x, y int64) int64 { return x - y*3 },
	func(x, y int64) int64 { return x * y },
	func(x, y int64) int64 { return safeDiv(x, y) },
	func(x, y int64) int64 {
		if y == 0 {
			return 0
		}
		return x % y
	},
	func(x, y int64) int64 { return int64(int8(x)) + int64(uint8(y)) },
	func(x, y int64) int64 { return int64(int16(x)*int16(y)) + int64(uint16(x)+uint16(y)) },
	func(x, y int64) int64 { return int64(int32(x)/int32(y|1)) + int64(uint32(x)%uint32(y|1)) },
	func(x, y int64) int64 { return x<<uint(y&63) ^ x>>uint(y&63) },
	func(x, y int64) int64 { return int64(uint64(x)>>uint(y&63)) + int64(int8(x)>>uint(y&7)) },
	func(x, y int64) int64 { return int64(int32(x) << uint(y&63)) },
	func(x, y int64) int64 { return x&y | x&^y ^ (x | y) },
	func(x, y int64) int64 { return int64(^uint16(x)) + int64(-int8(y)) },
	func(x, y int64) int64 {
		r := int64(0)
		if x < y {
			r |= 1
		}
		if uint64(x) < uint64(y) {
			r |= 2
		}
		if int8(x) >= int8(y) {
			r |= 4
		}
		if uint8(x) > uint8(y) {
			r |= 8
		}
		return r
	},
	func(x, y int64) int64 {
		b := []byte{byte(x), byte(y), byte(x >> 8), 'a'}
		s := string(b)
		r := int64(len(s))
		if strings.HasPrefix(s, string([]byte{byte(x)})) {
			r += 10
		}
		if s[3] == 'a' {
			r += 100
		}
		return r + int64(s[1])
	},
	func(x, y int64) int64 {
		tbl := [8]uint16{3, 1, 4, 1, 5, 9, 2, 6}
		return int64(tbl[x&7]) * int64(tbl[y&7])
	},
	func(x, y int64) int64 {
		m := map[int64]int64{1: 10, 2: 20}
		m[x&3] += y & 15
		return m[1] + m[2] + m[0] + m[3] + int64(len(m))
	},
	func(x, y int64) int64 {
		p := pair{int32(x), int32(y)}
		q := p
		q.a++
		arr := [2]pair{p, q}
		if arr[0] == p && arr[1] != p {
			return int64(arr[1].a - arr[0].a + p.b)
		}
		return -1
	},
	func(x, y int64) int64 {
		var s shape = sq{x & 1023}
		var t shape = &rc{x & 255, y & 255}
		return s.area() + t.area()
	},
	func(x, y int64) int64 { return int64(gsum(int8(x), int8(y), 100)) + int64(gsum(int16(x), int16(y))) + gsum(x, y) },
	func(x, y int64) int64 {
		acc := int64(0)
		add := func(d int64) { acc += d }
		for i := int64(0); i < (x & 3); i++ {
			add(y & 7)
		}
		return acc
	},
	func(x, y int64) int64 {
		s := make([]int64, 0, 2)
		for i := int64(0); i < 4; i++ {
			s = append(s, x+i)
		}
		t := s[1:3]
		t[0] = y
		return s[1] + int64(len(t)) + int64(cap(t)) + s[3]
	},
	func(x, y int64) int64 {
		r := int64(0)
		switch {
		case x > y:
			r = 1
		case x == y:
			r = 2
		default:
			r = 3
		}
		switch x & 3 {
		case 0, 1:
			r += 10
			fallthrough
		case 2:
			r += 100
		}
		return r
	},
	func(x, y int64) int64 {
		a := strings.Fields(" a bb  ccc ")
		return int64(len(a)) + int64(len(a[int(uint64(x)%3)])) + int64(strings.IndexByte("hello", byte('a'+(y&15))))
	},
}

var Vectors = [][2]int64{{0, 0}, {1, -1}, {-128, 127}, {255, 256}, {-9223372036854775808, -1}, {9223372036854775807, 2}, {0x123456789, 0x0fedcba98}, {-77, 13}}
