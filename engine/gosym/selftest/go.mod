module gosymself

go 1.23
