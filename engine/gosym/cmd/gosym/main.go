// gosym: symbolic execution of harness functions over the go/ssa form of packages of the repository under analysis.
//
//	gosym -dir /repo -pkg ./internal/sourcemapx -overlay overlay.json -harness 'VHarness.*' -init a,b,c -out result.json
//
// overlay.json maps file paths inside -dir to files holding harness sources (injected virtually; nothing is written to -dir).
package main

import (
	"bufio"
	"encoding/json"
	"flag"
	"fmt"
	"go/types"
	"io"
	"os"
	"os/exec"
	"regexp"
	"sort"
	"strings"
	"time"

	"gosym/interp"

	"golang.org/x/tools/go/packages"
	"golang.org/x/tools/go/ssa"
	"golang.org/x/tools/go/ssa/ssautil"
)

func main() {
	dir := flag.String("dir", "/repo", "module directory of the code under analysis")
	pkgPat := flag.String("pkg", "", "package pattern containing the harness functions")
	overlayFile := flag.String("overlay", "", "JSON file {virtual path: real path}")
	harnessRe := flag.String("harness", "^VHarness", "regexp selecting harness functions (by name)")
	initList := flag.String("init", "", "comma-separated import paths whose initialisers are run")
	out := flag.String("out", "", "result file (JSON)")
	solver := flag.String("solver", "z3-new", "SMT solver binary (reads SMT-LIB on stdin with -in)")
	timeout := flag.Int("timeout", 20000, "solver timeout per query (ms)")
	maxPaths := flag.Int("maxpaths", 20000, "path budget per harness")
	maxDec := flag.Int("maxdecisions", 4000, "decision budget per path (unwinding bound; exceeding it is reported, never silently cut)")
	maxSec := flag.Int("maxseconds", 600, "time budget per harness")
	mapOrder := flag.Bool("maporder", false, "iterate maps in every order (symbolic permutation) instead of one canonical order")
	tags := flag.String("tags", "verif", "build tags")
	trace := flag.Bool("trace", false, "trace instructions")
	workers := flag.Int("workers", 1, "worker processes per harness (the decision tree is split breadth-first)")
	prefixFile := flag.String("prefixes", "", "(worker mode) JSON file with the decision prefixes to explore")
	serve := flag.Bool("serve", false, "(worker mode) read {harness, prefixes} requests as JSON lines on stdin, answer with result lines on stdout")
	stubList := flag.String("stub", "", "comma-separated target=HarnessFunc: calls of target (ssa Function.String()) run HarnessFunc (declared in the harness package) instead")
	flag.Parse()

	var pool *workerPool // started when the first harness turns out to be big (each worker has to load the packages itself)
	defer func() {
		if pool != nil {
			pool.stop()
		}
	}()
	overlay := map[string][]byte{}
	if *overlayFile != "" {
		raw, err := os.ReadFile(*overlayFile)
		check(err)
		var m map[string]string
		check(json.Unmarshal(raw, &m))
		for virt, realp := range m {
			b, err := os.ReadFile(realp)
			check(err)
			overlay[virt] = b
		}
	}
	t0 := time.Now()
	cfg := &packages.Config{
		Mode: packages.NeedName | packages.NeedFiles | packages.NeedCompiledGoFiles | packages.NeedImports | packages.NeedDeps |
			packages.NeedTypes | packages.NeedSyntax | packages.NeedTypesInfo | packages.NeedTypesSizes | packages.NeedModule,
		Dir:        *dir,
		Overlay:    overlay,
		BuildFlags: []string{"-tags=" + *tags},
		Env:        append(os.Environ(), "GOFLAGS=-mod=mod", "GOPROXY=off", "GOSUMDB=off", "GOTOOLCHAIN=local"),
	}
	pkgs, err := packages.Load(cfg, *pkgPat)
	check(err)
	if packages.PrintErrors(pkgs) > 0 {
		fmt.Fprintln(os.Stderr, "HARNESS-DOES-NOT-BUILD")
		os.Exit(3)
	}
	prog, spkgs := ssautil.AllPackages(pkgs, ssa.InstantiateGenerics)
	prog.Build()
	loadMs := time.Since(t0).Milliseconds()

	var sizes types.Sizes = &types.StdSizes{WordSize: 8, MaxAlign: 8}
	icfg := interp.Config{SolverBin: *solver, TimeoutMs: *timeout, MaxPaths: *maxPaths, MaxDecisions: *maxDec, MaxSeconds: *maxSec, MapOrder: *mapOrder, Trace: *trace}
	if *initList != "" {
		icfg.InitPkgs = strings.Split(*initList, ",")
	}
	sess := interp.NewSession(prog, sizes, icfg)
	// initialise wanted packages, dependencies first (the synthetic initialisers call their imports themselves; unwanted ones are skipped)
	var order []*ssa.Package
	for _, p := range prog.AllPackages() {
		order = append(order, p)
	}
	sort.Slice(order, func(a, b int) bool { return order[a].Pkg.Path() < order[b].Pkg.Path() })
	if *stubList != "" {
		for _, ent := range strings.Split(*stubList, ",") {
			kv := strings.SplitN(ent, "=", 2)
			var repl *ssa.Function
			for _, sp := range spkgs {
				if sp != nil && sp.Func(kv[1]) != nil {
					repl = sp.Func(kv[1])
				}
			}
			if repl == nil {
				fmt.Fprintf(os.Stderr, "HARNESS-DOES-NOT-BUILD: stub %s: replacement not found\n", ent)
				os.Exit(3)
			}
			interp.SetStub(kv[0], repl)
		}
	}
	t1 := time.Now()
	if err := sess.InitPackages(order); err != nil {
		fmt.Fprintln(os.Stderr, err)
		os.Exit(4)
	}
	initMs := time.Since(t1).Milliseconds()

	if *serve {
		serveLoop(sess, spkgs)
		return
	}
	re := regexp.MustCompile(*harnessRe)
	type output struct {
		LoadMs  int64            `json:"load_ms"`
		InitMs  int64            `json:"init_ms"`
		Results []*interp.Result `json:"results"`
	}
	o := output{LoadMs: loadMs, InitMs: initMs}
	for _, sp := range spkgs {
		if sp == nil {
			continue
		}
		var names []string
		for name, m := range sp.Members {
			if f, ok := m.(*ssa.Function); ok && re.MatchString(name) && f.Signature.Params().Len() == 0 {
				names = append(names, name)
			}
		}
		sort.Strings(names)
		for _, name := range names {
			f := sp.Func(name)
			var r *interp.Result
			switch {
			case *prefixFile != "":
				raw, err := os.ReadFile(*prefixFile)
				check(err)
				var pf [][]interp.Decision
				check(json.Unmarshal(raw, &pf))
				r, _ = sess.ExploreFrom(f, pf, 0)
			case *workers > 1 && !*serve:
				var left [][]interp.Decision
				r, left = sess.ExploreFrom(f, nil, *workers*6)
				if len(left) > 0 {
					if pool == nil {
						pool = startPool(*workers)
					}
					pool.run(r, left, name)
				}
			default:
				r = sess.Explore(f)
			}
			o.Results = append(o.Results, r)
			fmt.Fprintf(os.Stderr, "[gosym] %s: %d paths %v, %d violations, %d queries, solver %d ms, wall %d ms\n", name, r.Paths, r.Ends, len(r.Violations), r.Queries, r.SolverMs, r.WallMs)
		}
	}
	b, _ := json.MarshalIndent(o, "", " ")
	if *out != "" {
		check(os.WriteFile(*out, b, 0o644))
	} else {
		os.Stdout.Write(b)
	}
}

// ---- worker pool: the same binary in -serve mode; each worker loads the packages once and then explores the decision subtrees it is given

type request struct {
	Harness  string              `json:"harness"`
	Prefixes [][]interp.Decision `json:"prefixes"`
}

type worker struct {
	cmd *exec.Cmd
	in  *bufio.Writer
	out *bufio.Reader
	raw io.WriteCloser
}

type workerPool struct{ ws []*worker }

func startPool(n int) *workerPool {
	p := &workerPool{}
	var args []string
	skip := false
	for _, a := range os.Args[1:] {
		if skip {
			skip = false
			continue
		}
		switch {
		case a == "-workers" || a == "-out" || a == "-harness" || a == "--workers" || a == "--out" || a == "--harness":
			skip = true
			continue
		case strings.HasPrefix(a, "-workers=") || strings.HasPrefix(a, "-out=") || strings.HasPrefix(a, "-harness="):
			continue
		}
		args = append(args, a)
	}
	args = append(args, "-serve")
	for i := 0; i < n; i++ {
		c := exec.Command(os.Args[0], args...)
		in, err := c.StdinPipe()
		check(err)
		out, err := c.StdoutPipe()
		check(err)
		c.Stderr = nil
		check(c.Start())
		p.ws = append(p.ws, &worker{cmd: c, in: bufio.NewWriter(in), out: bufio.NewReaderSize(out, 1<<20), raw: in})
	}
	return p
}

func (p *workerPool) stop() {
	for _, w := range p.ws {
		w.raw.Close()
		w.cmd.Process.Kill() // a worker that is still loading packages is not waited for
		w.cmd.Wait()
	}
}

// run distributes the queued subtrees round-robin, waits for all workers and merges their results into r.
func (p *workerPool) run(r *interp.Result, left [][]interp.Decision, harness string) {
	n := len(p.ws)
	if n > len(left) {
		n = len(left)
	}
	for wi := 0; wi < n; wi++ {
		var mine [][]interp.Decision
		for i := wi; i < len(left); i += n {
			mine = append(mine, left[i])
		}
		b, _ := json.Marshal(request{Harness: harness, Prefixes: mine})
		w := p.ws[wi]
		w.in.Write(b)
		w.in.WriteByte('\n')
		w.in.Flush()
	}
	for wi := 0; wi < n; wi++ {
		line, err := p.ws[wi].out.ReadBytes('\n')
		if err != nil {
			r.Truncated = true
			fmt.Fprintln(os.Stderr, "[gosym] worker failed:", err)
			continue
		}
		var part interp.Result
		if json.Unmarshal(line, &part) != nil || part.Ends == nil {
			r.Truncated = true
			continue
		}
		r.Merge(&part)
	}
}

func serveLoop(sess *interp.Session, spkgs []*ssa.Package) {
	in := bufio.NewReaderSize(os.Stdin, 1<<20)
	out := bufio.NewWriter(os.Stdout)
	for {
		line, err := in.ReadBytes('\n')
		if err != nil {
			return
		}
		var req request
		if json.Unmarshal(line, &req) != nil {
			return
		}
		var f *ssa.Function
		for _, sp := range spkgs {
			if sp != nil && sp.Func(req.Harness) != nil {
				f = sp.Func(req.Harness)
			}
		}
		var res *interp.Result
		if f == nil {
			res = &interp.Result{Harness: req.Harness, Truncated: true, Ends: map[string]int{}, EndDetail: map[string]int{}, Reached: map[string]int{}}
		} else {
			res, _ = sess.ExploreFrom(f, req.Prefixes, 0)
		}
		b, _ := json.Marshal(res)
		out.Write(b)
		out.WriteByte('\n')
		out.Flush()
	}
}

func check(err error) {
	if err != nil {
		fmt.Fprintln(os.Stderr, err)
		os.Exit(2)
	}
}
