// instrument.js — source-to-source instrumentation of the JavaScript that the real
// GopherJS compiler emits (prelude + packages), so that it can be executed
// symbolically inside Node by rt.js.  Every operator, condition, computed
// member access, switch and update goes through the `$$` runtime; everything
// else (calls, closures, objects, exceptions, prototypes) stays native.
//
// Needs: node --expose-internals (for the bundled acorn parser).
'use strict';
const acorn = require('internal/deps/acorn/acorn/dist/acorn');

class InstrumentError extends Error {}

const STRING_METHODS = new Set(['charCodeAt', 'charAt', 'substring', 'substr', 'indexOf', 'lastIndexOf', 'codePointAt', 'join']);
const SIMPLE_TEST = n => n.type === 'Literal' || n.type === 'Identifier' ||
  (n.type === 'UnaryExpression' && n.operator === '-' && n.argument.type === 'Literal') ||
  n.type === 'ArrowFunctionExpression' || n.type === 'FunctionExpression' ||
  (n.type === 'MemberExpression' && !n.computed && SIMPLE_TEST(n.object));

function instrument(src, opts) {
  opts = opts || {};
  const ast = acorn.parse(src, { ecmaVersion: 2022, allowReturnOutsideFunction: true });
  const stats = { nodes: 0, nondet: [], intrinsics: [] };
  const raw = opts.raw ? n => opts.raw(n) : () => false;

  const q = s => JSON.stringify(s);
  const list = (arr, sep) => arr.map(e).join(sep || ', ');

  // --- patterns (binding targets) -------------------------------------------------
  function pat(n) {
    switch (n.type) {
      case 'Identifier': return n.name;
      case 'RestElement': return '...' + pat(n.argument);
      case 'AssignmentPattern': return pat(n.left) + ' = ' + e(n.right);
      case 'ObjectPattern':
        return '{' + n.properties.map(p => {
          if (p.type === 'RestElement') return '...' + pat(p.argument);
          const key = p.computed ? '[' + e(p.key) + ']' : (p.key.type === 'Identifier' ? p.key.name : q(p.key.value));
          if (p.shorthand) return pat(p.value);
          return key + ': ' + pat(p.value);
        }).join(', ') + '}';
      case 'ArrayPattern':
        return '[' + n.elements.map(x => x ? pat(x) : '').join(', ') + ']';
      case 'MemberExpression': return lhsMember(n);
      default: throw new InstrumentError('pattern ' + n.type);
    }
  }
  function lhsMember(n) {
    return n.computed ? '(' + e(n.object) + ')[$$.k(' + e(n.property) + ')]' : '(' + e(n.object) + ').' + n.property.name;
  }
  function params(ps) { return '(' + ps.map(pat).join(', ') + ')'; }

  // --- functions ---------------------------------------------------------------
  const INTR = /^(Nondet[A-Za-z0-9]*|VerifOut[A-Za-z0-9]*|VerifYield|VerifAssume|VerifReach|VerifChoice)$/;
  const exportScopes = [];
  function exportsOf(body) { // `$pkg.NondetInt8 = A;` statements directly in this function body (how exported functions appear, also when minified)
    const m = {};
    if (!body || body.type !== 'BlockStatement') return m;
    for (const st of body.body) {
      const x = st.type === 'ExpressionStatement' ? st.expression : null;
      if (x && x.type === 'AssignmentExpression' && x.operator === '=' && x.left.type === 'MemberExpression' && !x.left.computed &&
          x.left.object.type === 'Identifier' && x.left.object.name === '$pkg' && INTR.test(x.left.property.name) && x.right.type === 'Identifier')
        m[x.right.name] = x.left.property.name;
    }
    return m;
  }
  function fnBody(n, name) {
    // Intercept the harness intrinsics by the *name the compiler gave the function*.
    const m = name && /^(Nondet[A-Za-z0-9]*|VerifOut[A-Za-z0-9]*|VerifYield|VerifAssume|VerifReach|VerifChoice)(\$\d+)?$/.exec(name);
    if (m) {
      stats.intrinsics.push(m[1]);
      const args = n.params.map(p => p.type === 'Identifier' ? p.name : null).filter(Boolean).join(', ');
      return '{ return $$.intrinsic(' + q(m[1]) + ', [' + args + '], ' +
        '{I64: typeof $Int64 !== "undefined" ? $Int64 : null, U64: typeof $Uint64 !== "undefined" ? $Uint64 : null, ' +
        'C64: typeof $Complex64 !== "undefined" ? $Complex64 : null, C128: typeof $Complex128 !== "undefined" ? $Complex128 : null, ' +
        'env: typeof $curGoroutine !== "undefined" ? {cur: () => $curGoroutine, block: $block, schedule: $schedule, setTimeout: $setTimeout} : null}); }';
    }
    if (n.body.type === 'BlockStatement') {
      exportScopes.push(exportsOf(n.body));
      try { return block(n.body); } finally { exportScopes.pop(); }
    }
    return '{ return ' + e(n.body) + '; }';
  }
  function func(n) {
    const name = n.id ? n.id.name : null;
    const pre = (n.async ? 'async ' : '') + 'function' + (n.generator ? '*' : '') + (name ? ' ' + name : '');
    return pre + params(n.params) + ' ' + fnBody(n, name);
  }
  function arrow(n) {
    return (n.async ? 'async ' : '') + params(n.params) + ' => ' + fnBody(n, null);
  }

  // --- statements ---------------------------------------------------------------
  function block(n) { return '{\n' + n.body.map(s).join('\n') + '\n}'; }
  function varDecl(n) {
    return n.kind + ' ' + n.declarations.map(d => pat(d.id) + (d.init ? ' = ' + e(d.init) : '')).join(', ');
  }
  function s(n) {
    stats.nodes++;
    switch (n.type) {
      case 'ExpressionStatement':
        if (n.expression.type === 'UpdateExpression') return updateStmt(n.expression) + ';';
        return e(n.expression) + ';';
      case 'VariableDeclaration': return varDecl(n) + ';';
      case 'FunctionDeclaration': return func(n);
      case 'BlockStatement': return block(n);
      case 'ReturnStatement': return 'return' + (n.argument ? ' ' + e(n.argument) : '') + ';';
      case 'IfStatement':
        if (!opts.noMerge && convertibleIf(n)) return mergedIf(n, null);
        return 'if ($$.c(' + test(n.test) + ')) ' + s(n.consequent) + (n.alternate ? ' else ' + s(n.alternate) : '');
      case 'ForStatement': {
        const init = n.init ? (n.init.type === 'VariableDeclaration' ? varDecl(n.init) : e(n.init)) : '';
        const upd = n.update ? (n.update.type === 'UpdateExpression' ? updateStmt(n.update) : e(n.update)) : '';
        return 'for (' + init + '; ' + (n.test ? '$$.c(' + test(n.test) + ')' : '') + '; ' + upd + ') ' + s(n.body);
      }
      case 'ForInStatement':
      case 'ForOfStatement': {
        const l = n.left.type === 'VariableDeclaration' ? varDecl(n.left) : pat(n.left);
        return 'for (' + l + (n.type === 'ForInStatement' ? ' in ' : ' of ') + e(n.right) + ') ' + s(n.body);
      }
      case 'WhileStatement': return 'while ($$.c(' + test(n.test) + ')) ' + s(n.body);
      case 'DoWhileStatement': return 'do ' + s(n.body) + ' while ($$.c(' + test(n.test) + '));';
      case 'SwitchStatement': return switchStmt(n);
      case 'BreakStatement': return 'break' + (n.label ? ' ' + n.label.name : '') + ';';
      case 'ContinueStatement': return 'continue' + (n.label ? ' ' + n.label.name : '') + ';';
      case 'LabeledStatement': return n.label.name + ': ' + s(n.body);
      case 'ThrowStatement': return 'throw ' + e(n.argument) + ';';
      case 'TryStatement': {
        let out = 'try ' + block(n.block);
        if (n.handler) {
          const p = n.handler.param ? pat(n.handler.param) : '$$e';
          out += ' catch (' + p + ') { $$.ch(' + (n.handler.param && n.handler.param.type === 'Identifier' ? p : 'undefined') + ');\n' +
            n.handler.body.body.map(s).join('\n') + '\n}';
        }
        if (n.finalizer) out += ' finally { if (!$$.aborting) ' + block(n.finalizer) + ' }';
        return out;
      }
      case 'EmptyStatement': return ';';
      case 'DebuggerStatement': return '$$.unsupportedStmt("debugger");';
      case 'ClassDeclaration': throw new InstrumentError('class');
      default: throw new InstrumentError('statement ' + n.type);
    }
  }
  // ---- if-conversion of pure diamonds (assignments of pure expressions to plain variables)
  function pureVal(n) {
    switch (n.type) {
      case 'Identifier': return n.name !== 'arguments';
      case 'Literal': return !n.regex;
      case 'UnaryExpression': return ['-', '+', '~', '!'].includes(n.operator) && pureVal(n.argument);
      case 'BinaryExpression': return n.operator !== 'in' && n.operator !== 'instanceof' && pureVal(n.left) && pureVal(n.right);
      default: return false;
    }
  }
  function pureTest(n) {
    if (n.type === 'LogicalExpression' && (n.operator === '&&' || n.operator === '||')) return pureTest(n.left) && pureTest(n.right);
    if (n.type === 'UnaryExpression' && n.operator === '!') return pureTest(n.argument);
    return pureVal(n);
  }
  // a pure compound test is evaluated without short-circuit forks: one decision instead of one per operand
  function test(n) { return (!opts.noMerge && n.type === 'LogicalExpression' && pureTest(n)) ? T(n) : e(n); }
  function stmtsOf(n) { return n.type === 'BlockStatement' ? n.body : [n]; }
  function convertibleStmt(st) {
    if (st.type === 'EmptyStatement') return true;
    if (st.type === 'IfStatement') return convertibleIf(st);
    if (st.type !== 'ExpressionStatement') return false;
    const x = st.expression;
    if (x.type === 'AssignmentExpression') return x.left.type === 'Identifier' && !['&&=', '||=', '??='].includes(x.operator) && pureVal(x.right);
    if (x.type === 'UpdateExpression') return x.argument.type === 'Identifier';
    return false;
  }
  function convertibleIf(n) {
    if (!pureTest(n.test)) return false;
    const a = stmtsOf(n.consequent), b = n.alternate ? stmtsOf(n.alternate) : [];
    if (a.length + b.length === 0) return false;
    return a.every(convertibleStmt) && b.every(convertibleStmt);
  }
  function T(n) { // boolean view of a pure test, no short-circuit forks
    if (n.type === 'LogicalExpression') return '$$.' + (n.operator === '&&' ? 'andB' : 'orB') + '(' + T(n.left) + ', ' + T(n.right) + ')';
    if (n.type === 'UnaryExpression' && n.operator === '!') return '$$.notB(' + T(n.argument) + ')';
    return '$$.tb(' + e(n) + ')';
  }
  let gcount = 0;
  function mergedStmt(st, g) {
    if (st.type === 'EmptyStatement') return ';';
    if (st.type === 'IfStatement') return mergedIf(st, g);
    const x = st.expression;
    if (x.type === 'UpdateExpression') { const v = x.argument.name; return v + ' = $$.ite3(' + g + ', $$.inc(' + v + ', ' + (x.operator === '++' ? 1 : -1) + '), ' + v + ');'; }
    const v = x.left.name;
    if (x.operator === '=') return v + ' = $$.ite3(' + g + ', ' + e(x.right) + ', ' + v + ');';
    return v + ' = $$.ite3(' + g + ', $$.b(' + q(x.operator.slice(0, -1)) + ', ' + v + ', ' + e(x.right) + '), ' + v + ');';
  }
  function mergedIf(n, outer) {
    const id = ++gcount;
    const t = '$$t' + id, g = '$$g' + id, h = '$$h' + id;
    const a = stmtsOf(n.consequent), b = n.alternate ? stmtsOf(n.alternate) : [];
    let out = '{ const ' + t + ' = ' + T(n.test) + '; const ' + g + ' = ' + (outer ? '$$.andB(' + outer + ', ' + t + ')' : t) + ';\n';
    if (outer === null) {
      // top level: concrete conditions run the ordinary code
      out += 'if (' + g + ' === true) ' + s(n.consequent) + ' else if (' + g + ' === false) ' + (n.alternate ? s(n.alternate) : '{}') + ' else {\n';
    } else out += '{\n';
    out += 'if (' + g + ' !== false) {\n' + a.map(x => mergedStmt(x, g)).join('\n') + '\n}\n';
    if (b.length) {
      out += 'const ' + h + ' = ' + (outer ? '$$.andB(' + outer + ', $$.notB(' + t + '))' : '$$.notB(' + t + ')') + ';\n';
      out += 'if (' + h + ' !== false) {\n' + b.map(x => mergedStmt(x, h)).join('\n') + '\n}\n';
    }
    out += '} }';
    return out;
  }
  function switchStmt(n) {
    const tests = n.cases.filter(c => c.test).map(c => c.test);
    if (!tests.every(SIMPLE_TEST)) throw new InstrumentError('switch with non-simple case test');
    let idx = 0;
    const head = 'switch ($$.sw(' + e(n.discriminant) + ', [' + tests.map(e).join(', ') + '])) {\n';
    const body = n.cases.map(c => {
      const lab = c.test ? 'case ' + (idx++) + ':' : 'default:';
      return lab + '\n' + c.consequent.map(s).join('\n');
    }).join('\n');
    return head + body + '\n}';
  }
  function updateStmt(n) { // value unused
    const d = n.operator === '++' ? 1 : -1;
    const a = n.argument;
    if (a.type === 'Identifier') return a.name + ' = $$.inc(' + a.name + ', ' + d + ')';
    if (a.type === 'MemberExpression')
      return '$$.up(' + e(a.object) + ', ' + (a.computed ? e(a.property) : q(a.property.name)) + ', ' + d + ', true)';
    throw new InstrumentError('update target ' + a.type);
  }

  // --- expressions -------------------------------------------------------------
  function prop(p) {
    if (p.type === 'SpreadElement') return '...' + e(p.argument);
    const key = p.computed ? '[$$.k(' + e(p.key) + ')]' : (p.key.type === 'Identifier' ? p.key.name : q(p.key.value));
    if (p.kind === 'get' || p.kind === 'set') return p.kind + ' ' + key + params(p.value.params) + ' ' + fnBody(p.value, null);
    if (p.method) return (p.value.async ? 'async ' : '') + (p.value.generator ? '*' : '') + key + params(p.value.params) + ' ' + fnBody(p.value, null);
    if (p.shorthand) return p.key.name;
    return key + ': ' + e(p.value);
  }
  function e(n) {
    stats.nodes++;
    switch (n.type) {
      case 'Identifier': return n.name;
      case 'Literal':
        if (n.regex) return n.raw;
        if (typeof n.value === 'bigint') return n.raw;
        if (typeof n.value === 'string') return q(n.value);
        return n.raw;
      case 'ThisExpression': return 'this';
      case 'TemplateLiteral': {
        if (n.expressions.length === 0) return q(n.quasis[0].value.cooked);
        let out = q(n.quasis[0].value.cooked);
        for (let i = 0; i < n.expressions.length; i++)
          out = '$$.b("+", $$.b("+", ' + out + ', ' + e(n.expressions[i]) + '), ' + q(n.quasis[i + 1].value.cooked) + ')';
        return out;
      }
      case 'ArrayExpression': return '[' + n.elements.map(x => x ? (x.type === 'SpreadElement' ? '...' + e(x.argument) : e(x)) : '').join(', ') + ']';
      case 'ObjectExpression': return '({' + n.properties.map(prop).join(', ') + '})';
      case 'FunctionExpression': return '(' + func(n) + ')';
      case 'ArrowFunctionExpression': return '(' + arrow(n) + ')';
      case 'SequenceExpression': return '(' + list(n.expressions) + ')';
      case 'SpreadElement': return '...' + e(n.argument);
      case 'ParenthesizedExpression': return e(n.expression);
      case 'UnaryExpression':
        switch (n.operator) {
          case 'typeof':
            if (n.argument.type === 'Identifier')
              return '(typeof ' + n.argument.name + ' === "undefined" ? "undefined" : $$.ty(' + n.argument.name + '))';
            return '$$.ty(' + e(n.argument) + ')';
          case 'void': return '(void ' + e(n.argument) + ')';
          case 'delete':
            if (n.argument.type === 'MemberExpression') return '(delete ' + lhsMember(n.argument) + ')';
            return '(delete ' + e(n.argument) + ')';
          case '!': return '$$.not(' + e(n.argument) + ')';
          default: // - + ~
            if (n.operator === '-' && n.argument.type === 'Literal' && typeof n.argument.value === 'number') return '(-' + n.argument.raw + ')';
            return '$$.u(' + q(n.operator) + ', ' + e(n.argument) + ')';
        }
      case 'UpdateExpression': {
        const d = n.operator === '++' ? 1 : -1;
        const a = n.argument;
        if (a.type === 'Identifier') {
          if (n.prefix) return '(' + a.name + ' = $$.inc(' + a.name + ', ' + d + '))';
          return '($$.v = $$.n(' + a.name + '), ' + a.name + ' = $$.inc($$.v, ' + d + '), $$.v)';
        }
        if (a.type === 'MemberExpression')
          return '$$.up(' + e(a.object) + ', ' + (a.computed ? e(a.property) : q(a.property.name)) + ', ' + d + ', ' + n.prefix + ')';
        throw new InstrumentError('update target ' + a.type);
      }
      case 'BinaryExpression':
        if (n.operator === 'instanceof') return '(' + e(n.left) + ' instanceof ' + e(n.right) + ')';
        if (n.operator === 'in') return '($$.k(' + e(n.left) + ') in ' + e(n.right) + ')';
        return '$$.b(' + q(n.operator) + ', ' + e(n.left) + ', ' + e(n.right) + ')';
      case 'LogicalExpression':
        if (n.operator === '&&') return '($$.c($$.v = ' + e(n.left) + ') ? ' + e(n.right) + ' : $$.v)';
        if (n.operator === '||') return '($$.c($$.v = ' + e(n.left) + ') ? $$.v : ' + e(n.right) + ')';
        if (n.operator === '??') return '((($$.v = ' + e(n.left) + ') !== undefined && $$.v !== null) ? $$.v : ' + e(n.right) + ')';
        throw new InstrumentError('logical ' + n.operator);
      case 'ConditionalExpression':
        return '($$.c(' + e(n.test) + ') ? ' + e(n.consequent) + ' : ' + e(n.alternate) + ')';
      case 'AssignmentExpression': {
        const l = n.left, op = n.operator;
        if (op === '=') {
          if (l.type === 'MemberExpression' && l.computed)
            return '$$.p(' + e(l.object) + ', ' + e(l.property) + ', ' + e(n.right) + ')';
          if (l.type === 'MemberExpression') return '(' + lhsMember(l) + ' = ' + e(n.right) + ')';
          if (l.type === 'Identifier' && n.right.type === 'FunctionExpression' && exportScopes.length) {
            const intr = exportScopes[exportScopes.length - 1][l.name];
            if (intr) return '(' + l.name + ' = (function' + params(n.right.params) + ' ' + fnBody(n.right, intr) + '))';
          }
          return '(' + pat(l) + ' = ' + e(n.right) + ')';
        }
        const bop = op.slice(0, -1);
        if (bop === '&&' || bop === '||' || bop === '??') throw new InstrumentError('logical assignment');
        if (l.type === 'Identifier') return '(' + l.name + ' = $$.b(' + q(bop) + ', ' + l.name + ', ' + e(n.right) + '))';
        if (l.type === 'MemberExpression')
          return '$$.a2($$.a1(' + e(l.object) + ', ' + (l.computed ? e(l.property) : q(l.property.name)) + '), ' + q(bop) + ', ' + e(n.right) + ')';
        throw new InstrumentError('assignment target ' + l.type);
      }
      case 'MemberExpression':
        if (n.object.type === 'Super') throw new InstrumentError('super');
        if (n.computed) return '$$.g(' + e(n.object) + ', ' + e(n.property) + ')';
        return e(n.object) + (n.optional ? '?.' : '.') + n.property.name;
      case 'ChainExpression': return e(n.expression);
      case 'CallExpression': {
        const args = '(' + n.arguments.map(e).join(', ') + ')';
        const c = n.callee;
        if (c.type === 'MemberExpression' && c.computed)
          return '$$.mc(' + e(c.object) + ', ' + e(c.property) + ', [' + n.arguments.map(e).join(', ') + '])';
        if (c.type === 'MemberExpression' && STRING_METHODS.has(c.property.name) && c.object.type !== 'Super')
          return '$$.sm(' + e(c.object) + ', ' + q(c.property.name) + ', [' + n.arguments.map(e).join(', ') + '])';
        if (c.type === 'MemberExpression') return e(c.object) + '.' + c.property.name + args;
        if (c.type === 'Identifier') return c.name + args;
        return '(' + e(c) + ')' + args;
      }
      case 'NewExpression': {
        const c = n.callee;
        const ce = (c.type === 'Identifier') ? c.name : '(' + e(c) + ')';
        return '(new ' + ce + '(' + n.arguments.map(e).join(', ') + '))';
      }
      case 'AssignmentPattern': return pat(n);
      default: throw new InstrumentError('expression ' + n.type);
    }
  }

  const out = ast.body.map(s).join('\n');
  return { code: out, stats };
}

module.exports = { instrument, InstrumentError };

if (require.main === module) {
  const fs = require('fs');
  const r = instrument(fs.readFileSync(process.argv[2], 'utf8'));
  fs.writeFileSync(process.argv[3], r.code);
  console.error(JSON.stringify(r.stats));
}
