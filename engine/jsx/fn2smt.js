// fn2smt.js <prelude file> <function name> <signed|unsigned>
// Translates ONE small prelude helper of the shape  var $name = x => { ... }  (x a 64-bit integer object {$high, $low}) from the
// repository's current source into SMT-LIB (bit-vectors for the 32-bit words and JavaScript's 32-bit operators, Float64 for * and +),
// so that a property over ALL 2^64 arguments can be put to the solver without the Int<->BitVec bridge of the general engine.
// Supported: var declarations, if without else whose body assigns to declared variables, return; operators & | ~ >>> (by a literal),
// >= > < <= === !== || && * + on words, literals and doubles; calls of $fround.  Anything else: exit 3 ("unsupported").
'use strict';
const fs = require('fs');
const acorn = require('internal/deps/acorn/acorn/dist/acorn');       // node --expose-internals (the bundled parser)
const [, , file, fname, signedness] = process.argv;
const src = fs.readFileSync(file, 'utf8');
const start = src.indexOf('var ' + fname + ' = ');
if (start < 0) { console.log(JSON.stringify({ absent: true })); process.exit(0); }
function unsupported(what) { console.log(JSON.stringify({ unsupported: what })); process.exit(3); }
let ast;
{
  // the declaration ends at the first "\n};" after its start
  const end = src.indexOf('\n};', start);
  if (end < 0) unsupported('cannot delimit the function');
  ast = acorn.parse(src.slice(start, end + 3), { ecmaVersion: 2020 });
}
const decl = ast.body[0].declarations[0];
const fn = decl.init;
if (fn.type !== 'ArrowFunctionExpression' || fn.params.length !== 1 || fn.body.type !== 'BlockStatement') unsupported('function shape');
const param = fn.params[0].name;
const signed = signedness === 'signed';
// values: {k:'w', t: BV32 term, s: signed view?} | {k:'f', t: Float64 term} | {k:'b', t: Bool term} | {k:'n', v: JS number literal}
const F64 = '(_ FloatingPoint 11 53)';
function fpLit(v) {
  const buf = Buffer.alloc(8); buf.writeDoubleBE(v);
  const bits = BigInt('0x' + buf.toString('hex')).toString(2).padStart(64, '0');
  return '(fp #b' + bits[0] + ' #b' + bits.slice(1, 12) + ' #b' + bits.slice(12) + ')';
}
function bv32lit(v) { return '#x' + ((v >>> 0).toString(16).padStart(8, '0')); }
function asWord(v) { // ToInt32 bit pattern
  if (v.k === 'w') return v.t;
  if (v.k === 'n' && Number.isInteger(v.v) && Math.abs(v.v) < 2 ** 32) return bv32lit(v.v);
  unsupported('32-bit operator on a double');
}
function asF(v) {
  if (v.k === 'f') return v.t;
  if (v.k === 'n') return fpLit(v.v);
  if (v.k === 'w') return v.s ? '((_ to_fp 11 53) RNE ' + v.t + ')' : '((_ to_fp_unsigned 11 53) RNE ' + v.t + ')';
  unsupported('number expected');
}
function as34(v) { // exact integer value as a signed 34-bit vector
  if (v.k === 'w') return v.s ? '((_ sign_extend 2) ' + v.t + ')' : '((_ zero_extend 2) ' + v.t + ')';
  if (v.k === 'n' && Number.isInteger(v.v) && Math.abs(v.v) < 2 ** 32) return '(_ bv' + (v.v < 0 ? (2n ** 34n + BigInt(v.v)) : BigInt(v.v)) + ' 34)';
  unsupported('comparison of a double');
}
function asB(v) { if (v.k === 'b') return v.t; unsupported('boolean expected'); }
function ev(e, env) {
  switch (e.type) {
    case 'Literal': if (typeof e.value === 'number') return { k: 'n', v: e.value }; break;
    case 'Identifier': if (e.name in env) return env[e.name]; break;
    case 'MemberExpression':
      if (!e.computed && e.object.type === 'Identifier' && e.object.name === param) {
        if (e.property.name === '$high') return { k: 'w', t: 'high', s: signed };
        if (e.property.name === '$low') return { k: 'w', t: 'low', s: false };
      }
      break;
    case 'UnaryExpression':
      if (e.operator === '~') return { k: 'w', t: '(bvnot ' + asWord(ev(e.argument, env)) + ')', s: true };
      if (e.operator === '-' && e.argument.type === 'Literal') return { k: 'n', v: -e.argument.value };
      if (e.operator === '!') return { k: 'b', t: '(not ' + asB(ev(e.argument, env)) + ')' };
      break;
    case 'LogicalExpression': {
      const a = asB(ev(e.left, env)), b = asB(ev(e.right, env));
      if (e.operator === '||') return { k: 'b', t: '(or ' + a + ' ' + b + ')' };
      if (e.operator === '&&') return { k: 'b', t: '(and ' + a + ' ' + b + ')' };
      break;
    }
    case 'BinaryExpression': {
      const a = ev(e.left, env), b = ev(e.right, env);
      switch (e.operator) {
        case '&': return { k: 'w', t: '(bvand ' + asWord(a) + ' ' + asWord(b) + ')', s: true };
        case '|': return { k: 'w', t: '(bvor ' + asWord(a) + ' ' + asWord(b) + ')', s: true };
        case '^': return { k: 'w', t: '(bvxor ' + asWord(a) + ' ' + asWord(b) + ')', s: true };
        case '>>>': if (b.k === 'n' && Number.isInteger(b.v) && b.v >= 0 && b.v < 32) return { k: 'w', t: b.v === 0 ? asWord(a) : '(bvlshr ' + asWord(a) + ' ' + bv32lit(b.v) + ')', s: false }; break;
        case '>>': if (b.k === 'n' && Number.isInteger(b.v) && b.v >= 0 && b.v < 32) return { k: 'w', t: b.v === 0 ? asWord(a) : '(bvashr ' + asWord(a) + ' ' + bv32lit(b.v) + ')', s: true }; break;
        case '>=': return { k: 'b', t: '(bvsge ' + as34(a) + ' ' + as34(b) + ')' };
        case '>': return { k: 'b', t: '(bvsgt ' + as34(a) + ' ' + as34(b) + ')' };
        case '<': return { k: 'b', t: '(bvslt ' + as34(a) + ' ' + as34(b) + ')' };
        case '<=': return { k: 'b', t: '(bvsle ' + as34(a) + ' ' + as34(b) + ')' };
        case '===': return { k: 'b', t: '(= ' + as34(a) + ' ' + as34(b) + ')' };
        case '!==': return { k: 'b', t: '(not (= ' + as34(a) + ' ' + as34(b) + '))' };
        case '*': return { k: 'f', t: '(fp.mul RNE ' + asF(a) + ' ' + asF(b) + ')' };
        case '+': return { k: 'f', t: '(fp.add RNE ' + asF(a) + ' ' + asF(b) + ')' };
        case '-': return { k: 'f', t: '(fp.sub RNE ' + asF(a) + ' ' + asF(b) + ')' };
      }
      break;
    }
    case 'CallExpression':
      if (e.callee.type === 'Identifier' && e.callee.name === '$fround' && e.arguments.length === 1)
        return { k: 'f', t: '((_ to_fp 11 53) RNE ((_ to_fp 8 24) RNE ' + asF(ev(e.arguments[0], env)) + '))' };
      break;
  }
  unsupported('expression ' + e.type + ' ' + (e.operator || (e.callee && e.callee.name) || ''));
}
function merge(c, a, b) { // value of a variable after `if (c) x = a` with previous value b
  if (a.k === 'n' || b.k === 'n' || a.k !== b.k) {
    if ((a.k === 'w' || a.k === 'n') && (b.k === 'w' || b.k === 'n')) { /* words */ } else return { k: 'f', t: '(ite ' + c + ' ' + asF(a) + ' ' + asF(b) + ')' };
  }
  if (a.k === 'b') return { k: 'b', t: '(ite ' + c + ' ' + a.t + ' ' + b.t + ')' };
  if (a.k === 'f') return { k: 'f', t: '(ite ' + c + ' ' + a.t + ' ' + b.t + ')' };
  const sa = a.k === 'w' ? a.s : a.v < 0, sb = b.k === 'w' ? b.s : b.v < 0;
  if (a.k === 'w' && b.k === 'w' && sa !== sb) unsupported('merge of a signed and an unsigned word');
  return { k: 'w', t: '(ite ' + c + ' ' + asWord(a) + ' ' + asWord(b) + ')', s: a.k === 'w' ? a.s : sb };
}
const env = {};
const branchConds = [];
let result = null;
for (const st of fn.body.body) {
  if (result) unsupported('statement after return');
  if (st.type === 'VariableDeclaration') { for (const d of st.declarations) env[d.id.name] = d.init ? ev(d.init, env) : unsupported('uninitialised variable'); continue; }
  if (st.type === 'IfStatement' && !st.alternate) {
    const c = asB(ev(st.test, env));
    branchConds.push(c);
    const body = st.consequent.type === 'BlockStatement' ? st.consequent.body : [st.consequent];
    const inner = Object.assign({}, env);
    for (const s of body) {
      if (s.type !== 'ExpressionStatement' || s.expression.type !== 'AssignmentExpression' || s.expression.operator !== '=' || s.expression.left.type !== 'Identifier' || !(s.expression.left.name in env)) unsupported('statement in if body');
      inner[s.expression.left.name] = ev(s.expression.right, inner);
    }
    for (const k of Object.keys(env)) if (inner[k] !== env[k]) env[k] = merge(c, inner[k], env[k]);
    continue;
  }
  if (st.type === 'ReturnStatement') { result = ev(st.argument, env); continue; }
  unsupported('statement ' + st.type);
}
if (!result) unsupported('no return');
console.log(JSON.stringify({
  decls: ['(declare-const high (_ BitVec 32))', '(declare-const low (_ BitVec 32))'],
  result: asF(result), branch_conditions: branchConds, statements: fn.body.body.length,
  source: src.slice(start, src.indexOf('\n};', start) + 3),
}));
