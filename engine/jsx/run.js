// run.js — explore all paths of a linked GopherJS program symbolically.
// usage: node --expose-internals run.js <out.js> [config.json] [result.json]
'use strict';
const fs = require('fs');
const { instrument } = require('./instrument.js');
const { explore } = require('./rt.js');
const src = fs.readFileSync(process.argv[2], 'utf8');
const cfg = process.argv[3] && process.argv[3] !== '-' ? JSON.parse(fs.readFileSync(process.argv[3], 'utf8')) : {};
const t0 = Date.now();
const ins = instrument(src);
if (cfg.dumpInstrumented) fs.writeFileSync(cfg.dumpInstrumented, ins.code);
const res = explore(ins.code, cfg);
res.instrumentMs = Date.now() - t0 - res.wallMs;
res.intrinsics = ins.stats.intrinsics;
const out = JSON.stringify(res);
if (process.argv[4]) fs.writeFileSync(process.argv[4], out); else process.stdout.write(out + '\n');
