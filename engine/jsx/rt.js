// rt.js — symbolic runtime for instrumented GopherJS output (see instrument.js).
// Values are ordinary JS values, or instances of SV (symbolic value) that carry
// SMT-LIB terms.  Branching on a symbolic condition consults a persistent z3
// process; paths are enumerated by deterministic re-execution from a decision
// prefix (DART style).  Integers are encoded as mathematical Int (with explicit
// mod/div for the 32-bit coercions), floats as Float64, strings as arrays of
// char codes with concrete length.
'use strict';
const fs = require('fs');
const cp = require('child_process');
const os = require('os');
const path = require('path');

const P32 = 4294967296n, P31 = 2147483648n, P53 = 9007199254740992n;
const big = BigInt;

class Abort extends Error {
  constructor(kind, msg) { super(kind + ': ' + msg); this.kind = kind; this.detail = msg; this.$$abort = true; }
}
const unsupported = msg => { throw new Abort('unsupported', msg); };

// ---------------------------------------------------------------- solver bridge
class Solver {
  constructor(bin, timeoutMs, rlimit, maxLifeS) {
    this.dir = fs.mkdtempSync(path.join(os.tmpdir(), 'jsx-'));
    const fin = path.join(this.dir, 'in'), fout = path.join(this.dir, 'out');
    cp.execFileSync('mkfifo', [fin, fout]);
    this.proc = cp.spawn('sh', ['-c', 'exec timeout -k 2 ' + (maxLifeS || 3600) + ' ' + bin + ' -in < ' + fin + ' > ' + fout + ' 2>&1'], { stdio: 'ignore' });
    this.w = fs.openSync(fin, 'w');
    this.r = fs.openSync(fout, 'r');
    this.buf = '';
    this.queries = 0; this.solverMs = 0; this.errors = [];
    this.log = null;
    this.send('(set-option :timeout ' + (timeoutMs || 10000) + ')');
    if (rlimit) this.send('(set-option :rlimit ' + rlimit + ')');     // off by default: z3 charges it to the whole incremental session
    this.send(PRELUDE_SMT);
  }
  send(text) { if (this.log) this.log.push(text); fs.writeSync(this.w, text + '\n'); }
  ask(text) {
    const t0 = Date.now();
    this.send(text + '\n(echo "@@")');
    const chunk = Buffer.alloc(65536);
    let idx;
    while ((idx = this.buf.indexOf('@@\n')) < 0) {
      const n = fs.readSync(this.r, chunk, 0, chunk.length, null);
      if (n === 0) throw new Error('solver closed its output');
      this.buf += chunk.toString('utf8', 0, n);
    }
    const out = this.buf.slice(0, idx).trim();
    this.buf = this.buf.slice(idx + 3);
    this.queries++; this.solverMs += Date.now() - t0;
    if (out.indexOf('(error') >= 0) this.errors.push(out + ' <= ' + text.slice(0, 300));
    return out;
  }
  check(assumps) {
    const r = this.ask(assumps && assumps.length ? '(check-sat-assuming (' + assumps.join(' ') + '))' : '(check-sat)');
    if (r === 'sat' || r === 'unsat') return r;
    return 'unknown';
  }
  close() {
    try { this.send('(exit)'); } catch (e) {}
    try { fs.closeSync(this.w); fs.closeSync(this.r); } catch (e) {}
    try { this.proc.kill(); } catch (e) {}
    try { fs.rmSync(this.dir, { recursive: true, force: true }); } catch (e) {}
  }
}

const PRELUDE_SMT = [
  '(define-fun w32 ((v Int)) Int (- (mod (+ v 2147483648) 4294967296) 2147483648))',
  '(define-fun u32 ((v Int)) Int (mod v 4294967296))',
  '(define-fun s32of ((u Int)) Int (ite (>= u 2147483648) (- u 4294967296) u))',
  '(define-fun tdiv ((a Int) (b Int)) Int (ite (>= a 0) (div a b) (- (div (- a) b))))',
  '(define-fun trem ((a Int) (b Int)) Int (- a (* b (tdiv a b))))',
  '(define-fun absi ((a Int)) Int (ite (>= a 0) a (- a)))',
].join('\n');

// ---------------------------------------------------------------- symbolic values
class SV {
  [Symbol.toPrimitive]() { throw new Abort('unsupported', 'implicit coercion of a symbolic value by a native operation'); }
}
class SNum extends SV {         // k = 'i': exact integer (Int term); k = 'f': Float64 term
  constructor(k, t, lo, hi, tz) { super(); this.k = k; this.t = t; this.lo = lo; this.hi = hi; this.tz = tz || 0; this.nan = null; }
  toString() { return unsupported('Number.prototype.toString on a symbolic number'); }
}
class SBool extends SV {
  constructor(t) { super(); this.t = t; }
}
class SStr extends SV {         // chars: array of (number | SNum 'i'), concrete length
  constructor(chars) { super(); this.chars = chars; }
  [Symbol.toPrimitive]() {
    // only a message that embeds a formatted symbolic number may be rendered natively (the digits become '#'); flagged on the path
    if (this.chars.every(c => typeof c === 'number' || c instanceof NumSeg) && this.chars.some(c => c instanceof NumSeg)) {
      if (RT.st) RT.st.flags.numseg_rendered = true;
      return this.chars.map(c => typeof c === 'number' ? String.fromCharCode(c) : '#').join('');
    }
    throw new Abort('unsupported', 'implicit coercion of a symbolic string by a native operation');
  }
  get length() { if (this.chars.some(c => c instanceof NumSeg)) return unsupported('length of a string containing a formatted symbolic number'); return this.chars.length; }
  charCodeAt(i) { return RT.strCharCodeAt(this, i); }
  codePointAt(i) {
    i = i === undefined ? 0 : RT.concrete(i);
    if (i < 0 || i >= this.chars.length) return undefined;
    const hi = this.chars[i], lo = i + 1 < this.chars.length ? this.chars[i + 1] : null;
    if (lo === null) return hi;
    if (!isSym(hi) && !isSym(lo)) return String.fromCharCode(hi, lo).codePointAt(0);
    const a = RT.asI(hi), b = RT.asI(lo);
    if (!a || !b) return unsupported('codePointAt');
    return RT.mkI({ t: '(ite (and (<= 55296 ' + a.t + ') (<= ' + a.t + ' 56319) (<= 56320 ' + b.t + ') (<= ' + b.t + ' 57343)) (+ (* (- ' + a.t + ' 55296) 1024) (- ' + b.t + ' 56320) 65536) ' + a.t + ')', lo: 0n, hi: 1114111n, tz: 0 });
  }
  substring(a, b) { return RT.strSubstring(this, a, b); }
  slice(a, b) { return RT.strSubstring(this, a, b === undefined ? this.chars.length : b); }
  charAt(i) { const c = RT.strCharCodeAt(this, i); return new SStr([c]); }
  indexOf() { return unsupported('indexOf on symbolic string'); }
  replace(re, rep) { return RT.strReplace(this, re, rep); }
  toString() { return this; }
}
class NumSeg { constructor(v) { this.v = v; } }
class Quot extends SV {         // result of `/` on two exact integers, consumed by truncation / self-comparison
  constructor(n, d) { super(); this.n = n; this.d = d; }
}

Object.defineProperty(SNum.prototype, 'constructor', { value: Number });
Object.defineProperty(Quot.prototype, 'constructor', { value: Number });
Object.defineProperty(SBool.prototype, 'constructor', { value: Boolean });
Object.defineProperty(SStr.prototype, 'constructor', { value: String });
const lit = n => { n = big(n); return n < 0n ? '(- ' + (-n) + ')' : '' + n; };
const isInt = x => typeof x === 'number' && Number.isInteger(x);
const isSym = x => x instanceof SV;

// typed-array shim: explicit backing store so that symbolic elements can be held and views share memory
const TA_KINDS = {
  Int8Array: ['i', 8, true], Uint8Array: ['i', 8, false], Int16Array: ['i', 16, true], Uint16Array: ['i', 16, false],
  Int32Array: ['i', 32, true], Uint32Array: ['i', 32, false], Float32Array: ['f', 32], Float64Array: ['f', 64],
  Uint8ClampedArray: ['c', 8, false],
};
class TABuf { constructor(n) { this.data = new Array(n).fill(0); this.byteLength = n; } }
function makeTA(name) {
  const [cls, bits, signed] = TA_KINDS[name];
  const real = globalThis[name];
  const tmp = new real(1);
  const C = class {
    constructor(a, off, len) {
      if (a instanceof TABuf) { if (a.elemKind === undefined) a.elemKind = name; else if (a.elemKind !== name) a.aliased = true; this.buffer = a; this.$off = (off || 0) / (bits / 8); this.length = len === undefined ? (a.data.length - this.$off) : len; }
      else if (typeof a === 'number' || a === undefined) { this.buffer = new TABuf(a || 0); this.$off = 0; this.length = a || 0; }
      else if (isSym(a)) { const n = RT.concrete(a); this.buffer = new TABuf(n); this.$off = 0; this.length = n; }
      else { // array-like / iterable
        const src = (a instanceof TAbase) ? a.$toArray() : Array.from(a);
        this.buffer = new TABuf(src.length); this.$off = 0; this.length = src.length;
        for (let i = 0; i < src.length; i++) this.buffer.data[i] = C.$coerce(src[i]);
      }
    }
    static $coerce(v) {
      if (isSym(v)) return RT.coerceElem(v, cls, bits, signed);
      tmp[0] = v; return tmp[0];
    }
    get byteOffset() { return this.$off * (bits / 8); }
    get BYTES_PER_ELEMENT() { return bits / 8; }
    get byteLength() { return this.length * (bits / 8); }
    $get(i) { if (this.buffer.aliased) return unsupported('typed arrays of different element types over one ArrayBuffer (bit aliasing is not modelled)'); return (i >= 0 && i < this.length && Number.isInteger(i)) ? this.buffer.data[this.$off + i] : undefined; }
    $set(i, v) { if (this.buffer.aliased) return unsupported('typed arrays of different element types over one ArrayBuffer (bit aliasing is not modelled)'); if (i >= 0 && i < this.length && Number.isInteger(i)) this.buffer.data[this.$off + i] = C.$coerce(v); return v; }
    $toArray() { return this.buffer.data.slice(this.$off, this.$off + this.length); }
    subarray(a, b) {
      a = RT.concrete(a); b = RT.concrete(b);
      const n = this.length;
      a = a === undefined ? 0 : (a < 0 ? Math.max(n + a, 0) : Math.min(a, n));
      b = b === undefined ? n : (b < 0 ? Math.max(n + b, 0) : Math.min(b, n));
      const r = Object.create(C.prototype);
      r.buffer = this.buffer; r.$off = this.$off + a; r.length = Math.max(b - a, 0);
      return r;
    }
    slice(a, b) { const v = this.subarray(a, b); return new C(v); }
    set(src, off) {
      off = off === undefined ? 0 : RT.concrete(off);
      const arr = (src instanceof TAbase) ? src.$toArray() : Array.from(src);
      if (off + arr.length > this.length) throw new RangeError('offset is out of bounds');
      for (let i = 0; i < arr.length; i++) this.buffer.data[this.$off + off + i] = C.$coerce(arr[i]);
    }
    fill(v) { for (let i = 0; i < this.length; i++) this.$set(i, v); return this; }
    indexOf(v) { for (let i = 0; i < this.length; i++) if (this.$get(i) === v) return i; return -1; }
    [Symbol.iterator]() { return this.$toArray()[Symbol.iterator](); }
    static get BYTES_PER_ELEMENT() { return bits / 8; }
  };
  Object.setPrototypeOf(C.prototype, TAbase.prototype);
  Object.defineProperty(C, 'name', { value: name });
  return C;
}
class TAbase {}

// Map shim: insertion ordered, live iteration like the native Map, keys may be symbolic strings / numbers
class SMap {
  constructor(init) { this.ents = []; this.live = 0; if (init) for (const [k, v] of init) this.set(k, v); }
  get size() { return this.live; }
  $find(k) {
    for (let i = 0; i < this.ents.length; i++) {
      const en = this.ents[i];
      if (en === null) continue;
      if (RT.c(RT.sameValueZero(en[0], k))) return i;
    }
    return -1;
  }
  get(k) { const i = this.$find(k); return i < 0 ? undefined : this.ents[i][1]; }
  has(k) { return this.$find(k) >= 0; }
  set(k, v) { const i = this.$find(k); if (i < 0) { this.ents.push([k, v]); this.live++; } else this.ents[i][1] = v; return this; }
  delete(k) { const i = this.$find(k); if (i < 0) return false; this.ents[i] = null; this.live--; return true; }
  clear() { for (let i = 0; i < this.ents.length; i++) this.ents[i] = null; this.live = 0; }
  forEach(f, self) { for (let i = 0; i < this.ents.length; i++) { const en = this.ents[i]; if (en) f.call(self, en[1], en[0], this); } }
  *entries() { for (let i = 0; i < this.ents.length; i++) { const en = this.ents[i]; if (en) yield [en[0], en[1]]; } }
  *keys() { for (let i = 0; i < this.ents.length; i++) { const en = this.ents[i]; if (en) yield en[0]; } }
  *values() { for (let i = 0; i < this.ents.length; i++) { const en = this.ents[i]; if (en) yield en[1]; } }
  [Symbol.iterator]() { return this.entries(); }
}

// ---------------------------------------------------------------- the runtime object
const RT = {
  Abort, SV, SNum, SBool, SStr, Quot, SMap, TAbase,
  v: undefined, aborting: false,
  solver: null, cfg: null, st: null, tcount: 0,

  // ---- term construction
  def(sort, expr) {
    if (expr.length < 48) return expr;
    const name = 't' + (++this.tcount);
    const d = '(define-fun ' + name + ' () ' + sort + ' ' + expr + ')';
    this.st.defs.push(d); this.solver.send(d);
    return name;
  },
  I(t, lo, hi, tz) { return new SNum('i', this.def('Int', t), lo, hi, tz); },
  B(t) { return new SBool(this.def('Bool', t)); },
  F(t) { return new SNum('f', this.def('(_ FloatingPoint 11 53)', t), null, null); },
  fresh(sort, hint) {
    const name = (hint || 'k') + (++this.tcount);
    const d = '(declare-const ' + name + ' ' + sort + ')';
    this.st.defs.push(d); this.solver.send(d);
    return name;
  },
  assertTerm(t) { this.st.defs.push('(assert ' + t + ')'); this.solver.send('(assert ' + t + ')'); },

  // view a value as an exact integer {t, lo, hi, tz} or null
  asI(x) {
    if (typeof x === 'number') { if (Number.isInteger(x)) { const b = big(x); return { t: lit(b), lo: b, hi: b, tz: x === 0 ? 64 : ctz(b), c: true }; } return null; }
    if (typeof x === 'boolean') { const b = x ? 1n : 0n; return { t: lit(b), lo: b, hi: b, tz: 0, c: true }; }
    if (x instanceof SNum && x.k === 'i') { if (x.nan) this.needNotNaN(x); return x; }
    if (x instanceof SBool) return { t: '(ite ' + x.t + ' 1 0)', lo: 0n, hi: 1n, tz: 0 };
    return null;
  },
  needNotNaN(x) {
    if (this.solver.check(['(and ' + x.nan + ')']) !== 'unsat') unsupported('arithmetic on a possibly-NaN remainder');
    x.nan = null;
  },
  // floats
  asF(x) {
    if (typeof x === 'number') return fpLit(x);
    if (x instanceof SNum && x.k === 'f') return x.t;
    if (x instanceof SNum && x.k === 'i') {
      // z3 has no precise model of to_fp on a symbolic real (it answers with bogus models), so integers that fit go through a bit-vector
      this.st.flags.int2fp = true;
      const e = this.exactI(x);
      if (x.negz) return '(ite ' + x.negz + ' ' + fpLit(-0) + ' ((_ to_fp 11 53) RNE ((_ int2bv 66) ' + e.t + ')))';
      if (e.lo >= -(1n << 64n) && e.hi <= (1n << 64n)) return '((_ to_fp 11 53) RNE ((_ int2bv 66) ' + e.t + '))';
      return '((_ to_fp 11 53) RNE (to_real ' + e.t + '))';
    }
    if (typeof x === 'boolean') return fpLit(x ? 1 : 0);
    if (x === undefined) return fpLit(NaN);
    if (x === null) return fpLit(0);
    if (x instanceof SBool) return '(ite ' + x.t + ' ' + fpLit(1) + ' ' + fpLit(0) + ')';
    return unsupported('float view of ' + describe(x));
  },
  // make sure an integer result is exactly representable as a double (|r| <= 2^53)
  exactI(r) {
    if (r.lo >= -P53 && r.hi <= P53) return r;
    // a multiple of 2^tz is representable exactly as a double up to 2^(53+tz)
    if (r.tz > 0 && r.tz < 64) { const lim = P53 << big(Math.min(r.tz, 60)); if (r.lo >= -lim && r.hi <= lim) return r; }
    const bad = '(or (< ' + r.t + ' ' + lit(-P53) + ') (> ' + r.t + ' ' + lit(P53) + '))';
    const res = this.solver.check([this.nameBool(bad)]);
    if (res === 'unsat') { return { t: r.t, lo: r.lo < -P53 ? -P53 : r.lo, hi: r.hi > P53 ? P53 : r.hi, tz: r.tz }; }
    this.st.flags.rounded = true;
    const mx = maxAbs(r);
    if (mx < (1n << 66n)) {
      // the double result is rounded to 53 significant bits, ties to even: stated exactly, per binade, in integer arithmetic
      // (|r| in [2^(53+k), 2^(54+k)): multiples of q = 2^(k+1) are representable; round |r| / q half-to-even)
      const a = this.def('Int', '(abs ' + r.t + ')');
      let body = a;
      for (let k = 12; k >= 0; k--) {
        const lo = 1n << big(53 + k), q = 1n << big(k + 1), h = q >> 1n;
        if (lo > mx) continue;
        const d = '(div ' + a + ' ' + q + ')', m = '(mod ' + a + ' ' + q + ')';
        const up = '(or (> ' + m + ' ' + h + ') (and (= ' + m + ' ' + h + ') (= (mod ' + d + ' 2) 1)))';
        body = '(ite (>= ' + a + ' ' + lo + ') (* ' + q + ' (ite ' + up + ' (+ ' + d + ' 1) ' + d + ')) ' + body + ')';
      }
      const fr = this.def('Int', '(ite (< ' + r.t + ' 0) (- ' + body + ') ' + body + ')');
      return { t: fr, lo: r.lo - (r.lo < 0n ? -r.lo : r.lo) / P53 - 1n, hi: r.hi + (r.hi < 0n ? -r.hi : r.hi) / P53 + 1n, tz: 0 };
    }
    // beyond 2^66: model the rounded double by a fresh integer with the sound facts of IEEE rounding
    const f = this.fresh('Int', 'rnd');
    this.assertTerm('(=> (and (<= ' + lit(-P53) + ' ' + r.t + ') (<= ' + r.t + ' ' + lit(P53) + ')) (= ' + f + ' ' + r.t + '))');
    // (sound, deliberately weak: exact inside the safe range, and rounding never crosses +-2^53)
    this.assertTerm('(=> (> ' + r.t + ' ' + lit(P53) + ') (>= ' + f + ' ' + lit(P53) + '))');
    this.assertTerm('(=> (< ' + r.t + ' ' + lit(-P53) + ') (<= ' + f + ' ' + lit(-P53) + '))');
    return { t: f, lo: r.lo - (r.lo < 0n ? -r.lo : r.lo) / P53 - 1n, hi: r.hi + (r.hi < 0n ? -r.hi : r.hi) / P53 + 1n, tz: 0 };
  },
  nameBool(t) { const name = 'c' + (++this.tcount); const d = '(define-fun ' + name + ' () Bool ' + t + ')'; this.st.defs.push(d); this.solver.send(d); return name; },
  mkI(r) { // r: {t, lo, hi, tz} -> JS value (concrete number if the interval is a point)
    r = this.exactI(r);
    if (r.lo === r.hi) return Number(r.lo);
    const out = new SNum('i', this.def('Int', r.t), r.lo, r.hi, r.tz || 0);
    if (r.bf) out.bf = r.bf;
    if (r.m32) out.m32 = r.m32;
    if (r.bv32) out.bv32 = r.bv32;
    return out;
  },

  // ---- 32-bit coercions on integer views
  // m32: a (simpler) term congruent to the value modulo 2^32; 32-bit coercions and int2bv only depend on that class
  toInt32(a) {
    if (a.lo >= -P31 && a.hi < P31) return a;
    const m = a.m32 || a.t;
    return { t: '(w32 ' + m + ')', lo: -P31, hi: P31 - 1n, tz: Math.min(a.tz || 0, 32), m32: m, bv32: a.bv32 };
  },
  // bits [sh, sh+len) of a value whose 32-bit pattern is a bit-field of a 64-bit input (tracked in .bf)
  fieldView(bf, sh, len) {
    const s0 = bf.s + sh, w = Math.min(len, bf.w - sh);
    if (w <= 0) return { t: '0', lo: 0n, hi: 0n, tz: 64, c: true };
    let t;
    if (s0 % 16 === 0 && w % 16 === 0) {
      const parts = [];
      for (let i = 0; i < w / 16; i++) parts.push(i === 0 ? bf.limbs[s0 / 16] : '(* ' + (1n << big(16 * i)) + ' ' + bf.limbs[s0 / 16 + i] + ')');
      t = parts.length === 1 ? parts[0] : '(+ ' + parts.join(' ') + ')';
    } else t = '(mod (div ' + bf.u + ' ' + (1n << big(s0)) + ') ' + (1n << big(w)) + ')';
    return { t, lo: 0n, hi: (1n << big(w)) - 1n, tz: 0, bf: { limbs: bf.limbs, u: bf.u, s: s0, w, exact: true } };
  },
  toUint32(a) {
    if (a.bf && !a.bf.exact) return this.fieldView(a.bf, 0, 32);
    if (a.lo >= 0n && a.hi < P32) return a;
    if (a.lo >= -P32 && a.hi < 0n && !a.m32) return { t: '(+ ' + a.t + ' 4294967296)', lo: a.lo + P32, hi: a.hi + P32, tz: Math.min(a.tz || 0, 32), m32: a.t, bv32: a.bv32 };
    const m = a.m32 || a.t;
    return { t: '(u32 ' + m + ')', lo: 0n, hi: P32 - 1n, tz: Math.min(a.tz || 0, 32), m32: m, bv32: a.bv32 };
  },
  bvOp(op, a, b) { // a, b int32 views
    const A = '((_ int2bv 32) ' + (a.m32 || a.t) + ')', Bt = '((_ int2bv 32) ' + (b.m32 || b.t) + ')';
    this.st.flags.bv = true;
    const u = this.def('Int', '(bv2int (' + op + ' ' + A + ' ' + Bt + '))');
    return { t: '(s32of ' + u + ')', lo: -P31, hi: P31 - 1n, tz: 0, m32: u };
  },
  andI(a, b) { // ToInt32 views
    if (b.c && !a.c) { const t = a; a = b; b = t; }
    if (a.c && b.c) { const v = big(Number(a.lo) & Number(b.lo)); return { t: lit(v), lo: v, hi: v, tz: ctz(v), c: true }; }
    if (a.c) {
      let c = a.lo;            // int32 constant
      if (c === -1n) return b;
      if (c === 0n) return { t: '0', lo: 0n, hi: 0n, tz: 64, c: true };
      if (c > 0n) {
        if (b.lo >= 0n) { // value fits below the mask?
          let k = 0n; while ((1n << k) <= b.hi) k++;
          const m = (1n << k) - 1n;
          if ((c & m) === m) return b;
        }
        const s = big(ctz(c)); const m = c >> s;
        if ((m & (m + 1n)) === 0n) { // contiguous run of ones: bits s .. s+len-1
          const len = big(m.toString(2).length);
          if (b.bf) {
            const f = this.fieldView(b.bf, Number(s), Number(len));
            if (s === 0n) return f;
            return { t: '(* ' + f.t + ' ' + (1n << s) + ')', lo: 0n, hi: f.hi << s, tz: Number(s) };
          }
          let t = b.t;
          if (s > 0n) t = '(div ' + t + ' ' + (1n << s) + ')';
          t = '(mod ' + t + ' ' + (1n << len) + ')';
          let hi = m;
          if (s === 0n && b.lo >= 0n && b.hi < m) hi = b.hi;
          if (s > 0n) { t = '(* ' + t + ' ' + (1n << s) + ')'; hi = m << s; }
          return { t, lo: 0n, hi, tz: Number(s) };
        }
        return this.bvOp('bvand', a, b);
      }
      // negative constant: x & c = x - (x & ~c)
      const nc = ~c;
      const low = this.andI({ t: lit(nc), lo: nc, hi: nc, tz: ctz(nc), c: true }, b);
      return { t: '(- ' + b.t + ' ' + low.t + ')', lo: -P31, hi: P31 - 1n, tz: 0 };
    }
    return this.bvOp('bvand', a, b);
  },
  orI(a, b) {
    if (b.c && !a.c) { const t = a; a = b; b = t; }
    if (a.c && b.c) { const v = big(Number(a.lo) | Number(b.lo)); return { t: lit(v), lo: v, hi: v, tz: ctz(v), c: true }; }
    if (a.c && a.lo === 0n) return b;
    if (a.c && a.lo === -1n) return a;
    // disjoint bit ranges: one side a multiple of 2^k, the other within [0, 2^k)
    const dis = (x, y) => y.lo >= 0n && x.tz > 0 && y.hi < (1n << big(Math.min(x.tz, 62)));
    if (dis(a, b) || dis(b, a)) {
      const s = { t: '(+ ' + a.t + ' ' + b.t + ')', lo: a.lo + b.lo, hi: a.hi + b.hi, tz: Math.min(a.tz, b.tz) };
      return this.toInt32(s);
    }
    if (a.c) { // x | c = (x & ~c) + c
      const nc = ~a.lo;
      const low = this.andI({ t: lit(nc), lo: nc, hi: nc, tz: ctz(nc), c: true }, b);
      return this.toInt32({ t: '(+ ' + low.t + ' ' + a.t + ')', lo: low.lo + a.lo, hi: low.hi + a.hi, tz: 0 });
    }
    return this.bvOp('bvor', a, b);
  },
  xorI(a, b) {
    if (b.c && !a.c) { const t = a; a = b; b = t; }
    if (a.c && b.c) { const v = big(Number(a.lo) ^ Number(b.lo)); return { t: lit(v), lo: v, hi: v, tz: ctz(v), c: true }; }
    if (a.c && a.lo === 0n) return b;
    if (a.c && a.lo === -1n) return { t: '(- (- ' + b.t + ') 1)', lo: -b.hi - 1n, hi: -b.lo - 1n, tz: 0 };
    return this.bvOp('bvxor', a, b);
  },
  shiftCount(y) { // -> concrete 0..31 (forks over the possible values of a symbolic count)
    if (typeof y === 'number') return y & 31;
    const v = this.asI(y); if (!v) unsupported('shift count ' + describe(y));
    let m = v;
    if (!(v.lo >= 0n && v.hi <= 31n)) m = { t: '(mod ' + v.t + ' 32)', lo: 0n, hi: 31n };
    return this.concretize(m);
  },
  concretize(v) { // v integer view with small range: fork on each value
    if (v.lo === v.hi) return Number(v.lo);
    if (v.hi - v.lo > 4096n) unsupported('concretization over a range of ' + (v.hi - v.lo + 1n) + ' values');
    for (let k = v.lo; k < v.hi; k++) if (this.branch('(= ' + v.t + ' ' + lit(k) + ')')) return Number(k);
    return Number(v.hi);
  },
  unsupportedStmt(what) { return unsupported('statement ' + what); },
  concrete(x) { // used where native code needs a concrete number
    if (!isSym(x)) return x;
    const v = this.asI(x); if (!v) unsupported('concrete value needed for ' + describe(x));
    return this.concretize(v);
  },
  k(x) { // property key
    if (!isSym(x)) return x;
    if (x instanceof SStr) return this.concreteStr(x);
    return this.concrete(x);
  },
  concreteStr(s) {
    let out = '';
    for (const ch of s.chars) out += String.fromCharCode(typeof ch === 'number' ? ch : this.concretize(this.asI(ch)));
    return out;
  },

  // ---- operators
  b(op, a, b) {
    if (!isSym(a) && !isSym(b)) {
      switch (op) {
        case '+': return a + b; case '-': return a - b; case '*': return a * b; case '/': return a / b; case '%': return a % b;
        case '===': return a === b || (typeof a === 'function' && typeof b === 'function' && shimPair(a, b));
        case '!==': return !this.b('===', a, b);
        case '==': return a == b || (typeof a === 'function' && typeof b === 'function' && shimPair(a, b));
        case '!=': return !this.b('==', a, b);
        case '<': return a < b; case '<=': return a <= b; case '>': return a > b; case '>=': return a >= b;
        case '&': return a & b; case '|': return a | b; case '^': return a ^ b;
        case '<<': return a << b; case '>>': return a >> b; case '>>>': return a >>> b;
        case '**': return a ** b;
        default: throw new Error('binary operator ' + op);
      }
    }
    return this.symBin(op, a, b);
  },
  symBin(op, a, b) {
    // strings
    if (a instanceof SStr || b instanceof SStr || typeof a === 'string' || typeof b === 'string') return this.strBin(op, a, b);
    if (a instanceof Quot || b instanceof Quot) return this.quotBin(op, a, b);
    switch (op) {
      case '===': case '==': case '!==': case '!=': {
        const neg = op[0] === '!';
        let r = this.eq(a, b, op.length === 3);
        return neg ? this.not(r) : r;
      }
    }
    if (a instanceof SBool && b instanceof SBool && (op === '&' || op === '|' || op === '^')) { /* falls to integer view */ }
    const ia = this.asI(a), ib = this.asI(b);
    if (ia && ib) return this.intBin(op, ia, ib, a, b);
    // floats
    if ((typeof a === 'number' || a instanceof SNum || a instanceof SBool || typeof a === 'boolean' || a === undefined || a === null) &&
        (typeof b === 'number' || b instanceof SNum || b instanceof SBool || typeof b === 'boolean' || b === undefined || b === null))
      return this.fpBin(op, a, b);
    return unsupported('operator ' + op + ' on ' + describe(a) + ', ' + describe(b));
  },
  eq(a, b, strict) {
    if (a === b && !(a instanceof SNum)) return true;
    if (a instanceof SNum && a === b) { // x === x : false only for NaN
      if (a.k === 'i') return a.nan ? this.B('(not ' + a.nan + ')') : true;
      return this.B('(not (fp.isNaN ' + a.t + '))');
    }
    if (a instanceof SBool || b instanceof SBool) {
      if (typeof a === 'boolean') return a ? b : this.not(b);
      if (typeof b === 'boolean') return b ? a : this.not(a);
      if (a instanceof SBool && b instanceof SBool) return this.B('(= ' + a.t + ' ' + b.t + ')');
      if (strict) return false;
    }
    const na = typeof a === 'number' || a instanceof SNum, nb = typeof b === 'number' || b instanceof SNum;
    if (na && nb) {
      const ia = this.asI(a), ib = this.asI(b);
      if (ia && ib) {
        if (ia.hi < ib.lo || ib.hi < ia.lo) return false;
        return this.B('(= ' + ia.t + ' ' + ib.t + ')');
      }
      if (typeof a === 'number' && a !== a) return false;
      if (typeof b === 'number' && b !== b) return false;
      if ((ia && typeof b === 'number' && !isFinite(b)) || (ib && typeof a === 'number' && !isFinite(a))) return false;
      if ((ia && typeof b === 'number' && !Number.isInteger(b)) || (ib && typeof a === 'number' && !Number.isInteger(a))) return false;
      return this.B('(fp.eq ' + this.asF(a) + ' ' + this.asF(b) + ')');
    }
    if (strict) return false;      // different types (symbolic number vs object/undefined/...)
    if ((a === null || a === undefined) || (b === null || b === undefined)) return false;
    return unsupported('loose equality ' + describe(a) + ' == ' + describe(b));
  },
  intBin(op, a, b) {
    switch (op) {
      case '+':
        if (a.c && a.lo === 0n) return this.mkI(b);
        if (b.c && b.lo === 0n) return this.mkI(a);
        return this.mkI({ t: '(+ ' + a.t + ' ' + b.t + ')', lo: a.lo + b.lo, hi: a.hi + b.hi, tz: Math.min(a.tz || 0, b.tz || 0) });
      case '-':
        if (b.c && b.lo === 0n) return this.mkI(a);
        return this.mkI({ t: '(- ' + a.t + ' ' + b.t + ')', lo: a.lo - b.hi, hi: a.hi - b.lo, tz: Math.min(a.tz || 0, b.tz || 0) });
      case '*': {
        const c = [a.lo * b.lo, a.lo * b.hi, a.hi * b.lo, a.hi * b.hi];
        let lo = c[0], hi = c[0]; for (const x of c) { if (x < lo) lo = x; if (x > hi) hi = x; }
        if (a.c && a.lo === 1n) return this.mkI(b);
        if (b.c && b.lo === 1n) return this.mkI(a);
        if (!a.c && !b.c) this.st.flags.nonlinear = true;
        return this.mkI({ t: '(* ' + a.t + ' ' + b.t + ')', lo, hi, tz: Math.min((a.tz || 0) + (b.tz || 0), 64) });
      }
      case '/': {
        if (b.c && b.lo !== 0n && a.tz && (b.lo & (b.lo - 1n)) === 0n && b.lo > 0n && (1n << big(Math.min(a.tz, 62))) >= b.lo) // exact division by a power of two
          return this.mkI({ t: '(div ' + a.t + ' ' + b.t + ')', lo: fdiv(a.lo, b.lo), hi: fdiv(a.hi, b.lo), tz: a.tz - ctz(b.lo) });
        return new Quot(this.exactI(a), this.exactI(b));
      }
      case '%': {
        // JS remainder: sign of the dividend; NaN when the divisor is 0
        const r = { t: '(trem ' + a.t + ' ' + b.t + ')', lo: 0n, hi: 0n, tz: 0 };
        const m = maxAbs(b) - 1n, am = maxAbs(a);
        const mm = m < am ? m : am;
        r.lo = a.lo < 0n ? -mm : 0n; r.hi = a.hi > 0n ? mm : 0n;
        if (b.lo <= 0n && b.hi >= 0n) {
          const res = new SNum('i', this.def('Int', '(ite (= ' + b.t + ' 0) 0 ' + r.t + ')'), r.lo, r.hi, 0);
          res.nan = this.def('Bool', '(= ' + b.t + ' 0)');
          this.st.flags.negzero = true;
          if (a.lo < 0n) res.negz = this.def('Bool', '(and (< ' + a.t + ' 0) (not (= ' + b.t + ' 0)) (= ' + r.t + ' 0))');
          return res;
        }
        this.st.flags.negzero = true;
        // a zero remainder of a negative dividend is -0 in JavaScript: remembered on this value object (.negz) and honoured when the very same
        // value is converted to a double; any further integer operation makes a new value without the mark (coercions like >> 0 clear it for real)
        const out = this.mkI(r);
        if (out instanceof SNum && a.lo < 0n) out.negz = this.def('Bool', '(and (< ' + a.t + ' 0) (= ' + r.t + ' 0))');
        return out;
      }
      case '<': return a.hi < b.lo ? true : a.lo >= b.hi ? false : this.B('(< ' + a.t + ' ' + b.t + ')');
      case '<=': return a.hi <= b.lo ? true : a.lo > b.hi ? false : this.B('(<= ' + a.t + ' ' + b.t + ')');
      case '>': return a.lo > b.hi ? true : a.hi <= b.lo ? false : this.B('(> ' + a.t + ' ' + b.t + ')');
      case '>=': return a.lo >= b.hi ? true : a.hi < b.lo ? false : this.B('(>= ' + a.t + ' ' + b.t + ')');
      case '&': {
        // a non-negative constant mask below bit 31 only looks at low bits, which ToInt32 preserves
        if (b.c && b.lo >= 0n && b.lo < P31) return this.mkI(this.andI(a, b));
        if (a.c && a.lo >= 0n && a.lo < P31) return this.mkI(this.andI(a, b));
        return this.mkI(this.andI(this.toInt32(a), this.toInt32(b)));
      }
      case '|': return this.mkI(this.orI(this.toInt32(a), this.toInt32(b)));
      case '^': return this.mkI(this.xorI(this.toInt32(a), this.toInt32(b)));
      case '<<': case '>>': case '>>>': {
        const n = b.c ? (Number(b.lo) & 31) : this.shiftCount(b);
        const p = 1n << big(n);
        if (op === '<<') {
          const x = this.toInt32(a);
          if (n === 0) return this.mkI(x);
          return this.mkI(this.toInt32({ t: '(* ' + x.t + ' ' + p + ')', lo: x.lo * p, hi: x.hi * p, tz: (x.tz || 0) + n }));
        }
        const x = op === '>>' ? this.toInt32(a) : this.toUint32(a);
        if (n === 0) return this.mkI(x);
        if (x.bf && x.bf.exact && (op === '>>>' || x.lo >= 0n)) return this.mkI(this.fieldView(x.bf, n, 32));
        return this.mkI({ t: '(div ' + x.t + ' ' + p + ')', lo: fdiv(x.lo, p), hi: fdiv(x.hi, p), tz: Math.max((x.tz || 0) - n, 0) });
      }
      default: return unsupported('integer operator ' + op);
    }
  },
  quotBin(op, a, b) {
    // only the idioms the compiler emits around an integer division
    if (a instanceof Quot && (op === '===' || op === '!==')) {
      let r;
      if (b === a) r = this.B('(not (and (= ' + a.n.t + ' 0) (= ' + a.d.t + ' 0)))');            // not NaN
      else if (b === Infinity) r = this.B('(and (= ' + a.d.t + ' 0) (> ' + a.n.t + ' 0))');
      else if (b === -Infinity) r = this.B('(and (= ' + a.d.t + ' 0) (< ' + a.n.t + ' 0))');
      else return unsupported('comparison of an integer quotient with ' + describe(b));
      return op === '!==' ? this.not(r) : r;
    }
    if (a instanceof Quot && (op === '>>' || op === '>>>' || op === '|') && (b === 0)) {
      return this.truncQuot(a, op === '>>>' ? 'u' : 's');
    }
    return unsupported('operator ' + op + ' on an integer quotient');
  },
  // trunc(fl(n/d)) coerced to (u)int32.  fl is IEEE-754 round-to-nearest of the exact quotient; it is
  // characterised (soundly, not completely) by: exact when the quotient is an integer <= 2^53 in magnitude,
  // monotone (so it lies between the neighbouring integers), relative error <= 2^-53.
  truncQuot(q, mode) {
    const n = q.n, d = q.d;
    if (this.solver.check([this.nameBool('(= ' + d.t + ' 0)')]) !== 'unsat') {
      // n / 0 is an infinity (or NaN for 0 / 0) in JavaScript; a 32-bit coercion turns either into 0.  Decided as a branch of the path.
      if (mode === 'raw') return unsupported('truncation of a quotient whose divisor may be zero');
      if (this.branch('(= ' + d.t + ' 0)')) return 0;
    }
    const tq = this.def('Int', '(tdiv ' + n.t + ' ' + d.t + ')');
    this.st.flags.quot = true;
    // can rounding reach the next integer?  |n/d| < 2^53 and d != 0:
    // fl(n/d) = k+1 (k = floor of |n/d|) would need (k+1) - |n|/|d| <= 2^-53 * |n|/|d|, i.e. (k+1)*|d| - |n| <= |n| / 2^53
    const an = '(absi ' + n.t + ')', ad = '(absi ' + d.t + ')';
    const k = '(div ' + an + ' ' + ad + ')';
    const bump = this.nameBool('(and (not (= (mod ' + an + ' ' + ad + ') 0)) (<= (* ' + lit(P53) + ' (- (* (+ ' + k + ' 1) ' + ad + ') ' + an + ')) ' + an + '))');
    const r = this.solver.check([bump]);
    if (r !== 'unsat') return unsupported('double rounding of an integer quotient may reach the next integer');
    const m = maxAbs(n);
    const v = { t: tq, lo: -m, hi: m, tz: 0 };
    if (mode === 'raw') return this.mkI(v);
    return this.mkI(mode === 'u' ? this.toUint32(v) : this.toInt32(v));
  },
  floorQuot(q) {
    const n = q.n, d = q.d;
    if (d.c && d.lo > 0n && (d.lo & (d.lo - 1n)) === 0n)     // division by a power of two is exact in binary floating point
      return this.mkI({ t: '(div ' + n.t + ' ' + d.t + ')', lo: fdiv(n.lo, d.lo), hi: fdiv(n.hi, d.lo), tz: 0 });
    if (n.lo >= 0n && d.lo > 0n) { const r = this.truncQuot(q, 'raw'); return r; }
    return unsupported('Math.floor of a general integer quotient');
  },
  u(op, a) {
    if (!isSym(a)) { switch (op) { case '-': return -a; case '+': return +a; case '~': return ~a; } }
    if (a instanceof Quot) return unsupported('unary ' + op + ' on quotient');
    if (a instanceof SStr) return unsupported('unary ' + op + ' on symbolic string');
    const i = this.asI(a);
    if (i) {
      switch (op) {
        case '-': this.st.flags.negzero = true; return this.mkI({ t: '(- ' + i.t + ')', lo: -i.hi, hi: -i.lo, tz: i.tz });
        case '+': return this.mkI(i);
        case '~': { const x = this.toInt32(i); return this.mkI({ t: '(- (- ' + x.t + ') 1)', lo: -x.hi - 1n, hi: -x.lo - 1n, tz: 0 }); }
      }
    }
    if (a instanceof SNum && a.k === 'f') {
      if (op === '-') return this.F('(fp.neg ' + a.t + ')');
      if (op === '+') return a;
      return this.mkI(this.xorI(this.fpToInt32(a.t), { t: '(- 1)', lo: -1n, hi: -1n, c: true, tz: 0 }));
    }
    return unsupported('unary ' + op + ' on ' + describe(a));
  },
  not(a) {
    if (!isSym(a)) return !a;
    if (a instanceof SBool) return this.B('(not ' + a.t + ')');
    if (a instanceof SStr) return a.chars.length === 0;
    if (a instanceof SNum && a.k === 'i') return a.nan ? this.B('(or ' + a.nan + ' (= ' + a.t + ' 0))') : this.B('(= ' + a.t + ' 0)');
    if (a instanceof SNum) return this.B('(or (fp.isZero ' + a.t + ') (fp.isNaN ' + a.t + '))');
    return unsupported('! on ' + describe(a));
  },
  n(x) { // ToNumber for postfix update
    if (isSym(x)) return x;
    return +x;
  },
  inc(x, d) { return this.b('+', this.n(x), d); },
  ty(x) {
    if (!isSym(x)) return typeof x;
    if (x instanceof SNum || x instanceof Quot) return 'number';
    if (x instanceof SBool) return 'boolean';
    if (x instanceof SStr) return 'string';
    return 'object';
  },

  // ---- conditions and path exploration
  c(v) {
    if (!isSym(v)) return !!v;
    if (v instanceof SBool) return this.branch(v.t);
    if (v instanceof SStr) return v.chars.length > 0;
    if (v instanceof SNum && v.k === 'i') {
      if (!v.nan && (v.lo > 0n || v.hi < 0n)) return true;
      return this.branch(v.nan ? '(and (not ' + v.nan + ') (not (= ' + v.t + ' 0)))' : '(not (= ' + v.t + ' 0))');
    }
    if (v instanceof SNum) return this.branch('(not (or (fp.isZero ' + v.t + ') (fp.isNaN ' + v.t + ')))');
    return unsupported('condition on ' + describe(v));
  },
  branch(term) {
    const st = this.st;
    if (st.decided.has(term)) return st.decided.get(term);
    const i = st.depth++;
    if (i >= this.cfg.maxDepth) throw new Abort('bound', 'more than ' + this.cfg.maxDepth + ' symbolic decisions on one path');
    const c = this.nameBool(term);
    let dir;
    if (i < st.prefix.length) dir = st.prefix[i];
    else {
      const r1 = this.solver.check([c]);
      if (r1 === 'unsat') dir = false;
      else {
        const nc = '(not ' + c + ')';
        const r2 = this.solver.check([nc]);
        if (r2 === 'unsat') dir = true;
        else {
          dir = true;
          this.pending.push(st.prefix.slice(0, i).concat([false]));
          if (r1 === 'unknown' || r2 === 'unknown') st.unknown++;
          st.forks++;
        }
      }
      st.prefix.push(dir);
    }
    const lit_ = dir ? c : '(not ' + c + ')';
    st.pc.push(lit_);
    st.decided.set(term, dir);
    this.solver.send('(assert ' + lit_ + ')');
    return dir;
  },
  // ---- merged (if-converted) conditions
  tb(v) {
    if (!isSym(v)) return !!v;
    if (v instanceof SBool) return v;
    if (v instanceof SStr) return v.chars.length > 0;
    return this.not(this.not(v));
  },
  andB(a, b) {
    if (a === false || b === false) return false;
    if (a === true) return b;
    if (b === true) return a;
    if (this.st.decided.has(a.t)) return this.andB(this.st.decided.get(a.t), b);
    if (this.st.decided.has(b.t)) return this.andB(a, this.st.decided.get(b.t));
    return this.B('(and ' + a.t + ' ' + b.t + ')');
  },
  orB(a, b) {
    if (a === true || b === true) return true;
    if (a === false) return b;
    if (b === false) return a;
    return this.B('(or ' + a.t + ' ' + b.t + ')');
  },
  notB(a) { return typeof a === 'boolean' ? !a : this.B('(not ' + a.t + ')'); },
  ite3(g, a, b) {
    if (g === true) return a;
    if (g === false) return b;
    if (a === b) return a;
    if (this.st.decided.has(g.t)) return this.st.decided.get(g.t) ? a : b;
    const scalar = x => typeof x === 'number' || typeof x === 'boolean' || x instanceof SNum || x instanceof SBool;
    if (scalar(a) && scalar(b) && !(a instanceof SNum && a.nan) && !(b instanceof SNum && b.nan)) {
      const an = typeof a === 'number' || a instanceof SNum, bn = typeof b === 'number' || b instanceof SNum;
      if (an === bn) { this.st.flags.merged = true; return this.ite(g.t, a, b); }
    }
    return this.c(g) ? a : b;     // not mergeable: decide the guard on this path
  },
  // n-way choice (0..n-1), each alternative explored
  choice(n, label) {
    for (let k = 0; k < n - 1; k++) {
      const v = this.fresh('Bool', 'ch');
      this.st.choices.push([label, v]);
      if (this.branch(v)) return k;
    }
    return n - 1;
  },
  sw(d, tests) {
    if (!isSym(d)) {
      for (let i = 0; i < tests.length; i++) { const t = tests[i]; if (isSym(t) ? this.c(this.b('===', d, t)) : (d === t || (typeof d === 'function' && typeof t === 'function' && shimPair(d, t)))) return i; }
      return -1;
    }
    for (let i = 0; i < tests.length; i++) if (this.c(this.b('===', d, tests[i]))) return i;
    return -1;
  },
  ch(e) { if (e && e.$$abort) { throw e; } },

  // ---- member access
  g(o, k) {
    if (isSym(k)) return this.symGet(o, k);
    if (o instanceof TAbase) { if (typeof k === 'number') return o.$get(k); if (typeof k === 'string' && /^(0|[1-9][0-9]*)$/.test(k)) return o.$get(+k); return o[k]; }
    if (o instanceof SStr) { if (typeof k === 'number') return k >= 0 && k < o.chars.length ? new SStr([o.chars[k]]) : undefined; return o[k]; }
    return o[k];
  },
  symGet(o, k) {
    if (k instanceof SStr) return this.g(o, this.concreteStr(k));
    const iv = this.asI(k);
    if (!iv) return unsupported('member access with key ' + describe(k));
    let len;
    if (Array.isArray(o) || o instanceof TAbase) len = o.length;
    else if (typeof o === 'string') len = o.length;
    else if (o instanceof SStr) len = o.chars.length;
    else return this.g(o, this.concretize(iv));
    // out of range -> undefined, on a path of its own
    const inr = this.b('<', k, len);
    const nonneg = this.b('>=', k, 0);
    if (!this.c(nonneg) || !this.c(inr)) return undefined;
    const lo = iv.lo < 0n ? 0 : Number(iv.lo), hi = iv.hi >= big(len) ? len - 1 : Number(iv.hi);
    const elems = [];
    for (let i = lo; i <= hi; i++) elems.push(this.g(o, i));
    return this.iteChain(iv.t, lo, elems);
  },
  iteChain(kt, lo, elems) {
    if (elems.length === 1) return elems[0];
    const first = elems[0];
    if (elems.every(x => x === first)) return first;
    // all numbers (exact ints)?
    const views = elems.map(x => this.asI(x));
    if (views.every(v => v)) {
      let t = views[views.length - 1].t, l = views[0].lo, h = views[0].hi, tz = 64;
      for (const v of views) { if (v.lo < l) l = v.lo; if (v.hi > h) h = v.hi; tz = Math.min(tz, v.tz || 0); }
      for (let i = views.length - 2; i >= 0; i--) t = '(ite (= ' + kt + ' ' + (lo + i) + ') ' + views[i].t + ' ' + t + ')';
      return this.mkI({ t, lo: l, hi: h, tz });
    }
    if (elems.every(x => typeof x === 'number' || (x instanceof SNum))) {
      let t = this.asF(elems[elems.length - 1]);
      for (let i = elems.length - 2; i >= 0; i--) t = '(ite (= ' + kt + ' ' + (lo + i) + ') ' + this.asF(elems[i]) + ' ' + t + ')';
      return this.F(t);
    }
    if (elems.every(x => typeof x === 'boolean' || x instanceof SBool)) {
      const bt = x => typeof x === 'boolean' ? '' + x : x.t;
      let t = bt(elems[elems.length - 1]);
      for (let i = elems.length - 2; i >= 0; i--) t = '(ite (= ' + kt + ' ' + (lo + i) + ') ' + bt(elems[i]) + ' ' + t + ')';
      return this.B(t);
    }
    // heterogeneous / objects: fork on the index
    for (let i = 0; i < elems.length - 1; i++) if (this.branch('(= ' + kt + ' ' + (lo + i) + ')')) return elems[i];
    return elems[elems.length - 1];
  },
  p(o, k, v) {
    if (isSym(k)) return this.symPut(o, k, v);
    if (o instanceof TAbase) { if (typeof k === 'number') { o.$set(k, v); return v; } if (typeof k === 'string' && /^(0|[1-9][0-9]*)$/.test(k)) { o.$set(+k, v); return v; } }
    o[k] = v; return v;
  },
  symPut(o, k, v) {
    if (k instanceof SStr) return this.p(o, this.concreteStr(k), v);
    const iv = this.asI(k);
    if (!iv) return unsupported('member store with key ' + describe(k));
    if (!(Array.isArray(o) || o instanceof TAbase)) return this.p(o, this.concretize(iv), v);
    const len = o.length;
    // stores out of range grow JS arrays / are ignored by typed arrays: concretize those
    const inr = this.c(this.b('>=', k, 0)) && this.c(this.b('<', k, len));
    if (!inr) return this.p(o, this.concretize(iv), v);
    const lo = iv.lo < 0n ? 0 : Number(iv.lo), hi = iv.hi >= big(len) ? len - 1 : Number(iv.hi);
    if (hi - lo > 64) return unsupported('symbolic store over ' + (hi - lo + 1) + ' slots');
    const cv = o instanceof TAbase ? o.constructor.$coerce(v) : v;
    const scalar = x => typeof x === 'number' || typeof x === 'boolean' || x instanceof SNum || x instanceof SBool;
    let allScalar = scalar(cv);
    for (let i = lo; i <= hi && allScalar; i++) if (!scalar(this.g(o, i))) allScalar = false;
    if (!allScalar) { const j = this.concretize(iv); return this.p(o, j, v); }
    for (let i = lo; i <= hi; i++) {
      const old = this.g(o, i);
      const nv = this.ite('(= ' + iv.t + ' ' + i + ')', cv, old);
      if (o instanceof TAbase) o.buffer.data[o.$off + i] = nv; else o[i] = nv;
    }
    return v;
  },
  ite(ct, a, b) {
    if (a === b) return a;
    if ((typeof a === 'boolean' || a instanceof SBool) && (typeof b === 'boolean' || b instanceof SBool)) {
      const bt = x => typeof x === 'boolean' ? '' + x : x.t;
      return this.B('(ite ' + ct + ' ' + bt(a) + ' ' + bt(b) + ')');
    }
    const ia = this.asI(a), ib = this.asI(b);
    if (ia && ib) return this.mkI({ t: '(ite ' + ct + ' ' + ia.t + ' ' + ib.t + ')', lo: ia.lo < ib.lo ? ia.lo : ib.lo, hi: ia.hi > ib.hi ? ia.hi : ib.hi, tz: Math.min(ia.tz || 0, ib.tz || 0) });
    return this.F('(ite ' + ct + ' ' + this.asF(a) + ' ' + this.asF(b) + ')');
  },
  a1(o, k) { if (isSym(k)) k = this.k(k); return { o, k, cur: this.g(o, k) }; },
  a2(tok, op, rhs) { return this.p(tok.o, tok.k, this.b(op, tok.cur, rhs)); },
  up(o, k, d, prefix) {
    if (isSym(k)) k = this.k(k);
    const old = this.n(this.g(o, k));
    const nv = this.b('+', old, d);
    this.p(o, k, nv);
    return prefix ? this.g(o, k) : old;
  },
  sm(o, name, args) { // method call that may be a String method on a concrete string with symbolic arguments
    if (typeof o === 'string' && args.some(isSym)) o = new SStr(this.strView(o));
    if (name === 'join' && Array.isArray(o) && o.some(isSym)) {
      const sep = args.length ? args[0] : ',';
      let out = '';
      for (let i = 0; i < o.length; i++) { if (i > 0) out = this.b('+', out, sep); out = this.b('+', out, (o[i] === null || o[i] === undefined) ? '' : o[i]); }
      return out;
    }
    return o[name](...args);
  },
  mc(o, k, args) {
    if (isSym(k)) k = this.k(k);
    const f = this.g(o, k);
    if (typeof f !== 'function') throw new TypeError('not a function: ' + String(k));
    return f.apply(o, args);
  },

  // ---- strings
  strView(x) {
    if (typeof x === 'string') { const a = new Array(x.length); for (let i = 0; i < x.length; i++) a[i] = x.charCodeAt(i); return a; }
    if (x instanceof SStr) return x.chars;
    return null;
  },
  mkStr(chars) {
    if (chars.every(c => typeof c === 'number')) { let out = ''; for (let i = 0; i < chars.length; i += 8192) out += String.fromCharCode.apply(null, chars.slice(i, i + 8192)); return out; }
    return new SStr(chars);
  },
  strBin(op, a, b) {
    const sa = this.strView(a), sb = this.strView(b);
    if (op === '+') {
      const ca = sa || this.numToStrChars(a), cb = sb || this.numToStrChars(b);
      return this.mkStr(ca.concat(cb));
    }
    if (!sa || !sb) {
      if (op === '===') return false; if (op === '!==') return true;
      if ((op === '==' || op === '!=') && (a === null || a === undefined || b === null || b === undefined)) return op === '!=';
      return unsupported('operator ' + op + ' on string and ' + describe(sa ? b : a));
    }
    switch (op) {
      case '===': case '==': case '!==': case '!=': {
        const neg = op[0] === '!';
        const hasSeg = sa.some(c => c instanceof NumSeg) || sb.some(c => c instanceof NumSeg);
        if (hasSeg) {
          // strings embedding formatted numbers are compared token-wise: runs of characters and number segments.  Sound because
          // every number segment is required to be delimited by characters that cannot occur in a number's decimal form.
          const delim = c => typeof c === 'number' && !((c >= 48 && c <= 57) || c === 45 || c === 46 || c === 43 || c === 101 || c === 69 || c === 78 || c === 97 || c === 73 || c === 110 || c === 102 || c === 105 || c === 116 || c === 121);
          const okShape = (a) => a.every((c, i) => !(c instanceof NumSeg) || ((i === 0 || delim(a[i - 1])) && (i === a.length - 1 || delim(a[i + 1]))));
          const toks = a => { const out = []; let run = []; for (const c of a) { if (c instanceof NumSeg) { out.push(run); out.push(c); run = []; } else run.push(c); } out.push(run); return out; };
          const single = (a, b) => { // a = [NumSeg], b = all concrete chars: String(number) === text ?
            if (!(a.length === 1 && a[0] instanceof NumSeg && b.every(c => typeof c === 'number'))) return null;
            const text = String.fromCharCode(...b), n = Number(text);
            if (text === '' || String(n) !== text) return false;
            return this.numSegEq(a[0].v, n);
          };
          let r1 = single(sa, sb); if (r1 === null) r1 = single(sb, sa);
          if (r1 !== null) { if (r1 === true || r1 === false) return neg ? !r1 : r1; return neg ? this.not(r1) : r1; }
          if (!okShape(sa) || !okShape(sb)) return unsupported('comparison of strings with undelimited embedded numbers');
          const ta = toks(sa), tb = toks(sb);
          this.st.flags.numseg_eq = true;
          if (ta.length !== tb.length) return neg;      // different number of delimited number fields: the delimiters differ
          const conj = [];
          for (let i = 0; i < ta.length; i++) {
            if ((ta[i] instanceof NumSeg) !== (tb[i] instanceof NumSeg)) return neg;
            if (ta[i] instanceof NumSeg) { const e = this.numSegEq(ta[i].v, tb[i].v); if (e === false) return neg; if (e !== true) conj.push(e.t); continue; }
            if (ta[i].length !== tb[i].length) return neg;
            for (let j = 0; j < ta[i].length; j++) { const e = this.eq(ta[i][j], tb[i][j], true); if (e === false) return neg; if (e !== true) conj.push(e.t); }
          }
          if (conj.length === 0) return !neg;
          const r = this.B(conj.length === 1 ? conj[0] : '(and ' + conj.join(' ') + ')');
          return neg ? this.not(r) : r;
        } else if (sa.length !== sb.length) return neg;
        const conj = [];
        for (let i = 0; i < sa.length; i++) {
          const e = (sa[i] instanceof NumSeg) ? this.numSegEq(sa[i].v, sb[i].v) : this.eq(sa[i], sb[i], true);
          if (e === false) return neg;
          if (e !== true) conj.push(e.t);
        }
        if (conj.length === 0) return !neg;
        const r = this.B(conj.length === 1 ? conj[0] : '(and ' + conj.join(' ') + ')');
        return neg ? this.not(r) : r;
      }
      case '<': case '<=': case '>': case '>=': {
        // lexicographic on code units
        const strictOp = op[0], orEq = op.length === 2;
        const n = Math.min(sa.length, sb.length);
        let t = (sa.length === sb.length) ? (orEq ? 'true' : 'false') : ((sa.length < sb.length) === (strictOp === '<') ? 'true' : 'false');
        for (let i = n - 1; i >= 0; i--) {
          const x = this.asI(sa[i]), y = this.asI(sb[i]);
          t = '(ite (= ' + x.t + ' ' + y.t + ') ' + t + ' (' + strictOp + ' ' + x.t + ' ' + y.t + '))';
        }
        return this.B(t);
      }
    }
    return unsupported('string operator ' + op);
  },
  numSegEq(a, b) { // String(a) === String(b) for numbers: same value (+0 and -0 print alike; NaN prints as NaN)
    const ia = this.asI(a), ib = this.asI(b);
    if (ia && ib) return this.eq(a, b, true);
    const x = this.asF(a), y = this.asF(b);
    return this.B('(or (fp.eq ' + x + ' ' + y + ') (and (fp.isNaN ' + x + ') (fp.isNaN ' + y + ')))');
  },
  numToStrChars(x) {
    if (!isSym(x)) return this.strView(String(x));
    // decimal rendering of a symbolic number: an opaque segment (its digits are never inspected; the string's length is unknown)
    if (x instanceof SNum) return [new NumSeg(x)];
    if (x instanceof SBool) return this.strView(this.c(x) ? 'true' : 'false');
    return unsupported('conversion of ' + describe(x) + ' to string');
  },
  strReplace(s, re, rep) {
    // only the escaping idiom of the prelude: a global regex matching one literal character, replaced by a fixed string
    const src = re instanceof RegExp ? re.source : null;
    if (!src || !re.global || !/^\\?.$/.test(src) || typeof rep !== 'string') return unsupported('String.prototype.replace(' + re + ') on a symbolic string');
    const ch = src.length === 2 ? src.charCodeAt(1) : src.charCodeAt(0);
    const repl = this.strView(rep.replace(/\$\$/g, '$'));
    const out = [];
    for (const c of s.chars) {
      if (c instanceof NumSeg) { out.push(c); continue; }     // digits of a number never match the escaped characters ($ and \)
      if (typeof c === 'number' ? c === ch : this.c(this.eq(c, ch, true))) out.push(...repl); else out.push(c);
    }
    return this.mkStr(out);
  },
  strCharCodeAt(s, i) {
    if (s.chars.some(c => c instanceof NumSeg)) return unsupported('indexing a string that contains a formatted symbolic number');
    if (!isSym(i)) { i = i === undefined ? 0 : Math.trunc(i); return (i >= 0 && i < s.chars.length) ? s.chars[i] : NaN; }
    const iv = this.asI(i); if (!iv) return unsupported('charCodeAt index');
    if (!this.c(this.b('>=', i, 0)) || !this.c(this.b('<', i, s.chars.length))) return NaN;
    const lo = iv.lo < 0n ? 0 : Number(iv.lo), hi = iv.hi >= big(s.chars.length) ? s.chars.length - 1 : Number(iv.hi);
    return this.iteChain(iv.t, lo, s.chars.slice(lo, hi + 1));
  },
  strSubstring(s, a, b) {
    const n = s.chars.length;
    a = this.concrete(a); b = b === undefined ? n : this.concrete(b);
    a = Math.max(0, Math.min(n, a | 0)); b = Math.max(0, Math.min(n, b | 0));
    if (a > b) { const t = a; a = b; b = t; }
    return this.mkStr(s.chars.slice(a, b));
  },
  sameValueZero(a, b) {
    if (!isSym(a) && !isSym(b)) return a === b || (a !== a && b !== b);
    if (typeof a === 'string' || typeof b === 'string' || a instanceof SStr || b instanceof SStr) return this.strBin('===', a, b);
    return this.eq(a, b, true);
  },
  coerceElem(v, cls, bits, signed) {
    if (cls === 'f') {
      if (bits === 64) return v;
      return this.fround(v);
    }
    if (v instanceof Quot) return unsupported('store of an integer quotient into a typed array');
    if (v instanceof SStr && v.chars.length === 1 && v.chars[0] instanceof NumSeg) v = v.chars[0].v;     // ToNumber(String(n)) = n
    let i = this.asI(v);
    if (!i) { if (v instanceof SNum) i = this.fpToInt32(v.t); else return unsupported('typed array store of ' + describe(v)); }
    if (cls === 'c') return unsupported('Uint8ClampedArray');
    const m = 1n << big(bits);
    if (signed) { if (i.lo >= -(m >> 1n) && i.hi < (m >> 1n)) return this.mkI(i); return this.mkI({ t: '(- (mod (+ ' + i.t + ' ' + (m >> 1n) + ') ' + m + ') ' + (m >> 1n) + ')', lo: -(m >> 1n), hi: (m >> 1n) - 1n, tz: 0 }); }
    if (i.lo >= 0n && i.hi < m) return this.mkI(i);
    return this.mkI({ t: '(mod ' + i.t + ' ' + m + ')', lo: 0n, hi: m - 1n, tz: 0 });
  },

  // ---- floats
  fpBin(op, a, b) {
    const x = this.asF(a), y = this.asF(b);
    switch (op) {
      case '+': return this.F('(fp.add RNE ' + x + ' ' + y + ')');
      case '-': return this.F('(fp.sub RNE ' + x + ' ' + y + ')');
      case '*': return this.F('(fp.mul RNE ' + x + ' ' + y + ')');
      case '/': return this.F('(fp.div RNE ' + x + ' ' + y + ')');
      case '%':
        // fmod by the constant 1 (the only shape the natives use): x - trunc(x), exact, with the sign of x when it is zero; Inf % 1 = NaN
        if (b === 1) return this.F('(let ((r (fp.sub RNE ' + x + ' (fp.roundToIntegral RTZ ' + x + ')))) (ite (fp.isZero r) (ite (fp.isNegative ' + x + ') ' + fpLit(-0) + ' ' + fpLit(0) + ') r))');
        return unsupported('floating-point %');
      case '<': return this.B('(fp.lt ' + x + ' ' + y + ')');
      case '<=': return this.B('(fp.leq ' + x + ' ' + y + ')');
      case '>': return this.B('(fp.gt ' + x + ' ' + y + ')');
      case '>=': return this.B('(fp.geq ' + x + ' ' + y + ')');
      case '|': case '&': case '^': case '<<': case '>>': case '>>>': {
        const ia = this.asI(a) || this.fpToInt32(x), ib = this.asI(b) || this.fpToInt32(y);
        return this.intBin(op, ia, ib);
      }
    }
    return unsupported('float operator ' + op);
  },
  // ECMAScript ToInt32 of a double, as an exact integer view.  NaN and infinities map to 0.
  fpToInt32(ft) {
    this.st.flags.fp2int = true;
    const big_ = '(or (fp.isNaN ' + ft + ') (fp.isInfinite ' + ft + ') (fp.geq (fp.abs ' + ft + ') ' + fpLit(9223372036854775808) + '))';
    if (this.solver.check([this.nameBool('(and (not (or (fp.isNaN ' + ft + ') (fp.isInfinite ' + ft + '))) (fp.geq (fp.abs ' + ft + ') ' + fpLit(9223372036854775808) + '))')]) !== 'unsat')
      return unsupported('ToInt32 of a double that may exceed 2^63');
    // the 32-bit pattern is kept as a bit-vector term as well (.bv32): 32-bit coercions preserve it, and a 64-bit output made of two such words
    // can be compared with a reference inside the FP/BV theories, without the slow Int<->BitVec bridge
    const bv32 = this.def('(_ BitVec 32)', '(ite ' + big_ + ' #x00000000 ((_ extract 31 0) ((_ fp.to_sbv 64) RTZ ' + ft + ')))');
    const t = this.def('Int', '(s32of (bv2int ' + bv32 + '))');
    return { t, lo: -P31, hi: P31 - 1n, tz: 0, bv32 };
  },
  fround(v) {
    if (!isSym(v)) return Math.fround(v);
    // every integer of magnitude <= 2^24 is a float32: rounding leaves it unchanged (and it stays an exact integer for the engine)
    if (v instanceof SNum && v.k === 'i' && !v.nan && v.lo >= -(1n << 24n) && v.hi <= (1n << 24n)) return v;
    const x = this.asF(v);
    return this.F('((_ to_fp 11 53) RNE ((_ to_fp 8 24) RNE ' + x + '))');
  },

  // ---- intrinsics of the harness protocol
  intrinsic(name, args, env) {
    const st = this.st;
    if (name.startsWith('Nondet')) {
      const kind = name.slice(6);
      const id = this.concrete(args[0]);
      return this.nondet(kind, id, args.slice(1).map(x => (x !== null && typeof x === 'object' && !isSym(x)) ? x : this.concrete(x)), env);
    }
    if (name.startsWith('VerifOut')) { st.obs.push({ k: 'out', args: args.map(a => serialise(a)) }); return; }
    if (name === 'VerifAssume') {
      const v = args[0];
      if (!this.c(v)) throw new Abort('assume', 'assumption false on this path');
      return;
    }
    if (name === 'VerifReach') { st.reach.push(this.concrete(args[0])); return; }
    if (name === 'VerifChoice') return this.choice(this.concrete(args[0]), 'choice');
    if (name === 'VerifYield') {
      // behaves exactly like a blocking runtime primitive when the (symbolic) schedule says so
      const idx = st.yields++;
      if (this.cfg.maxYields !== undefined && idx >= this.cfg.maxYields) return;
      const yv = 'yield_' + idx;
      this.declareInput(yv, 'Bool', null, null);
      if (!this.branch(yv)) return;
      const g = env.env.cur();
      st.yielded++;
      env.env.block();
      env.env.setTimeout(() => env.env.schedule(g), 0);    // like runtime.Gosched: $setTimeout keeps the goroutine counted as awake
      return { $blk() { return; } };
    }
    return unsupported('intrinsic ' + name);
  },
  declareInput(name, sort, lo, hi) {
    const st = this.st;
    if (st.inputs[name]) return;
    st.inputs[name] = { sort, lo: lo === null ? null : String(lo), hi: hi === null ? null : String(hi) };
    this.solver.send('(declare-const ' + name + ' ' + sort + ')');
    if (lo !== null) this.solver.send('(assert (and (<= ' + lit(lo) + ' ' + name + ') (<= ' + name + ' ' + lit(hi) + ')))');
  },
  defineInput(name, sort, term) {
    const st = this.st;
    if (st.inputs[name]) return;
    st.inputs[name] = { sort, def: term };
    this.solver.send('(define-fun ' + name + ' () ' + sort + ' ' + term + ')');
  },
  nondet(kind, id, extra, env) {
    const name = 'in_' + id;
    const INTS = { Int8: [8, true], Int16: [16, true], Int32: [32, true], Int: [32, true], Uint8: [8, false], Byte: [8, false], Uint16: [16, false],
      Uint32: [32, false], Uint: [32, false], Uintptr: [32, false], Rune: [32, true] };
    if (INTS[kind]) {
      const [bits, signed] = INTS[kind];
      let lo = signed ? -(1n << big(bits - 1)) : 0n, hi = signed ? (1n << big(bits - 1)) - 1n : (1n << big(bits)) - 1n;
      if (extra.length === 2) { lo = big(extra[0]); hi = big(extra[1]); }
      this.declareInput(name, 'Int', lo, hi);
      return new SNum('i', name, lo, hi, 0);
    }
    if (kind === 'Uint32L') {
      // a uint32 declared through two 16-bit limbs (for limb-multiplication kernels such as bits.Mul32)
      const limbs = [name + '_l0', name + '_l1'];
      for (const l of limbs) this.declareInput(l, 'Int', 0n, 65535n);
      const u = '(+ ' + limbs[0] + ' (* 65536 ' + limbs[1] + '))';
      this.defineInput(name, 'Int', u);
      const v = new SNum('i', u, 0n, P32 - 1n, 0);
      v.bf = { limbs, u, s: 0, w: 32, exact: true };
      return v;
    }
    if (kind === 'Range') {
      this.declareInput(name, 'Int', big(extra[0]), big(extra[1]));
      return new SNum('i', name, big(extra[0]), big(extra[1]), 0);
    }
    if (kind === 'Int64R' || kind === 'Uint64R') {
      const f = o => (typeof o === 'number' ? big(o) : big(o.$high) * P32 + big(o.$low));
      const v = this.nondet(kind.slice(0, -1), id, [], env);
      this.st.inputs[name + '_range'] = { sort: 'Bool', def: '(and (<= ' + lit(f(extra[0])) + ' ' + name + ') (<= ' + name + ' ' + lit(f(extra[1])) + '))', assert: true };
      this.solver.send('(assert (and (<= ' + lit(f(extra[0])) + ' ' + name + ') (<= ' + name + ' ' + lit(f(extra[1])) + ')))');
      return v;
    }
    if (kind === 'Int64' || kind === 'Uint64') {
      // the input is declared through four 16-bit limbs so that limb arithmetic ($mul64) sees plain variables
      const signed = kind === 'Int64';
      const limbs = [0, 1, 2, 3].map(i => name + '_l' + i);
      for (const l of limbs) this.declareInput(l, 'Int', 0n, 65535n);
      const u = '(+ ' + limbs[0] + ' (* 65536 ' + limbs[1] + ') (* 4294967296 ' + limbs[2] + ') (* 281474976710656 ' + limbs[3] + '))';
      this.defineInput(name, 'Int', signed ? '(ite (>= ' + limbs[3] + ' 32768) (- ' + u + ' 18446744073709551616) ' + u + ')' : u);
      const C = signed ? env.I64 : env.U64;
      const o = Object.create(C.prototype);
      const hu = '(+ ' + limbs[2] + ' (* 65536 ' + limbs[3] + '))';
      const bfu = this.def('Int', u);
      o.$high = signed ? new SNum('i', this.def('Int', '(s32of ' + hu + ')'), -P31, P31 - 1n, 0) : new SNum('i', hu, 0n, P32 - 1n, 0);
      o.$high.bf = { limbs, u: bfu, s: 32, w: 32, exact: !signed };
      if (signed) o.$high.m32 = hu;
      o.$low = new SNum('i', '(+ ' + limbs[0] + ' (* 65536 ' + limbs[1] + '))', 0n, P32 - 1n, 0);
      o.$low.bf = { limbs, u: bfu, s: 0, w: 32, exact: true };
      o.$val = o;
      return o;
    }
    if (kind === 'Bool') { this.declareInput(name, 'Bool', null, null); return new SBool(name); }
    if (kind === 'Float64') { this.declareInput(name, '(_ FloatingPoint 11 53)', null, null); return new SNum('f', name, null, null); }
    if (kind === 'Float32') {
      this.declareInput(name, '(_ FloatingPoint 8 24)', null, null);
      return this.F('((_ to_fp 11 53) RNE ' + name + ')');
    }
    if (kind === 'String' || kind === 'Bytes') {
      // NondetString(id, maxLen): symbolic length 0..maxLen (forked), every byte symbolic
      const max = extra[0];
      this.declareInput(name + '_len', 'Int', 0n, big(max));
      const n = this.concretize({ t: name + '_len', lo: 0n, hi: big(max) });
      const chars = [];
      for (let i = 0; i < n; i++) { const c = name + '_' + i; this.declareInput(c, 'Int', 0n, 255n); chars.push(new SNum('i', c, 0n, 255n, 0)); }
      if (kind === 'String') return this.mkStr(chars);
      return chars;
    }
    return unsupported('Nondet' + kind);
  },
};

function ctz(b) { b = big(b); if (b === 0n) return 64; let n = 0; while ((b & 1n) === 0n) { b >>= 1n; n++; } return n; }
function fdiv(a, b) { let q = a / b; if ((a % b !== 0n) && ((a < 0n) !== (b < 0n))) q -= 1n; return q; }
function maxAbs(v) { const a = v.lo < 0n ? -v.lo : v.lo, b = v.hi < 0n ? -v.hi : v.hi; return a > b ? a : b; }
function describe(x) {
  if (x instanceof SNum) return 'sym-' + (x.k === 'i' ? 'int' : 'float');
  if (x instanceof SBool) return 'sym-bool'; if (x instanceof SStr) return 'sym-string'; if (x instanceof Quot) return 'sym-quotient';
  if (x === null) return 'null';
  if (typeof x === 'object') return 'object(' + (x.constructor && x.constructor.name) + ')';
  if (typeof x === 'function') return 'function';
  return typeof x + '(' + String(x) + ')';
}
const f64buf = new Float64Array(1), u64buf = new BigUint64Array(f64buf.buffer);
function fpLit(x) {
  f64buf[0] = x; const bits = u64buf[0];
  if (x !== x) return '(_ NaN 11 53)';
  const s = bits >> 63n, e = (bits >> 52n) & 0x7ffn, m = bits & 0xfffffffffffffn;
  return '(fp #b' + s.toString(2) + ' #b' + e.toString(2).padStart(11, '0') + ' #x' + m.toString(16).padStart(13, '0') + ')';
}
RT.fpLit = fpLit; RT.lit = lit; RT.describe = describe; RT.isSym = isSym;

// ---------------------------------------------------------------- shims for shadowed globals
const ShimMath = Object.create(Math);
ShimMath.imul = (a, b) => {
  if (!isSym(a) && !isSym(b)) return Math.imul(a, b);
  const x = RT.toInt32(RT.asI(a) || unsupported('imul')), y = RT.toInt32(RT.asI(b) || unsupported('imul'));
  if (!x.c && !y.c) RT.st.flags.nonlinear = true;
  return RT.mkI(RT.toInt32({ t: '(* ' + x.t + ' ' + y.t + ')', lo: -(1n << 62n), hi: 1n << 62n, tz: 0 }));
};
ShimMath.fround = v => RT.fround(v);
ShimMath.floor = v => {
  if (!isSym(v)) return Math.floor(v);
  if (v instanceof Quot) return RT.floorQuot(v);
  if (v instanceof SNum && v.k === 'i') return v;
  if (v instanceof SNum) return RT.F('(fp.roundToIntegral RTN ' + v.t + ')');
  return unsupported('Math.floor');
};
ShimMath.ceil = v => {
  if (!isSym(v)) return Math.ceil(v);
  if (v instanceof SNum && v.k === 'i') return v;
  if (v instanceof SNum) return RT.F('(fp.roundToIntegral RTP ' + v.t + ')');
  return unsupported('Math.ceil');
};
ShimMath.trunc = v => {
  if (!isSym(v)) return Math.trunc(v);
  if (v instanceof SNum && v.k === 'i') return v;
  if (v instanceof SNum) return RT.F('(fp.roundToIntegral RTZ ' + v.t + ')');
  return unsupported('Math.trunc');
};
ShimMath.abs = v => {
  if (!isSym(v)) return Math.abs(v);
  const i = RT.asI(v);
  if (i) { const m = maxAbs(i); return RT.mkI({ t: '(absi ' + i.t + ')', lo: (i.lo <= 0n && i.hi >= 0n) ? 0n : (i.lo > 0n ? i.lo : -i.hi), hi: m, tz: i.tz }); }
  if (v instanceof SNum) return RT.F('(fp.abs ' + v.t + ')');
  return unsupported('Math.abs');
};
ShimMath.sqrt = v => { if (!isSym(v)) return Math.sqrt(v); return RT.F('(fp.sqrt RNE ' + RT.asF(v) + ')'); };
ShimMath.min = (...a) => {
  if (!a.some(isSym)) return Math.min(...a);
  let r = a[0];
  for (let i = 1; i < a.length; i++) {
    const x = r, y = a[i], ix = RT.asI(x), iy = RT.asI(y);
    if (!(ix && iy)) return unsupported('Math.min on floats');
    const c = RT.b('<', x, y);
    r = c === true ? x : c === false ? y : RT.ite(c.t, x, y);
  }
  return r;
};
ShimMath.max = (...a) => {
  if (!a.some(isSym)) return Math.max(...a);
  let r = a[0];
  for (let i = 1; i < a.length; i++) {
    const x = r, y = a[i], ix = RT.asI(x), iy = RT.asI(y);
    if (!(ix && iy)) return unsupported('Math.max on floats');
    const c = RT.b('>', x, y);
    r = c === true ? x : c === false ? y : RT.ite(c.t, x, y);
  }
  return r;
};
ShimMath.random = () => {
  // an arbitrary double in [0,1): modelled by its only use, Math.floor(Math.random() * n)
  return new RandomValue();
};
class RandomValue extends SV {}
for (const fn of ['exp', 'log', 'sin', 'cos', 'tan', 'pow', 'atan', 'atan2', 'asin', 'acos', 'log2', 'log10', 'log1p', 'expm1', 'cbrt', 'sinh', 'cosh', 'tanh', 'hypot'])
  ShimMath[fn] = (...a) => { if (!a.some(isSym)) return Math[fn](...a); return unsupported('Math.' + fn + ' on symbolic value'); };

function ShimString(v) {
  if (new.target) return unsupported('new String');
  if (!isSym(v)) return String(v);
  if (v instanceof SStr) return v;
  return RT.mkStr(RT.numToStrChars(v));
}
ShimString.fromCharCode = function (...codes) {
  if (!codes.some(isSym)) return String.fromCharCode(...codes);
  return RT.mkStr(codes.map(c => { if (!isSym(c)) return c & 0xffff; const i = RT.asI(c); if (!i) unsupported('fromCharCode'); if (i.lo >= 0n && i.hi < 65536n) return c; return RT.mkI({ t: '(mod ' + i.t + ' 65536)', lo: 0n, hi: 65535n, tz: 0 }); }));
};
const origFCCApply = Function.prototype.apply;
ShimString.fromCharCode.apply = function (self, arr) { return ShimString.fromCharCode(...(arr instanceof TAbase ? arr.$toArray() : Array.from(arr))); };
ShimString.fromCodePoint = String.fromCodePoint;
ShimString.prototype = String.prototype;
function shimPair(a, b) {
  return (a === ShimString && b === String) || (b === ShimString && a === String) || (a === ShimNumber && b === Number) || (b === ShimNumber && a === Number) ||
    (a === ShimArray && b === Array) || (b === ShimArray && a === Array);
}
function ShimArray(...args) {
  if (args.length === 1 && isSym(args[0])) args[0] = RT.concrete(args[0]);
  return new Array(...args);
}
// Array.prototype as seen by the program: generic methods applied with .call()/.apply() to typed-array shims or to arrays
// holding symbolic values must not run natively (they would see no elements / coerce silently)
const ShimArrayProto = Object.create(Array.prototype);
for (const name of ['join', 'slice', 'indexOf', 'forEach', 'map', 'concat', 'every', 'some', 'filter', 'reduce', 'includes']) {
  const real = Array.prototype[name];
  Object.defineProperty(ShimArrayProto, name, { configurable: true, writable: true, enumerable: false, value: function (...args) {
    let self = this;
    if (self instanceof TAbase) self = self.$toArray();
    if (name === 'join' && (Array.isArray(self) || typeof self === 'object') && Array.prototype.some.call(self, isSym)) return RT.sm(Array.from(self), 'join', args);
    return real.apply(self, args);
  } });
}
ShimArray.prototype = ShimArrayProto;
Object.defineProperty(ShimArray, Symbol.hasInstance, { value: x => Array.isArray(x) });
for (const k of ['isArray', 'from', 'of']) ShimArray[k] = Array[k];
function ShimNumber(v) { if (!isSym(v)) return Number(v); if (v instanceof SNum) return v; return unsupported('Number()'); }
for (const k of ['MAX_SAFE_INTEGER', 'MIN_SAFE_INTEGER', 'MAX_VALUE', 'MIN_VALUE', 'EPSILON', 'POSITIVE_INFINITY', 'NEGATIVE_INFINITY', 'NaN', 'isInteger', 'isFinite', 'isNaN', 'isSafeInteger', 'parseFloat', 'parseInt']) ShimNumber[k] = Number[k];
ShimNumber.prototype = Number.prototype;
const shimParseInt = (v, radix) => {
  if (!isSym(v)) return parseInt(v, radix);
  if (v instanceof SNum && v.k === 'i') return v;
  if (v instanceof SNum) { RT.st.flags.parseIntFloat = true; return RT.F('(fp.roundToIntegral RTZ ' + v.t + ')'); }   // exact for |v| < 1e21; the harness assumes in-range values
  return unsupported('parseInt of ' + describe(v));
};
const shimParseFloat = v => { if (!isSym(v)) return parseFloat(v); if (v instanceof SNum) return v; return unsupported('parseFloat'); };
const shimIsNaN = v => { if (!isSym(v)) return isNaN(v); if (v instanceof SNum && v.k === 'i') return v.nan ? RT.B(v.nan) : false; if (v instanceof SNum) return RT.B('(fp.isNaN ' + v.t + ')'); return unsupported('isNaN'); };
const shimIsFinite = v => { if (!isSym(v)) return isFinite(v); if (v instanceof SNum && v.k === 'i') return true; if (v instanceof SNum) return RT.B('(not (or (fp.isNaN ' + v.t + ') (fp.isInfinite ' + v.t + ')))'); return unsupported('isFinite'); };

// Math.floor(Math.random() * n): a fresh choice among 0..n-1
const origB = RT.symBin;
RT.symBin = function (op, a, b) {
  if (a instanceof RandomValue && op === '*') { const n = this.concrete(b); const r = new RandomValue(); r.n = n; return r; }
  return origB.call(this, op, a, b);
};
const origFloor = ShimMath.floor;
ShimMath.floor = v => { if (v instanceof RandomValue) { if (v.n === undefined) return unsupported('Math.random use'); return RT.choice(v.n, 'random'); } return origFloor(v); };

// ---------------------------------------------------------------- one path = one execution of the program
function serialise(v, depth) {
  depth = depth || 0;
  if (v instanceof SNum) return v.k === 'i' ? { i: v.t, lo: String(v.lo), hi: String(v.hi), nan: v.nan || undefined, bv32: v.bv32, negz: v.negz } : { f: v.t };
  if (v instanceof SBool) return { b: v.t };
  if (v instanceof SStr) return { s: v.chars.map(c => typeof c === 'number' ? c : (c instanceof NumSeg ? '#num' : c.t)) };
  if (v instanceof Quot) return { quot: [v.n.t, v.d.t] };
  if (typeof v === 'number') {
    if (Number.isInteger(v) && !Object.is(v, -0)) return { i: lit(v), lo: String(v), hi: String(v), c: v };
    return { f: fpLit(v), c: Object.is(v, -0) ? '-0' : String(v) };
  }
  if (typeof v === 'string') { const a = []; for (let i = 0; i < v.length; i++) a.push(v.charCodeAt(i)); return { s: a, c: v }; }
  if (typeof v === 'boolean') return { b: String(v), c: v };
  if (v === undefined || v === null) return { u: String(v) };
  if (typeof v === 'object' && v !== null && '$high' in v && '$low' in v) {
    return { i64: [serialise(v.$high, 1), serialise(v.$low, 1)], kind: v.constructor && v.constructor.kind };
  }
  if (typeof v === 'object' && v !== null && '$real' in v && '$imag' in v) return { cplx: [serialise(v.$real, 1), serialise(v.$imag, 1)] };
  if (v instanceof Error) return { err: String(v.message) };
  if (depth < 2 && typeof v === 'object' && v !== null && v.$val !== undefined && v.$val !== v) return { boxed: serialise(v.$val, depth + 1) };
  return { obj: (v && v.constructor && (v.constructor.string || v.constructor.name)) || typeof v };
}

function runPath(compiled, prefix, cfg) {
  const solver = RT.solver;
  const st = RT.st = { prefix: prefix.slice(), depth: 0, pc: [], defs: [], inputs: {}, obs: [], flags: {}, reach: [], choices: [], unknown: 0, forks: 0, yields: 0, yielded: 0, decided: new Map() };
  RT.aborting = false;
  solver.send('(push 1)');
  let term = null;
  // event loop model
  let timers = [], seq = 0, now = 0;
  const setTimeoutShim = (fn, ms, ...args) => { const id = ++seq; timers.push({ id, at: now + (RT.concrete(ms) || 0), fn, args }); return id; };
  const clearTimeoutShim = id => { timers = timers.filter(t => t.id !== id); };
  globalThis.__jsx_setTimeout = setTimeoutShim;
  const DateShim = function () { return unsupported('new Date'); };
  let slicesUsed = 0;
  DateShim.now = () => {
    // the clock may jump past the scheduler's 4 ms time slice at any reading (bounded number of jumps per path)
    if (cfg.timeSlices && slicesUsed < cfg.timeSlices && RT.choice(2, 'clock') === 1) { slicesUsed++; now += 5; }
    return now;
  };
  const record = (k, args) => { st.obs.push({ k, args: args.map(a => serialise(a)) }); };
  const consoleShim = { log: (...a) => record('log', a), error: (...a) => record('err', a), warn: (...a) => record('err', a), info: (...a) => record('log', a) };
  class Exit extends Abort { constructor(code) { super('exit', 'process.exit(' + code + ')'); this.code = code; } }
  const processShim = { exit(code) { RT.aborting = true; throw new Exit(code); }, argv: ['node', 'out.js'], env: {}, stderr: { write(s) { record('stderr', [s]); } }, stdout: { write(s) { record('stdout', [s]); } }, platform: 'linux', cwd() { return '/'; }, pid: 1, on() {}, hrtime: () => [0, 0] };
  const sandboxGlobal = Object.create(globalThis);
  const defg = (k, v) => Object.defineProperty(sandboxGlobal, k, { value: v, writable: true, configurable: true, enumerable: true });
  defg('process', processShim); defg('require', undefined); defg('fs', undefined);
  for (const n of Object.keys(TA_KINDS)) defg(n, RT.TA[n]);
  defg('Map', SMap); defg('Array', ShimArray); defg('Math', ShimMath); defg('String', ShimString); defg('Number', ShimNumber);
  defg('console', consoleShim); defg('setTimeout', setTimeoutShim); defg('clearTimeout', clearTimeoutShim); defg('Date', DateShim);
  defg('parseInt', shimParseInt); defg('parseFloat', shimParseFloat); defg('isNaN', shimIsNaN); defg('isFinite', shimIsFinite);
  defg('global', sandboxGlobal); defg('globalThis', sandboxGlobal);
  for (const n of Object.keys(TA_KINDS)) defg(n, RT.TA[n]);      // $global.Float64Array etc. must be the same shims the program sees as globals
  defg('ArrayBuffer', TABuf);
  const requireShim = name => { throw new Error('module not available: ' + name); };
  const fail = (e, where) => {
    if (e && e.$$abort) {
      if (e.kind === 'exit') { term = { kind: 'exit', code: e.code }; return; }
      term = { kind: e.kind, detail: e.detail }; return;
    }
    // an uncaught JavaScript exception: Node prints it and exits with status 1
    let msg = e && e.message !== undefined ? e.message : e;
    let goErr = null;
    if (e && e.$panicValue !== undefined) goErr = serialise(e.$panicValue);
    if (msg instanceof SStr) msg = msg.chars.map(c => typeof c === 'number' ? String.fromCharCode(c) : '#').join('');
    term = { kind: 'uncaught', where, name: e && e.name, msg: { c: String(msg) }, goErr };
  };
  try {
    compiled.call(undefined, ShimArray, RT, sandboxGlobal, requireShim, undefined, consoleShim, processShim, ShimMath, ShimString, ShimNumber, SMap,
      shimParseInt, shimParseFloat, shimIsNaN, shimIsFinite, setTimeoutShim, clearTimeoutShim, DateShim,
      RT.TA.Int8Array, RT.TA.Uint8Array, RT.TA.Int16Array, RT.TA.Uint16Array, RT.TA.Int32Array, RT.TA.Uint32Array, RT.TA.Float32Array, RT.TA.Float64Array, TABuf);
  } catch (e) { fail(e, 'main'); }
  // drain the event loop
  let steps = 0;
  while (term === null && timers.length) {
    if (++steps > cfg.maxTimerSteps) { term = { kind: 'bound', detail: 'event loop steps' }; break; }
    // earliest deadline first; among equal deadlines, insertion order (Node's behaviour)
    let bi = 0;
    for (let i = 1; i < timers.length; i++) if (timers[i].at < timers[bi].at) bi = i;
    if (cfg.timerOrder) { // timers with the same deadline may fire in any order
      const same = []; for (let i = 0; i < timers.length; i++) if (timers[i].at === timers[bi].at) same.push(i);
      if (same.length > 1) { try { bi = same[RT.choice(same.length, 'timer')]; } catch (e) { fail(e, 'timer'); break; } }
    }
    const t = timers.splice(bi, 1)[0];
    if (t.at > now) now = t.at;
    try { t.fn(...t.args); } catch (e) { fail(e, 'timer'); }
  }
  if (term === null) term = { kind: 'normal' };
  solver.send('(pop 1)');
  const rec = { prefix: st.prefix, pc: st.pc, defs: st.defs, inputs: st.inputs, obs: st.obs, term, flags: st.flags, reach: st.reach, choices: st.choices, unknown: st.unknown, forks: st.forks, yields: st.yields, yielded: st.yielded };
  RT.st = null;
  return rec;
}

const PARAMS = ['Array', '$$', 'global', 'require', 'module', 'console', 'process', 'Math', 'String', 'Number', 'Map', 'parseInt', 'parseFloat', 'isNaN', 'isFinite',
  'setTimeout', 'clearTimeout', 'Date', 'Int8Array', 'Uint8Array', 'Int16Array', 'Uint16Array', 'Int32Array', 'Uint32Array', 'Float32Array', 'Float64Array', 'ArrayBuffer'];

function explore(instrumentedCode, cfg) {
  cfg = Object.assign({ maxDepth: 400, maxPaths: 2000, maxTimerSteps: 10000, solver: 'z3-new', timeoutMs: 10000, maxWallMs: 600000 }, cfg || {});
  RT.cfg = cfg;
  RT.TA = {}; for (const n of Object.keys(TA_KINDS)) RT.TA[n] = makeTA(n);
  const compiled = new Function(...PARAMS, instrumentedCode);
  const solver = RT.solver = new Solver(cfg.solver, cfg.timeoutMs, cfg.rlimit, Math.ceil(cfg.maxWallMs / 1000) + 120);
  RT.pending = [[]];
  const paths = [];
  let truncated = false;
  const t0 = Date.now();
  try {
    while (RT.pending.length) {
      if (paths.length >= cfg.maxPaths || Date.now() - t0 > cfg.maxWallMs) { truncated = true; break; }
      const prefix = RT.pending.pop();
      paths.push(runPath(compiled, prefix, cfg));
    }
  } finally { solver.close(); }
  return { paths, truncated, pendingLeft: RT.pending.length, queries: solver.queries, solverMs: solver.solverMs, wallMs: Date.now() - t0, solverErrors: solver.errors, smtPrelude: PRELUDE_SMT };
}

module.exports = { RT, explore, Abort, PRELUDE_SMT };
